//! C08: ingress is content-addressed, idempotent and order-free.
//!
//! * `c08`       replay of every TRANSITION of the MC_C08 state graph: a witness path to the source
//!               state, the action, the model's predicted result and projected target state.
//!               Worlds are cached by path, so a case costs one clone + one real call.
//! * `c08-ranks` byte-order ranks of the head keys and of the real BLAKE3 ingress ids (-> TLC).
//! * `c08-mr`    metamorphic runs: one intent set offered in a given order with given retry
//!               multiplicities between two passes; emits the hashes of the committed tick.
//! * `c08-ident` identity law: ingress id over a grid of (kind, bytes, causal parents, target).
//! * `c08-restart` at-most-once across a runtime-level restart, raw and ticketed path.

use std::collections::{BTreeMap, BTreeSet, HashMap, HashSet};

use serde_json::{json, Value};
use warp_core::{
    Engine, InboxPolicy, IngressCausalParent, IngressEnvelope, IngressTarget, ProvenanceStore, TickReceiptDisposition,
    WorldlineTick,
};

use crate::c09::{
    self, diff_values, envelope, head_key, head_name, head_of_target, kind_of, parse_head, worldline_id, World, WorldSnap,
};
use crate::util;

pub const INTENTS: &[&str] = &["a1", "a2", "b1", "bp"];

fn ingress_id_of(name: &str) -> [u8; 32] {
    envelope(IngressTarget::DefaultWriter { worldline_id: worldline_id(1) }, "kA", name).ingress_id()
}

pub fn run_ranks() -> i32 {
    let fields = match c09::selfcheck() {
        Ok(f) => f,
        Err(e) => {
            eprintln!("self-check failed: {e}");
            return 2;
        }
    };
    let mut names: Vec<String> = INTENTS.iter().map(|s| (*s).to_string()).collect();
    for k in 0..8 {
        names.push(format!("m{k}"));
    }
    let mut ids: Vec<([u8; 32], String)> = names.iter().map(|n| (ingress_id_of(n), n.clone())).collect();
    ids.sort();
    let mut m = serde_json::Map::new();
    for (i, (_, n)) in ids.iter().enumerate() {
        m.insert(n.clone(), json!(i + 1));
    }
    println!("{}", json!({"heads": c09::head_rank_table(), "intents": m, "mask": c09::RUNTIME_MASK, "runtime_fields": fields}));
    0
}

fn policy_of(name: &str) -> InboxPolicy {
    match name {
        "kA" => InboxPolicy::KindFilter([kind_of("kA")].into_iter().collect()),
        "b0" => InboxPolicy::Budgeted { max_per_tick: 0 },
        "b1" => InboxPolicy::Budgeted { max_per_tick: 1 },
        "b2" => InboxPolicy::Budgeted { max_per_tick: 2 },
        _ => InboxPolicy::AcceptAll,
    }
}

fn policy_json(p: &InboxPolicy) -> Value {
    match p {
        InboxPolicy::AcceptAll => json!({"t": "all"}),
        InboxPolicy::KindFilter(ks) => {
            let mut names: Vec<&str> = Vec::new();
            for k in ["kA", "kB"] {
                if ks.contains(&kind_of(k)) {
                    names.push(k);
                }
            }
            json!({"t": "kind", "ks": names})
        }
        InboxPolicy::Budgeted { max_per_tick } => json!({"t": "budget", "n": max_per_tick}),
    }
}

fn make_known(w: &mut World, universe: &[String]) {
    let heads = w.heads.clone();
    for (a, b) in heads {
        for n in universe {
            w.known.insert(((a, b), "kA".to_string(), n.clone()));
        }
    }
}

/// Projection in the shape of `ProjNext` of MC_C08.tla.
fn projection8(w: &World) -> Value {
    let mut tick = Vec::new();
    let mut prov = Vec::new();
    for wl in 1..=2u64 {
        let id = worldline_id(wl);
        tick.push(w.rt.worldlines().get(&id).map(|f| f.frontier_tick().as_u64()).unwrap_or(0));
        prov.push(if (wl as usize) <= w.topo.len() { w.prov.len(id).unwrap_or(u64::MAX) } else { 0 });
    }
    let comm = w.committed_set();
    let pend = w.pending_set(&comm);
    let mut events = BTreeSet::new();
    let mut seen = BTreeSet::new();
    for ((wl, _k), kind, name) in &w.known {
        if !seen.insert((*wl, name.clone())) {
            continue;
        }
        let id = worldline_id(*wl);
        let env = envelope(IngressTarget::DefaultWriter { worldline_id: id }, kind, name);
        if let Some(f) = w.rt.worldlines().get(&id) {
            let st = f.state();
            if st.store(&st.root().warp_id).is_some_and(|s| s.node(&warp_core::NodeId(env.ingress_id())).is_some()) {
                events.insert(format!("{wl}/{name}"));
            }
        }
    }
    let mut corr = BTreeSet::new();
    for (((a, b), name), sub) in &w.submissions {
        if let Some(c) = w.rt.receipt_correlation_for_submission(sub) {
            corr.insert(format!("{}/{}@{},{}", head_name(*a, *b), name, c.worldline_tick_after.as_u64(), c.commit_global_tick.as_u64()));
        }
    }
    let pol: Vec<Value> = w
        .heads
        .iter()
        .map(|(a, b)| w.rt.heads().get(&head_key(*a, *b)).map(|h| policy_json(h.inbox().policy())).unwrap_or(Value::Null))
        .collect();
    json!({"tick": tick, "gt": w.rt.global_tick().as_u64(), "prov": prov, "pend": pend, "comm": comm, "events": events,
           "corr": corr, "wpend": w.rt.pending_witnessed_submission_count(), "staged": w.rt.ticketed_runtime_ingress_count(),
           "witnessed": w.rt.witnessed_submission_count(), "pol": pol,
           "nfaults": w.rt.scheduler_fault_count(),
           "rtFault": w.rt.scheduler_runtime_fault().and_then(|r| w.faults_by_generation().iter().position(|f| f.fault_id == r.fault_id)).map(|p| p + 1).unwrap_or(0)})
}

fn norm8(v: &Value) -> Value {
    let mut o = c09::norm_proj(v);
    if let Some(a) = o.get("pend").and_then(|x| x.as_array()).cloned() {
        let mut s: Vec<String> = a
            .iter()
            .map(|x| match x {
                Value::String(t) => t.clone(),
                Value::Object(m) => format!("{}/{}", m.get("h").and_then(Value::as_str).unwrap_or(""), m.get("i").and_then(Value::as_str).unwrap_or("")),
                other => other.to_string(),
            })
            .collect();
        s.sort();
        o["pend"] = json!(s);
    }
    if let Some(a) = o.get("pol").and_then(|x| x.as_array()).cloned() {
        // kind sets arrive in arbitrary order
        let fixed: Vec<Value> = a
            .iter()
            .map(|p| {
                let mut p = p.clone();
                if let Some(ks) = p.get("ks").and_then(|x| x.as_array()).cloned() {
                    let mut s: Vec<String> = ks.iter().filter_map(|x| x.as_str().map(str::to_string)).collect();
                    s.sort();
                    p["ks"] = json!(s);
                }
                p
            })
            .collect();
        o["pol"] = json!(fixed);
    }
    o
}

/// Applies one op; returns (result json in the model's shape, property violations).
fn apply(w: &mut World, op: &Value) -> Result<(Value, Vec<(String, String)>), String> {
    let act = op["a"].as_str().unwrap_or("");
    let name = op["i"].as_str().unwrap_or("");
    Ok(match act {
        "ingest" => (w.ingest(&op["tg"], "kA", name), vec![]),
        "submit" => (w.submit(&op["tg"], "kA", name), vec![]),
        "stage" => (w.stage(&op["tg"], "kA", name, &head_of_target(&op["tg"]), op["t"].as_str().unwrap_or(""))?, vec![]),
        "policy" => {
            let (a, b) = parse_head(op["h"].as_str().unwrap_or(""));
            if !w.rt.verif_set_inbox_policy(&head_key(a, b), policy_of(op["p"].as_str().unwrap_or(""))) {
                return Err("policy: unknown head".to_string());
            }
            (json!({"ok": true, "err": ""}), vec![])
        }
        "resolve" => (w.resolve(op["f"].as_u64().unwrap_or(0) as usize)?, vec![]),
        "restart" => {
            w.restart()?;
            (json!({"ok": true, "err": ""}), vec![])
        }
        "tick" => {
            let comm0 = w.committed_set();
            let pend0 = w.pending_set(&comm0);
            let policies: BTreeMap<String, InboxPolicy> = w
                .heads
                .iter()
                .filter_map(|(a, b)| w.rt.heads().get(&head_key(*a, *b)).map(|h| (head_name(*a, *b), h.inbox().policy().clone())))
                .collect();
            let t = w.tick();
            let comm1 = w.committed_set();
            let pend1 = w.pending_set(&comm1);
            let mut viol = t.violations.clone();
            let mut steps = Vec::new();
            for s in &t.steps {
                let h = w.head_of_key(&s.head_key);
                let prefix = format!("{h}/");
                let mut adm: Vec<String> = pend0.difference(&pend1).filter(|x| x.starts_with(&prefix)).map(|x| x[prefix.len()..].to_string()).collect();
                adm.sort_by_key(|n| ingress_id_of(n));
                // whatever left the inbox must now be committed at that head, exactly once more than before
                for n in &adm {
                    let tag = format!("{h}/{n}");
                    // at most once per head, decided on the harness' own history of surviving commits (the
                    // runtime's ledger is what is under test, e.g. across a rolled-back later pass)
                    let c = w.commit_counts.entry(tag.clone()).or_insert(0);
                    *c += 1;
                    if *c > 1 {
                        viol.push(("intent_committed_twice_on_head".into(), format!("{tag} committed {c} times by surviving passes")));
                    }
                    if !comm1.contains(&tag) || comm0.contains(&tag) {
                        viol.push(("admitted_not_committed_once".into(), format!("{tag}: left the inbox but committed-before={} committed-after={}", comm0.contains(&tag), comm1.contains(&tag))));
                    }
                }
                // AdmittedInIdOrder + budget semantics decided on the real outcome: the admitted batch is the
                // prefix, in real ingress-id order, of what was pending; a budget n admits min(n, pending), and
                // 0 admits nothing (the head must not commit at all)
                let mut was: Vec<String> = pend0.iter().filter(|x| x.starts_with(&prefix)).map(|x| x[prefix.len()..].to_string()).collect();
                was.sort_by_key(|n| ingress_id_of(n));
                let limit = match policies.get(&h) {
                    Some(InboxPolicy::Budgeted { max_per_tick }) => *max_per_tick as usize,
                    _ => usize::MAX,
                };
                let want: Vec<String> = was.iter().take(limit).cloned().collect();
                if adm != want {
                    viol.push(("admitted_batch_not_id_ordered_prefix".into(), format!("{h}: pending (id order) {was:?}, policy limit {limit}, admitted {adm:?}")));
                }
                if adm.len() != s.admitted_count {
                    viol.push(("admitted_count_mismatch".into(), format!("{h}: StepRecord.admitted_count {} but {} envelopes left the inbox", s.admitted_count, adm.len())));
                }
                steps.push(json!({"head": h, "n": s.admitted_count, "tickAfter": s.worldline_tick_after.as_u64(),
                                  "gt": s.commit_global_tick.as_u64(), "adm": adm}));
            }
            // a pass can fail here only through the one environment fault this model contains: one
            // admission ticket staged for two submissions (receipt-correlation index conflict); the
            // all-or-nothing checks of World::tick apply and the model predicts the same error.
            // Steps of a failed pass are not observable: the runner compares ok/err only.
            let mut r = json!({"ok": t.ok, "err": t.err, "steps": steps});
            if !t.ok {
                r["steps"] = Value::Null;
            }
            (r, viol)
        }
        other => return Err(format!("unknown action {other}")),
    })
}

pub fn run(args: &[String]) -> i32 {
    if args.len() < 2 {
        eprintln!("usage: echo-verif c08 <cases.ndjson> <results.ndjson>");
        return 2;
    }
    if let Err(e) = c09::selfcheck() {
        eprintln!("self-check failed: {e}");
        return 2;
    }
    let universe: Vec<String> = INTENTS.iter().map(|s| (*s).to_string()).collect();
    // pass 1: which paths are source states of some transition (their worlds are worth caching)
    let mut needed: HashSet<String> = HashSet::new();
    for (_i, v) in util::read_lines(&args[0]) {
        if let Some(p) = v["path"].as_array() {
            needed.insert(serde_json::to_string(&p[..p.len().saturating_sub(1)]).unwrap_or_default());
        }
    }
    let mut cache: HashMap<(bool, String), WorldSnap> = HashMap::new();
    let mut engine: Option<Engine> = None;
    let mut out = util::Out::create(&args[1]);
    let mut hits = 0u64;
    let mut misses = 0u64;
    for (_i, v) in util::read_lines(&args[0]) {
        let w2 = v["w2"].as_bool().unwrap_or(false);
        let path: Vec<Value> = v["path"].as_array().cloned().unwrap_or_default();
        let n = path.len();
        let parent_key = serde_json::to_string(&path[..n.saturating_sub(1)]).unwrap_or_default();
        let full_key = serde_json::to_string(&path).unwrap_or_default();
        let topo: Vec<u64> = if w2 { vec![2, 1] } else { vec![2] };
        // obtain the source world
        let result = (|| -> Result<Value, String> {
            let mut w = match cache.get(&(w2, parent_key.clone())) {
                Some(s) => {
                    hits += 1;
                    let eng = match engine.take() {
                        Some(e) => e,
                        None => c09::build_engine(1)?,
                    };
                    World::from_snap(s, eng)
                }
                None => {
                    misses += 1;
                    let mut w = World::new(&topo, 1, &BTreeMap::new())?;
                    make_known(&mut w, &universe);
                    for op in &path[..n.saturating_sub(1)] {
                        apply(&mut w, op)?;
                    }
                    if needed.contains(&parent_key) {
                        cache.insert((w2, parent_key.clone()), w.snap());
                    }
                    w
                }
            };
            make_known(&mut w, &universe);
            let last = path.last().ok_or("empty path")?;
            let before = if last["a"] == "tick" { None } else { Some(c09::fingerprint(&w.rt, &w.prov, &w.engine)) };
            let (got_r, viol) = apply(&mut w, last)?;
            let mut violations: Vec<Value> = viol.iter().map(|(k, d)| json!({"kind": k, "detail": d})).collect();
            // idempotence decided on the real outcome: a Duplicate / refused ingress call changes NOTHING
            if let Some(b) = before {
                let refused = got_r["ok"] == false || got_r["disp"] == "Duplicate";
                if refused && matches!(last["a"].as_str(), Some("ingest" | "submit" | "stage")) {
                    let after = c09::fingerprint(&w.rt, &w.prov, &w.engine);
                    for d in c09::diff_fingerprints(&b, &after, c09::INSTRUMENTATION_MASK) {
                        violations.push(json!({"kind": "duplicate_or_refused_ingress_changed_state", "detail": d}));
                    }
                }
            }
            if matches!(last["a"].as_str(), Some("ingest" | "submit" | "stage")) && (got_r["disp"] == "Accepted" || got_r["disp"] == "Staged") {
                let tag = format!("{}/{}", got_r["head"].as_str().unwrap_or(""), last["i"].as_str().unwrap_or(""));
                if w.committed_set().contains(&tag) || w.commit_counts.get(&tag).copied().unwrap_or(0) > 0 {
                    violations.push(json!({"kind": "committed_intent_accepted_again", "detail": format!("{tag} is in the committed ledger of its head and was answered {}", got_r["disp"])}));
                }
            }
            let mut drift = Vec::new();
            let mut want_r = v["r"].clone();
            if got_r["steps"].is_null() && want_r["ok"] == false {
                want_r["steps"] = Value::Null;
            }
            let d = diff_values(&want_r, &got_r);
            if !d.is_empty() {
                drift.push(format!("result: {}", d.join("; ")));
            }
            let d = diff_values(&norm8(&v["s"]), &norm8(&projection8(&w)));
            if !d.is_empty() {
                drift.push(format!("state: {}", d.join("; ")));
            }
            if needed.contains(&full_key) && !cache.contains_key(&(w2, full_key.clone())) && drift.is_empty() {
                cache.insert((w2, full_key.clone()), w.snap());
            }
            let accepted = got_r["disp"] == "Accepted" || got_r["disp"] == "Staged";
            let dup = got_r["disp"] == "Duplicate";
            let nsteps = got_r["steps"].as_array().map(|a| a.len()).unwrap_or(0);
            engine = Some(w.into_engine());
            if !violations.is_empty() {
                return Ok(json!({"verdict": "violation", "kind": violations[0]["kind"], "detail": violations, "drift": drift}));
            }
            Ok(json!({"verdict": "ok", "drift": drift, "act": last["a"], "accepted": accepted, "dup": dup, "steps": nsteps,
                      "refused": got_r["ok"] == false}))
        })();
        match result {
            Ok(r) => out.line(&r),
            Err(e) => out.line(&json!({"verdict": "tool_error", "detail": e})),
        }
    }
    out.finish();
    eprintln!("c08: world cache hits {hits}, rebuilt from scratch {misses}, cached {}", cache.len());
    0
}

// ------------------------------------------------------------------------------------------
// metamorphic runs
// ------------------------------------------------------------------------------------------

/// case: {"set": [names], "seq": [names with repeats, arrival order], "policy": "all"|"b1"|..,
///        "route": "default"|"named"|"exact"|"mix", "pre": bool, "retry_after": bool}
fn mr_case(v: &Value) -> Result<Value, String> {
    let mut w = World::new(&[2], 1, &BTreeMap::new())?;
    let seq: Vec<String> = v["seq"].as_array().map(|a| a.iter().filter_map(|x| x.as_str().map(str::to_string)).collect()).unwrap_or_default();
    let set: Vec<String> = v["set"].as_array().map(|a| a.iter().filter_map(|x| x.as_str().map(str::to_string)).collect()).unwrap_or_default();
    let route = v["route"].as_str().unwrap_or("default");
    let head = if route == "default" { (1u64, 1u64) } else { (1, 2) };
    let wl = worldline_id(1);
    w.rt.verif_set_inbox_policy(&head_key(head.0, head.1), policy_of(v["policy"].as_str().unwrap_or("all")));
    if v["pre"].as_bool().unwrap_or(false) {
        // a first pass, so that the set is offered BETWEEN two passes
        let r = w.ingest(&json!({"t": "default", "w": 1}), "kA", "ok|pre");
        if r["disp"] != "Accepted" {
            return Err(format!("pre-intent not accepted: {r}"));
        }
        let t = w.tick();
        if !t.ok {
            return Err(format!("pre pass failed: {}", t.err));
        }
    }
    let target = |idx: usize| -> Value {
        match route {
            "default" => json!({"t": "default", "w": 1}),
            "named" => json!({"t": "named", "w": 1}),
            "exact" => json!({"t": "exact", "h": "1.2"}),
            // the same head through alternating routes
            _ => {
                if idx % 2 == 0 {
                    json!({"t": "named", "w": 1})
                } else {
                    json!({"t": "exact", "h": "1.2"})
                }
            }
        }
    };
    let mut dispositions = Vec::new();
    let mut seen = BTreeSet::new();
    for (idx, n) in seq.iter().enumerate() {
        let r = w.ingest(&target(idx), "kA", n);
        let want = if seen.insert(n.clone()) { "Accepted" } else { "Duplicate" };
        if r["disp"] != want {
            return Ok(json!({"verdict": "violation", "kind": "mr_disposition", "detail": format!("arrival {idx} of {n}: got {r}, want {want}")}));
        }
        dispositions.push(r["disp"].clone());
    }
    let comm0 = w.committed_set();
    let pend_before = w.pending_set(&comm0);
    let t = w.tick();
    if !t.violations.is_empty() {
        return Ok(json!({"verdict": "violation", "kind": t.violations[0].0, "detail": format!("{:?}", t.violations)}));
    }
    if !t.ok {
        return Ok(json!({"verdict": "violation", "kind": "mr_pass_failed", "detail": t.err}));
    }
    let comm1 = w.committed_set();
    let pend_after = w.pending_set(&comm1);
    let f = w.rt.worldlines().get(&wl).ok_or("worldline missing")?;
    let st = f.state();
    let (snap, receipt, patch) = match st.tick_history().last() {
        Some(x) => x,
        None => return Ok(json!({"verdict": "ok", "empty": true, "hashes": {"empty": true}, "pend_before": pend_before, "pend_after": pend_after})),
    };
    // the admitted order as far as it is observable: receipt entries (plan order) by scope
    let id_to_name: BTreeMap<[u8; 32], String> = set.iter().map(|n| (ingress_id_of(n), n.clone())).collect();
    let order: Vec<String> = receipt
        .entries()
        .iter()
        .map(|e| id_to_name.get(&e.scope.local_id.0).cloned().unwrap_or_else(|| "?".to_string()))
        .collect();
    let applied = receipt.entries().iter().filter(|e| matches!(e.disposition, TickReceiptDisposition::Applied)).count();
    let prov_entry = w.prov.entry(wl, WorldlineTick::from_raw(f.frontier_tick().as_u64() - 1)).map_err(|e| format!("{e:?}"))?;
    let hashes = json!({"state_root": util::hex32(&snap.state_root), "commit": util::hex32(&snap.hash), "patch": util::hex32(&patch.digest()),
                   "receipt": util::hex32(&receipt.digest()), "plan": util::hex32(&snap.plan_digest),
                   "prov_commit": util::hex32(&prov_entry.expected.commit_hash), "order": order, "applied": applied,
                   "admitted": t.steps.iter().map(|s| s.admitted_count).collect::<Vec<_>>(),
                   "tick": f.frontier_tick().as_u64(), "gt": w.rt.global_tick().as_u64()});
    // retries after the commit must be Duplicate and must not re-enter the inbox
    let mut late = Vec::new();
    if v["retry_after"].as_bool().unwrap_or(false) {
        let committed_names: BTreeSet<String> = comm1.iter().filter_map(|x| x.split('/').nth(1).map(str::to_string)).collect();
        for (idx, n) in set.iter().enumerate() {
            if committed_names.contains(n) {
                let r = w.ingest(&target(idx), "kA", n);
                if r["disp"] != "Duplicate" {
                    return Ok(json!({"verdict": "violation", "kind": "retry_after_commit_not_duplicate", "detail": format!("{n}: {r}")}));
                }
                late.push(n.clone());
            }
        }
        let comm2 = w.committed_set();
        let pend2 = w.pending_set(&comm2);
        if pend2 != pend_after {
            return Ok(json!({"verdict": "violation", "kind": "retry_after_commit_reentered_inbox", "detail": format!("{pend_after:?} -> {pend2:?}")}));
        }
    }
    Ok(json!({"verdict": "ok", "hashes": hashes,
        "pend_before": pend_before, "pend_after": pend_after, "late_duplicates": late.len()}))
}

pub fn run_mr(args: &[String]) -> i32 {
    if args.len() < 2 {
        eprintln!("usage: echo-verif c08-mr <cases.ndjson> <results.ndjson>");
        return 2;
    }
    let mut out = util::Out::create(&args[1]);
    for (_i, v) in util::read_lines(&args[0]) {
        let r = match util::catch(|| mr_case(&v)) {
            Ok(Ok(r)) => r,
            Ok(Err(e)) => json!({"verdict": "tool_error", "detail": e}),
            Err(p) => json!({"verdict": "tool_error", "detail": format!("harness panic: {p}")}),
        };
        out.line(&r);
    }
    out.finish();
    0
}

// ------------------------------------------------------------------------------------------
// identity law
// ------------------------------------------------------------------------------------------

pub fn run_ident(args: &[String]) -> i32 {
    if args.is_empty() {
        eprintln!("usage: echo-verif c08-ident <out.ndjson>");
        return 2;
    }
    let mut out = util::Out::create(&args[0]);
    let kinds = ["kA", "kB"];
    let bytes: [&[u8]; 6] = [b"", b"x", b"y", b"x\0", b"xy", b"ingress:"];
    let p = |role: u8, n: u8| -> IngressCausalParent {
        if role == 0 {
            IngressCausalParent::TickReceipt { receipt_ref: c09::causal_ref(n) }
        } else {
            IngressCausalParent::ContractInverseTarget { receipt_ref: c09::causal_ref(n) }
        }
    };
    // parent lists as given (the canonical parent SET is what identity may depend on)
    let parent_lists: Vec<(Vec<IngressCausalParent>, String)> = vec![
        (vec![], "{}".into()),
        (vec![p(0, 1)], "{T1}".into()),
        (vec![p(0, 2)], "{T2}".into()),
        (vec![p(1, 1)], "{C1}".into()),
        (vec![p(0, 1), p(0, 2)], "{T1,T2}".into()),
        (vec![p(0, 2), p(0, 1)], "{T1,T2}".into()),
        (vec![p(0, 1), p(0, 1)], "{T1}".into()),
        (vec![p(0, 1), p(1, 1)], "{C1,T1}".into()),
        (vec![p(1, 1), p(0, 1)], "{C1,T1}".into()),
    ];
    let targets: Vec<(IngressTarget, &str)> = vec![
        (IngressTarget::DefaultWriter { worldline_id: worldline_id(1) }, "default1"),
        (IngressTarget::DefaultWriter { worldline_id: worldline_id(2) }, "default2"),
        (IngressTarget::InboxAddress { worldline_id: worldline_id(1), inbox: warp_core::InboxAddress("pub".into()) }, "named1"),
        (IngressTarget::ExactHead { key: head_key(1, 2) }, "exact1.2"),
    ];
    for k in kinds {
        for b in bytes {
            for (pl, canon) in &parent_lists {
                for (t, tn) in &targets {
                    let env = IngressEnvelope::local_intent_with_causal_parents(t.clone(), kind_of(k), b.to_vec(), pl.clone());
                    // the retained encoding must round-trip to the same identity
                    let rt = IngressEnvelope::from_retained_bytes(&env.to_retained_bytes_v2()).map(|e| util::hex32(&e.ingress_id())).unwrap_or_else(|e| format!("decode error {e:?}"));
                    out.line(&json!({"kind": k, "bytes": hex::encode(b), "parents": canon, "given": pl.len(), "target": tn,
                                     "id": util::hex32(&env.ingress_id()), "roundtrip_id": rt}));
                }
            }
        }
    }
    out.finish();
    0
}

// ------------------------------------------------------------------------------------------
// restart
// ------------------------------------------------------------------------------------------

/// Scenarios: an intent is committed on a head, the runtime restarts, the intent is retried on the same
/// head and a pass runs. `path` = raw (`ingest`) or ticketed (`submit_intent` + ticketed staging).
fn restart_case(v: &Value) -> Result<Value, String> {
    let path = v["path"].as_str().unwrap_or("raw");
    let when = v["when"].as_str().unwrap_or("committed"); // committed | pending
    let tg = match v["route"].as_str().unwrap_or("default") {
        "named" => json!({"t": "named", "w": 1}),
        "exact" => json!({"t": "exact", "h": "1.2"}),
        _ => json!({"t": "default", "w": 1}),
    };
    let head = head_of_target(&tg);
    let mut w = World::new(&[2], 1, &BTreeMap::new())?;
    // "raw_norule": an envelope no command rule matches (no receipt entry is produced for it)
    let name = if path == "raw_norule" { "zz|no-command-rule-matches" } else { "a1" };
    let offer = |w: &mut World, first: bool| -> Result<Value, String> {
        if path == "raw" || path == "raw_norule" {
            Ok(w.ingest(&tg, "kA", name))
        } else {
            let s = w.submit(&tg, "kA", name);
            if s["ok"] == false {
                return Ok(s);
            }
            if s["disp"] == "Duplicate" && !first {
                // a duplicate submission of something already committed: the host stops here
                let (a, b) = parse_head(&head);
                let committed = w.committed_set().contains(&format!("{}/{}", head_name(a, b), name));
                if committed {
                    return Ok(s);
                }
            }
            w.stage(&tg, "kA", name, &head, "restart-ticket")
        }
    };
    let first = offer(&mut w, true)?;
    if when == "committed" {
        let t = w.tick();
        if !t.ok || t.steps.len() != 1 {
            return Err(format!("first pass: {} steps, err {}", t.steps.len(), t.err));
        }
    }
    w.restart()?;
    let retry = offer(&mut w, false)?;
    let t2 = w.tick();
    if !t2.ok {
        return Err(format!("pass after restart failed: {}", t2.err));
    }
    // how often was the intent committed on this head? It is the only work in play, so every step of
    // a pass is a commit of it (independent of whether a command rule matched).
    let wl = worldline_id(1);
    let (hw, hk) = parse_head(&head);
    let hkey = head_key(hw, hk);
    let mut commits = if when == "committed" { 1 } else { 0 };
    commits += t2.steps.iter().filter(|s| s.head_key == hkey && s.admitted_count > 0).count();
    let mut local_commits = 0;
    for tck in 0..w.prov.len(wl).map_err(|e| format!("{e:?}"))? {
        let e = w.prov.entry(wl, WorldlineTick::from_raw(tck)).map_err(|e| format!("{e:?}"))?;
        if e.head_key == Some(hkey) {
            local_commits += 1;
        }
    }
    if local_commits != commits {
        return Err(format!("commit accounting: {local_commits} provenance entries of the head vs {commits} counted steps"));
    }
    Ok(json!({"verdict": "ok", "path": path, "when": when, "route": v["route"], "first": first, "retry": retry,
              "second_pass_steps": t2.steps.len(), "commits_of_intent_on_head": commits,
              "ticks": w.rt.worldlines().get(&wl).map(|f| f.frontier_tick().as_u64()).unwrap_or(0)}))
}

pub fn run_restart(args: &[String]) -> i32 {
    if args.len() < 2 {
        eprintln!("usage: echo-verif c08-restart <cases.ndjson> <results.ndjson>");
        return 2;
    }
    let mut out = util::Out::create(&args[1]);
    for (_i, v) in util::read_lines(&args[0]) {
        let r = match util::catch(|| restart_case(&v)) {
            Ok(Ok(r)) => r,
            Ok(Err(e)) => json!({"verdict": "tool_error", "detail": e}),
            Err(p) => json!({"verdict": "tool_error", "detail": format!("harness panic: {p}")}),
        };
        out.line(&r);
    }
    out.finish();
    0
}
