//! C17: external actions move once through request, claim and settlement - durably.
//!
//! `c17 <cases.ndjson> <results.ndjson>` replays behaviours exported by TLC from
//! spec/MC_C17.tla (ExtAction.tla) into the REAL `ExternalActionCoordinatorV1` over the real
//! `InMemoryWalStore`, wrapped in `FaultStore`, a `WalStorePort` that fails or "crashes"
//! (unwinds; the coordinator is dropped, the store is kept) at the store call the behaviour
//! names. After EVERY step the harness
//!   * compares result class, live postures, readiness with the model's prediction (drift),
//!   * recovers a coordinator from a clone of the store and compares postures, outstanding
//!     grants, commit count and tail posture with the model,
//!   * decides the property itself on the real outcome: lifecycle monotone and one stage per
//!     commit, at most one distinct claim grant per request, a settlement admitted only for
//!     the durable claim and within the request bounds, a returned grant's commit is in the
//!     store (and was flushed by the last store call), recovered coordinator == live
//!     coordinator (entries, merkle nodes, root digest, WAL continuation), retries return the
//!     retained settlement without touching the store, no stage is committed twice.
//!
//! `c17 trace <seed> <events> <reqs> <out.ndjson>` is the seeded random driver (TV leg): it
//! records one ndjson event per fine-grained action for spec/ExtActionTrace.tla.

use std::collections::{BTreeMap, BTreeSet};
use std::panic::{catch_unwind, AssertUnwindSafe};
use std::sync::atomic::{AtomicUsize, Ordering};
use std::sync::Mutex;

use serde_json::{json, Value};
use warp_core::causal_wal::{
    recover_in_memory_store, ExternalActionCoordinatorCapability, InMemoryWalStore, Lsn, PayloadCodecId,
    PayloadSchemaId, RecoveryAccessMode, WalDurabilityMode, WalFrame, WalManifest, WalSegmentId, WalSegmentSeal,
    WalStoreError, WalStorePort, WalTransactionCommit, WalTransactionId, WriterEpoch, WriterEpochId,
    WriterEpochRequest,
};
use warp_core::external_action::{
    admit_external_action_settlement, claim_external_action, reconcile_external_action_settlement_retry,
    record_external_action_request, AdmittedExternalActionSettlementV1, DurablyRecordedExternalActionRequestV1,
    ExternalActionAdapterAuthorizationV1, ExternalActionAdapterBindingV1, ExternalActionAdapterIdV1,
    ExternalActionAdapterRegistryV1, ExternalActionAttemptIdV1, ExternalActionBudgetV1, ExternalActionClaimGrantV1,
    ExternalActionClaimV1, ExternalActionCoordinatorV1, ExternalActionOperationIdV1, ExternalActionProtocolErrorV1,
    ExternalActionRequestV1, ExternalActionSettlementCandidateV1, ExternalActionSettlementKindV1,
    ExternalActionTransactionContextV1, RecoveredExternalActionPostureV1, RecoveredExternalActionV1,
    MAX_EXTERNAL_ACTION_SETTLEMENT_BYTES_V1,
};
use warp_core::{Hash, WorldlineId};

use crate::util;

const BOUND: u64 = 8;

thread_local! {
    /// Interpretation of the model's abstract `Bound`: 8 bytes (default) or the protocol ceiling
    /// `MAX_EXTERNAL_ACTION_SETTLEMENT_BYTES_V1` (case field `"scale":"ceiling"`): "s2" is then a result of
    /// exactly the ceiling, "oversized" one byte more. Same behaviours, same predicted classes.
    static CEIL: std::cell::Cell<bool> = const { std::cell::Cell::new(false) };
}
fn ceil() -> bool {
    CEIL.with(std::cell::Cell::get)
}
fn bound() -> u64 {
    if ceil() {
        MAX_EXTERNAL_ACTION_SETTLEMENT_BYTES_V1
    } else {
        BOUND
    }
}
const STOCK: usize = 6;

fn digest(label: &str) -> Hash {
    blake3::hash(label.as_bytes()).into()
}

// ------------------------------------------------------------------ fixtures

fn epoch_id() -> WriterEpochId {
    WriterEpochId::from_hash(digest("c17:epoch"))
}

fn new_store() -> InMemoryWalStore {
    let mut store = InMemoryWalStore::new();
    store
        .acquire_writer_epoch(WriterEpochRequest {
            epoch_id: epoch_id(),
            storage_fencing_token: digest("c17:fencing"),
            process_identity: digest("c17:process"),
            host_identity: digest("c17:host"),
            started_at_lsn: Lsn::from_raw(0),
            previous_epoch_id: None,
            previous_epoch_final_commit_digest: None,
            lease_or_lock_evidence: digest("c17:lease"),
        })
        .expect("writer epoch");
    store
}

fn context(label: &str) -> ExternalActionTransactionContextV1 {
    ExternalActionTransactionContextV1 {
        writer_epoch: epoch_id(),
        segment_id: WalSegmentId::from_raw(1),
        transaction_id: WalTransactionId::from_hash(digest(label)),
        durability_mode: WalDurabilityMode::Buffered,
        payload_codec_id: PayloadCodecId::from_hash(digest("c17:codec")),
        payload_schema_id: PayloadSchemaId::from_hash(digest("c17:schema")),
        payload_schema_version: 1,
        canonical_encoding_version: 1,
        digest_domain: digest("c17:domain"),
    }
}

fn op_id() -> ExternalActionOperationIdV1 {
    ExternalActionOperationIdV1::from_hash(digest("c17.op@1"))
}
fn scope() -> Hash {
    digest("c17:scope")
}
fn schema() -> Hash {
    digest("c17.op@1.settlement")
}

fn build_request(name: &str, scope_digest: Hash, bytes: u64, attempts: u32) -> Result<ExternalActionRequestV1, ExternalActionProtocolErrorV1> {
    ExternalActionRequestV1::new(
        WorldlineId::from_bytes([7; 32]),
        op_id(),
        digest("c17.op@1.input"),
        schema(),
        scope_digest,
        digest(&format!("basis:{name}")),
        ExternalActionBudgetV1 { max_settlement_bytes: bytes, max_attempts: attempts },
        digest(&format!("input:{name}")),
        digest("c17.op@1.reconcile"),
    )
}

fn request_for(name: &str) -> ExternalActionRequestV1 {
    build_request(name, scope(), bound(), 1).expect("valid request fixture")
}

fn adapter(n: u8) -> ExternalActionAdapterIdV1 {
    ExternalActionAdapterIdV1::from_hash(digest(&format!("adapter:A{n}")))
}

fn registry() -> ExternalActionAdapterRegistryV1 {
    ExternalActionAdapterRegistryV1::new([
        ExternalActionAdapterBindingV1 { adapter_id: adapter(1), operation_id: op_id(), authority_scope_digest: scope() },
        ExternalActionAdapterBindingV1 { adapter_id: adapter(2), operation_id: op_id(), authority_scope_digest: scope() },
        ExternalActionAdapterBindingV1 { adapter_id: adapter(1), operation_id: op_id(), authority_scope_digest: digest("c17:scope-other") },
    ])
}

/// claim variant -> (adapter, lease evidence)
fn claim_args(v: &str) -> (ExternalActionAdapterIdV1, Hash) {
    match v {
        "ok2" => (adapter(2), digest("lease:l2")),
        _ => (adapter(1), digest("lease:l1")),
    }
}

/// settlement variant -> (kind, canonical bytes)
fn stl_args(v: &str) -> (ExternalActionSettlementKindV1, Vec<u8>) {
    use ExternalActionSettlementKindV1 as K;
    match v {
        "s2" if ceil() => (K::Succeeded, vec![0xb2; MAX_EXTERNAL_ACTION_SETTLEMENT_BYTES_V1 as usize]),
        "oversized" if ceil() => (K::Succeeded, vec![0x31; MAX_EXTERNAL_ACTION_SETTLEMENT_BYTES_V1 as usize + 1]),
        "s2" => (K::Succeeded, b"b2b2b2b2".to_vec()),
        "rej" => (K::Rejected, b"b1".to_vec()),
        "fail" => (K::Failed, b"b1".to_vec()),
        "unk" => (K::OutcomeUnknown, Vec::new()),
        "oversized" => (K::Succeeded, b"123456789".to_vec()),
        _ => (K::Succeeded, b"b1".to_vec()),
    }
}

fn claim_name(c: &ExternalActionClaimV1) -> String {
    for v in ["ok", "ok2"] {
        let (a, l) = claim_args(v);
        if c.adapter_id == a && c.lease_evidence_digest == l {
            return v.to_string();
        }
    }
    format!("?{}", hex::encode(&c.attempt_id.as_hash()[..4]))
}

fn stl_name(kind: ExternalActionSettlementKindV1, bytes: &[u8]) -> String {
    for v in ["s1", "s2", "rej", "fail", "unk"] {
        let (k, b) = stl_args(v);
        if k == kind && b == bytes {
            return v.to_string();
        }
    }
    format!("?{kind:?}:{}", hex::encode(bytes))
}

fn posture_str(e: Option<&RecoveredExternalActionV1>) -> String {
    match e {
        None => "none".into(),
        Some(e) => match (&e.claim, &e.settlement, e.posture) {
            (None, None, RecoveredExternalActionPostureV1::Requested) => "requested".into(),
            (Some(c), None, RecoveredExternalActionPostureV1::Claimed) => format!("claimed:{}", claim_name(c)),
            (Some(c), Some(s), RecoveredExternalActionPostureV1::Settled(k)) if k == s.kind => {
                format!("settled:{}:{}", claim_name(c), stl_name(s.kind, &s.canonical_result_bytes))
            }
            _ => format!("INCONSISTENT({:?},claim={},settlement={})", e.posture, e.claim.is_some(), e.settlement.is_some()),
        },
    }
}

fn stage_of(p: &str) -> u8 {
    if p == "none" {
        0
    } else if p == "requested" {
        1
    } else if p.starts_with("claimed") {
        2
    } else if p.starts_with("settled") {
        3
    } else {
        9
    }
}

fn err_class(e: &ExternalActionProtocolErrorV1) -> String {
    let s = format!("{e:?}");
    s.chars().take_while(|c| c.is_ascii_alphanumeric()).collect()
}

// ------------------------------------------------------------------ fault-injecting store

#[derive(Clone, Copy, Debug, PartialEq, Eq)]
enum Plan {
    None,
    FaultFramePre,
    FaultFramePost,
    FaultCommitPre,
    FaultCommitPost,
    CrashFrame,
    CrashCommit { lose: bool },
    CrashAck,
}

fn plan_of(f: &str) -> Option<Plan> {
    Some(match f {
        "-" | "ok" => Plan::None,
        "fault_frame_pre" => Plan::FaultFramePre,
        "fault_frame_post" => Plan::FaultFramePost,
        "fault_commit_pre" => Plan::FaultCommitPre,
        "fault_commit_post" => Plan::FaultCommitPost,
        "crash_frame" => Plan::CrashFrame,
        "crash_commit_keep" => Plan::CrashCommit { lose: false },
        "crash_commit_lose" => Plan::CrashCommit { lose: true },
        "crash_ack" => Plan::CrashAck,
        _ => return None,
    })
}

struct CrashMarker;

#[derive(Clone, Debug, PartialEq, Eq)]
enum Ev {
    Append { applied: bool, ok: bool },
    Flush { applied: bool, ok: bool, digest: Hash },
}

/// `WalStorePort` over the real in-memory store that fails / crashes where planned.
struct FaultStore {
    inner: InMemoryWalStore,
    plan: Plan,
    /// snapshot taken before the frame of the transaction in flight (only for crash_commit_lose)
    pre_frame: Option<InMemoryWalStore>,
    log: Vec<Ev>,
    /// optional fine-grained event sink for the trace driver
    trace: Option<Vec<Value>>,
}

impl FaultStore {
    fn new() -> Self {
        Self { inner: new_store(), plan: Plan::None, pre_frame: None, log: Vec::new(), trace: None }
    }
    fn io() -> WalStoreError {
        WalStoreError::Io("injected c17 store fault".to_owned())
    }
    fn ev(&mut self, v: Value) {
        if let Some(t) = self.trace.as_mut() {
            t.push(v);
        }
    }
}

impl WalStorePort for FaultStore {
    fn acquire_writer_epoch(&mut self, request: WriterEpochRequest) -> Result<WriterEpoch, WalStoreError> {
        self.inner.acquire_writer_epoch(request)
    }

    fn append_frame(&mut self, epoch_id: WriterEpochId, frame: WalFrame) -> Result<(), WalStoreError> {
        match self.plan {
            Plan::FaultFramePre => {
                self.plan = Plan::None;
                self.log.push(Ev::Append { applied: false, ok: false });
                self.ev(json!({"event":"fault","phase":"frame","mode":"pre"}));
                Err(Self::io())
            }
            Plan::CrashFrame => {
                self.plan = Plan::None;
                self.ev(json!({"event":"crash","phase":"frame","keep":true}));
                std::panic::panic_any(CrashMarker)
            }
            Plan::FaultFramePost => {
                self.plan = Plan::None;
                self.inner.append_frame(epoch_id, frame)?;
                self.log.push(Ev::Append { applied: true, ok: false });
                self.ev(json!({"event":"fault","phase":"frame","mode":"post"}));
                Err(Self::io())
            }
            _ => {
                if matches!(self.plan, Plan::CrashCommit { lose: true }) {
                    self.pre_frame = Some(self.inner.clone());
                }
                let r = self.inner.append_frame(epoch_id, frame);
                self.log.push(Ev::Append { applied: r.is_ok(), ok: r.is_ok() });
                if r.is_ok() {
                    self.ev(json!({"event":"append"}));
                }
                r
            }
        }
    }

    fn flush_commit(&mut self, epoch_id: WriterEpochId, commit: WalTransactionCommit) -> Result<(), WalStoreError> {
        self.inner.flush_commit(epoch_id, commit)
    }

    fn flush_external_action_commit(
        &mut self,
        epoch_id: WriterEpochId,
        commit: WalTransactionCommit,
        capability: ExternalActionCoordinatorCapability,
    ) -> Result<(), WalStoreError> {
        let digest = commit.commit_digest;
        match self.plan {
            Plan::FaultCommitPre => {
                self.plan = Plan::None;
                self.log.push(Ev::Flush { applied: false, ok: false, digest });
                self.ev(json!({"event":"fault","phase":"commit","mode":"pre"}));
                Err(Self::io())
            }
            Plan::CrashCommit { lose } => {
                self.plan = Plan::None;
                if lose {
                    if let Some(snap) = self.pre_frame.take() {
                        self.inner = snap;
                    }
                }
                self.ev(json!({"event":"crash","phase":"commit","keep":!lose}));
                std::panic::panic_any(CrashMarker)
            }
            Plan::FaultCommitPost => {
                self.plan = Plan::None;
                self.inner.flush_external_action_commit(epoch_id, commit, capability)?;
                self.log.push(Ev::Flush { applied: true, ok: false, digest });
                self.ev(json!({"event":"fault","phase":"commit","mode":"post"}));
                Err(Self::io())
            }
            Plan::CrashAck => {
                self.plan = Plan::None;
                self.inner.flush_external_action_commit(epoch_id, commit, capability)?;
                self.log.push(Ev::Flush { applied: true, ok: false, digest });
                self.ev(json!({"event":"flush"}));
                self.ev(json!({"event":"crash","phase":"ack","keep":true}));
                std::panic::panic_any(CrashMarker)
            }
            _ => {
                let r = self.inner.flush_external_action_commit(epoch_id, commit, capability);
                self.log.push(Ev::Flush { applied: r.is_ok(), ok: r.is_ok(), digest });
                if r.is_ok() {
                    self.ev(json!({"event":"flush"}));
                }
                r
            }
        }
    }

    fn read_frames(&self) -> Vec<WalFrame> {
        self.inner.read_frames()
    }
    fn read_commits(&self) -> Vec<WalTransactionCommit> {
        self.inner.read_commits()
    }
    fn seal_segment(&mut self, epoch_id: WriterEpochId, segment_id: WalSegmentId) -> Result<WalSegmentSeal, WalStoreError> {
        self.inner.seal_segment(epoch_id, segment_id)
    }
    fn truncate_tail_after(&mut self, after_lsn: Lsn) -> Result<(), WalStoreError> {
        self.inner.truncate_tail_after(after_lsn)
    }
    fn publish_manifest(&mut self, epoch_id: WriterEpochId, manifest: WalManifest) -> Result<(), WalStoreError> {
        self.inner.publish_manifest(epoch_id, manifest)
    }
    fn close_epoch(&mut self, epoch_id: WriterEpochId) -> Result<(), WalStoreError> {
        self.inner.close_epoch(epoch_id)
    }
}

// ------------------------------------------------------------------ scratch worlds (foreign tokens / grants)

/// Two independent logs: in `req` every request is recorded (source of foreign request
/// tokens); in `claim` every request is recorded and claimed by A1 with lease lF (source of
/// foreign grants and of a genuine attempt id of a DIFFERENT attempt of the same request).
struct Scratch {
    req: ExternalActionCoordinatorV1,
    claim: ExternalActionCoordinatorV1,
}

impl Scratch {
    fn new(names: &[String]) -> Self {
        let mut s1 = new_store();
        let mut c1 = ExternalActionCoordinatorV1::recover(&s1).expect("scratch recover");
        let mut s2 = new_store();
        let mut c2 = ExternalActionCoordinatorV1::recover(&s2).expect("scratch recover");
        let reg = registry();
        for n in names {
            let rq = request_for(n);
            record_external_action_request(&mut s1, &mut c1, context(&format!("scratch1:{n}")), rq).expect("scratch record");
            let tok = record_external_action_request(&mut s2, &mut c2, context(&format!("scratch2:req:{n}")), rq).expect("scratch record");
            let auth = reg.authorize(&rq, adapter(1)).expect("scratch auth");
            claim_external_action(&mut s2, &mut c2, context(&format!("scratch2:claim:{n}")), tok, auth, rq.basis_digest, 0, digest("lease:lF"))
                .expect("scratch claim");
        }
        Self { req: c1, claim: c2 }
    }
    fn token(&self, rq: &ExternalActionRequestV1) -> DurablyRecordedExternalActionRequestV1 {
        self.req.recorded_request(rq.request_id()).expect("foreign token")
    }
    fn grant(&self, rq: &ExternalActionRequestV1) -> ExternalActionClaimGrantV1 {
        self.claim.claim_grant(rq.request_id()).expect("foreign grant")
    }
}

// ------------------------------------------------------------------ simulation of one behaviour

#[derive(Default)]
struct Findings {
    violations: Vec<(String, String)>,
    drift: Vec<String>,
    tool: Vec<String>,
}

struct Recovered {
    dirty: bool,
    coord: ExternalActionCoordinatorV1,
    commits: usize,
}

fn recover_clone(inner: &InMemoryWalStore) -> Result<Recovered, String> {
    let bare = ExternalActionCoordinatorV1::recover(inner);
    let dirty = match &bare {
        Ok(_) => false,
        Err(ExternalActionProtocolErrorV1::WalTailNotClean) => true,
        Err(e) => return Err(format!("bare coordinator recovery failed: {e:?}")),
    };
    let mut c = inner.clone();
    recover_in_memory_store(&mut c, RecoveryAccessMode::Writable).map_err(|e| format!("WAL recovery failed: {e:?}"))?;
    let coord = ExternalActionCoordinatorV1::recover(&c).map_err(|e| format!("coordinator recovery after WAL recovery failed: {e:?}"))?;
    if !dirty {
        if let Ok(b) = &bare {
            if *b != coord {
                return Err("recovery of a clean log differs before/after WAL recovery".into());
            }
        }
    }
    Ok(Recovered { dirty, coord, commits: c.commit_count() })
}

struct Sim<'w> {
    names: &'w [String],
    reqs: BTreeMap<String, ExternalActionRequestV1>,
    scratch: &'w Scratch,
    reg: ExternalActionAdapterRegistryV1,
    store: FaultStore,
    coord: Option<ExternalActionCoordinatorV1>,
    tokens: BTreeMap<String, Vec<DurablyRecordedExternalActionRequestV1>>,
    grants: BTreeMap<String, Vec<ExternalActionClaimGrantV1>>,
    grant_ids: BTreeMap<String, BTreeSet<(Hash, Hash)>>,
    ok_count: BTreeMap<(String, &'static str), u32>,
    ret_token: BTreeMap<String, Hash>,
    ret_grant: BTreeMap<String, (ExternalActionClaimV1, Hash)>,
    ret_fact: BTreeMap<String, AdmittedExternalActionSettlementV1>,
    rec_prev: ExternalActionCoordinatorV1,
    post_prev: BTreeMap<String, String>,
    txn: u64,
    salt: String,
    f: Findings,
    roots: BTreeSet<(String, String)>,
    n_checks: u64,
    last_acc: Value,
    classes: BTreeSet<String>,
}

enum Outcome {
    Class(String),
    Crashed,
}

impl<'w> Sim<'w> {
    fn new(names: &'w [String], scratch: &'w Scratch, salt: &str) -> Self {
        let store = FaultStore::new();
        let coord = ExternalActionCoordinatorV1::recover(&store).expect("genesis recover");
        let rec_prev = coord.clone();
        Self {
            names,
            reqs: names.iter().map(|n| (n.clone(), request_for(n))).collect(),
            scratch,
            reg: registry(),
            store,
            coord: Some(coord),
            tokens: BTreeMap::new(),
            grants: BTreeMap::new(),
            grant_ids: BTreeMap::new(),
            ok_count: BTreeMap::new(),
            ret_token: BTreeMap::new(),
            ret_grant: BTreeMap::new(),
            ret_fact: BTreeMap::new(),
            rec_prev,
            post_prev: names.iter().map(|n| (n.clone(), "none".to_string())).collect(),
            txn: 0,
            salt: salt.to_string(),
            f: Findings::default(),
            roots: BTreeSet::new(),
            n_checks: 0,
            last_acc: Value::Null,
            classes: BTreeSet::new(),
        }
    }

    fn viol(&mut self, kind: &str, detail: String) {
        self.f.violations.push((kind.to_string(), detail));
    }

    fn label(&mut self, what: &str) -> String {
        self.txn += 1;
        format!("c17:{}:{}:{what}", self.salt, self.txn)
    }

    fn note_grant(&mut self, r: &str, g: &ExternalActionClaimGrantV1) {
        let set = self.grant_ids.entry(r.to_string()).or_default();
        set.insert((g.claim().attempt_id.as_hash(), g.claim_commit_digest()));
        if set.len() > 1 {
            let d = format!("request {r}: {} distinct claim grants handed out", set.len());
            self.viol("second_claim_grant", d);
        }
    }

    /// The commit that justifies a returned authority must be in the store and must have been
    /// flushed successfully by the last store call.
    fn check_durable(&mut self, what: &str, r: &str, commit_digest: Hash) {
        let in_store = self.store.inner.read_commits().iter().any(|c| c.commit_digest == commit_digest);
        let last_ok = matches!(self.store.log.last(), Some(Ev::Flush { applied: true, ok: true, digest }) if *digest == commit_digest);
        if !in_store || !last_ok {
            self.viol(
                "returned_before_durable",
                format!("{what} for {r} returned Ok but its commit is not durably flushed (in_store={in_store}, last_store_call_flushed_it={last_ok})"),
            );
        }
    }

    fn bump(&mut self, r: &str, what: &'static str) {
        let c = self.ok_count.entry((r.to_string(), what)).or_insert(0);
        *c += 1;
        if *c > 1 {
            let d = format!("{what} returned Ok {} times for request {r}", *c);
            self.viol("step_repeated", d);
        }
    }

    fn run_call<T>(&mut self, plan: Plan, f: impl FnOnce(&mut FaultStore, &mut ExternalActionCoordinatorV1) -> Result<T, ExternalActionProtocolErrorV1>) -> Result<Result<T, ExternalActionProtocolErrorV1>, Outcome> {
        self.store.plan = plan;
        let mut coord = self.coord.take().expect("live coordinator");
        let store = &mut self.store;
        let r = catch_unwind(AssertUnwindSafe(|| f(store, &mut coord)));
        let unconsumed = self.store.plan != Plan::None;
        self.store.plan = Plan::None;
        self.store.pre_frame = None;
        match r {
            Ok(res) => {
                self.coord = Some(coord);
                if unconsumed {
                    self.f.drift.push(format!("planned fault {plan:?} was never reached (the call did not get to the store)"));
                }
                Ok(res)
            }
            Err(p) => {
                if p.downcast_ref::<CrashMarker>().is_some() {
                    drop(coord);
                    Err(Outcome::Crashed)
                } else {
                    let msg = util::panic_message(&p);
                    self.viol("panic_in_code_under_test", msg.clone());
                    drop(coord);
                    Err(Outcome::Class(format!("PANIC:{msg}")))
                }
            }
        }
    }

    fn candidate(&self, r: &str, v: &str, claim: &ExternalActionClaimV1) -> ExternalActionSettlementCandidateV1 {
        let rq = self.reqs[r];
        let (kind, bytes) = stl_args(v);
        let mut c = ExternalActionSettlementCandidateV1::new(
            rq.request_id(),
            claim.attempt_id,
            claim.adapter_id,
            kind,
            rq.settlement_schema_digest,
            rq.basis_digest,
            bytes,
            digest("c17:schema-admission"),
            digest("c17:external-evidence"),
        );
        match v {
            "cand_other_request" => c.request_id = request_for("rX").request_id(),
            "cand_wrong_attempt" => {
                let other = self.scratch.grant(&rq).claim().attempt_id;
                c.attempt_id = if other == claim.attempt_id { ExternalActionAttemptIdV1::from_hash(digest("bogus-attempt")) } else { other };
            }
            "cand_wrong_adapter" => c.adapter_id = if claim.adapter_id == adapter(1) { adapter(2) } else { adapter(1) },
            "cand_wrong_basis" => c.basis_digest = digest("basis:wrong"),
            "wrong_schema" => c.settlement_schema_digest = digest("schema:wrong"),
            "zero_schema_ev" => c.schema_admission_evidence_digest = [0; 32],
            "zero_ext_ev" => c.external_evidence_digest = [0; 32],
            "bad_digest" => c.declared_result_digest = digest("not-the-result"),
            _ => {}
        }
        c
    }

    /// Independent statement of "exact claimed attempt and within the declared bounds".
    fn candidate_is_lawful(rq: &ExternalActionRequestV1, claim: &ExternalActionClaimV1, c: &ExternalActionSettlementCandidateV1) -> bool {
        c.request_id == rq.request_id()
            && c.attempt_id == claim.attempt_id
            && c.adapter_id == claim.adapter_id
            && c.basis_digest == rq.basis_digest
            && c.settlement_schema_digest == rq.settlement_schema_digest
            && c.schema_admission_evidence_digest != [0; 32]
            && c.external_evidence_digest != [0; 32]
            && (c.canonical_result_bytes.len() as u64) <= rq.budget.max_settlement_bytes
            && (c.canonical_result_bytes.len() as u64) <= MAX_EXTERNAL_ACTION_SETTLEMENT_BYTES_V1
            && Hash::from(blake3::hash(&c.canonical_result_bytes)) == c.declared_result_digest
    }

    fn do_record(&mut self, r: &str, v: &str, plan: Plan) -> Outcome {
        let built = match v {
            "zero_bytes" => build_request(r, scope(), 0, 1),
            "zero_attempts" => build_request(r, scope(), bound(), 0),
            "two_attempts" => build_request(r, scope(), bound(), 2),
            "over_limit" => build_request(r, scope(), MAX_EXTERNAL_ACTION_SETTLEMENT_BYTES_V1 + 1, 1),
            _ => Ok(self.reqs[r]),
        };
        let mut rq = match built {
            Ok(rq) => rq,
            Err(e) => return Outcome::Class(err_class(&e)),
        };
        if v == "tampered" {
            if ceil() {
                rq.budget.max_settlement_bytes -= 1;
            } else {
                rq.budget.max_settlement_bytes += 1;
            }
        }
        let ctx = context(&self.label("record"));
        match self.run_call(plan, |s, c| record_external_action_request(s, c, ctx, rq)) {
            Err(o) => o,
            Ok(Err(e)) => Outcome::Class(err_class(&e)),
            Ok(Ok(tok)) => {
                self.check_durable("request token", r, tok.request_commit_digest());
                self.bump(r, "record");
                if tok.request() != self.reqs[r] {
                    self.viol("recorded_request_differs", format!("token for {r} carries another request"));
                }
                self.ret_token.insert(r.to_string(), tok.request_commit_digest());
                self.tokens.entry(r.to_string()).or_default().push(tok);
                Outcome::Class("Ok".into())
            }
        }
    }

    fn authorization(&self, rq: &ExternalActionRequestV1, v: &str) -> Result<ExternalActionAdapterAuthorizationV1, ExternalActionProtocolErrorV1> {
        match v {
            "wrong_adapter" => self.reg.authorize(rq, adapter(9)),
            "auth_other_scope" => {
                let other = build_request("r-other-scope", digest("c17:scope-other"), bound(), 1)?;
                self.reg.authorize(&other, adapter(1))
            }
            "auth_other_request" => self.reg.authorize(&request_for("rX"), adapter(1)),
            _ => self.reg.authorize(rq, claim_args(v).0),
        }
    }

    fn do_claim(&mut self, r: &str, v: &str, plan: Plan) -> Outcome {
        let rq = self.reqs[r];
        let auth = match self.authorization(&rq, v) {
            Ok(a) => a,
            Err(e) => return Outcome::Class(err_class(&e)),
        };
        let tok = match self.tokens.get_mut(r).and_then(Vec::pop) {
            Some(t) => t,
            None => self.scratch.token(&rq),
        };
        let basis = if v == "stale_basis" { digest("basis:changed") } else { rq.basis_digest };
        let ordinal = if v == "ordinal1" { 1 } else { 0 };
        let lease = if v == "zero_lease" { [0; 32] } else { claim_args(v).1 };
        let ctx = context(&self.label("claim"));
        match self.run_call(plan, |s, c| claim_external_action(s, c, ctx, tok, auth, basis, ordinal, lease)) {
            Err(o) => o,
            Ok(Err(e)) => Outcome::Class(err_class(&e)),
            Ok(Ok(g)) => {
                self.check_durable("claim grant", r, g.claim_commit_digest());
                self.bump(r, "claim");
                self.note_grant(r, &g);
                if g.request() != rq {
                    self.viol("grant_for_other_request", format!("grant for {r} carries another request"));
                }
                self.ret_grant.insert(r.to_string(), (g.claim(), g.claim_commit_digest()));
                self.grants.entry(r.to_string()).or_default().push(g);
                Outcome::Class("Ok".into())
            }
        }
    }

    fn do_settle(&mut self, r: &str, v: &str, plan: Plan) -> Outcome {
        let rq = self.reqs[r];
        let grant = if v == "foreign_grant" {
            self.scratch.grant(&rq)
        } else {
            match self.grants.get_mut(r).and_then(Vec::pop) {
                Some(g) => g,
                None => self.scratch.grant(&rq),
            }
        };
        let cand = self.candidate(r, v, &grant.claim());
        // what the durable log says about r before this step
        let durable = self.rec_prev.observed_index().get(rq.request_id()).cloned();
        let lawful = match &durable {
            Some(e) => match (&e.claim, &e.settlement, e.claim_commit_digest) {
                (Some(cl), None, Some(cd)) => {
                    Self::candidate_is_lawful(&e.request, cl, &cand) && grant.claim() == *cl && grant.claim_commit_digest() == cd && grant.request() == e.request
                }
                _ => false,
            },
            None => false,
        };
        let ctx = context(&self.label("settle"));
        let cand2 = cand.clone();
        match self.run_call(plan, |s, c| admit_external_action_settlement(s, c, ctx, grant, cand2)) {
            Err(o) => o,
            Ok(Err(e)) => Outcome::Class(err_class(&e)),
            Ok(Ok(fact)) => {
                self.check_durable("settlement fact", r, fact.settlement_commit_digest());
                self.bump(r, "settle");
                if !lawful {
                    self.viol(
                        "settlement_admitted_unlawfully",
                        format!("settlement variant {v} for {r} admitted although it does not match the durable claim / bounds (durable posture {})", posture_str(durable.as_ref())),
                    );
                }
                let s = fact.settlement();
                if s.canonical_result_bytes != cand.canonical_result_bytes || s.kind != cand.kind || s.attempt_id != cand.attempt_id {
                    self.viol("admitted_settlement_differs_from_candidate", format!("{r}"));
                }
                self.ret_fact.insert(r.to_string(), fact);
                Outcome::Class("Ok".into())
            }
        }
    }

    fn do_retry(&mut self, r: &str, v: &str) -> Outcome {
        let rq = self.reqs[r];
        let coord = self.coord.as_ref().expect("live coordinator");
        let claim = coord
            .observed_index()
            .get(rq.request_id())
            .and_then(|e| e.claim)
            .unwrap_or_else(|| self.scratch.grant(&rq).claim());
        let cand = self.candidate(r, v, &claim);
        let calls_before = self.store.log.len();
        let commits_before = self.store.inner.commit_count();
        let frames_before = self.store.inner.read_frames().len();
        let res = catch_unwind(AssertUnwindSafe(|| reconcile_external_action_settlement_retry(coord, cand)));
        let res = match res {
            Ok(r) => r,
            Err(p) => {
                let msg = util::panic_message(&p);
                self.viol("panic_in_code_under_test", msg.clone());
                return Outcome::Class(format!("PANIC:{msg}"));
            }
        };
        if self.store.log.len() != calls_before || self.store.inner.commit_count() != commits_before || self.store.inner.read_frames().len() != frames_before {
            self.viol("retry_touched_the_log", format!("{r}"));
        }
        match res {
            Err(e) => Outcome::Class(err_class(&e)),
            Ok(fact) => {
                // answered from the retained result: what the durable log holds, and what was returned first
                let retained = self.rec_prev.admitted_settlement(rq.request_id());
                match retained {
                    Ok(ret) if ret == fact => {}
                    other => self.viol(
                        "retry_not_answered_from_retained_result",
                        format!("{r}: retry returned {:?}/{} but the durable log retains {:?}", fact.settlement().kind, hex::encode(&fact.settlement().canonical_result_bytes), other.map(|x| x.settlement().kind)),
                    ),
                }
                if let Some(first) = self.ret_fact.get(r) {
                    if *first != fact {
                        self.viol("retry_differs_from_first_answer", format!("{r}"));
                    }
                }
                Outcome::Class("Ok".into())
            }
        }
    }

    fn accessors(c: &ExternalActionCoordinatorV1, rq: &ExternalActionRequestV1) -> [String; 3] {
        let id = rq.request_id();
        [
            c.recorded_request(id).map(|_| "Ok".to_string()).unwrap_or_else(|e| err_class(&e)),
            c.claim_grant(id).map(|_| "Ok".to_string()).unwrap_or_else(|e| err_class(&e)),
            c.admitted_settlement(id).map(|_| "Ok".to_string()).unwrap_or_else(|e| err_class(&e)),
        ]
    }

    fn do_observe(&mut self, exp: &Value) -> Outcome {
        let coord = self.coord.as_ref().expect("live coordinator");
        let mut diffs = Vec::new();
        let mut acc_all = serde_json::Map::new();
        for n in self.names {
            let got = Self::accessors(coord, &self.reqs[n]);
            acc_all.insert(n.clone(), json!(got.to_vec()));
            let want: Vec<String> = exp["acc"][n].as_array().map(|a| a.iter().map(|x| x.as_str().unwrap_or("").to_string()).collect()).unwrap_or_default();
            if want.len() == 3 && got.to_vec() != want {
                diffs.push(format!("{n}: accessors {got:?}, model {want:?}"));
            }
        }
        self.f.drift.extend(diffs);
        self.last_acc = Value::Object(acc_all);
        Outcome::Class("Ok".into())
    }

    fn do_recover(&mut self) -> Outcome {
        self.coord = None; // whatever coordinator existed is gone
        let bare = ExternalActionCoordinatorV1::recover(&self.store);
        let class = match &bare {
            Ok(_) => "Ok".to_string(),
            Err(e) => err_class(e),
        };
        if let Err(e) = recover_in_memory_store(&mut self.store.inner, RecoveryAccessMode::Writable) {
            self.viol("wal_recovery_failed", format!("{e:?}"));
            return Outcome::Class(format!("WalRecovery:{e:?}"));
        }
        match ExternalActionCoordinatorV1::recover(&self.store) {
            Ok(c) => {
                if let Ok(b) = bare {
                    if b != c {
                        self.viol("recover_not_idempotent", "coordinator recovered before and after WAL recovery of a clean log differ".into());
                    }
                }
                self.coord = Some(c);
                Outcome::Class(class)
            }
            Err(e) => {
                self.viol("recovery_obstructed", format!("coordinator recovery after WAL recovery failed: {e:?}"));
                Outcome::Class(err_class(&e))
            }
        }
    }

    /// Executes one op-level step and all after-step checks. `exp` is the model's entry (may
    /// lack predictions when driven by the random driver).
    fn step(&mut self, exp: &Value) -> Option<Value> {
        let o = exp["o"].as_str().unwrap_or("");
        let r = exp["r"].as_str().unwrap_or("-").to_string();
        let v = exp["v"].as_str().unwrap_or("-").to_string();
        let fate = exp["f"].as_str().unwrap_or("-");
        let Some(plan) = plan_of(fate) else {
            self.f.tool.push(format!("unknown fate {fate}"));
            return None;
        };
        if o != "recover" && self.coord.is_none() {
            self.f.tool.push(format!("op {o} with no live coordinator"));
            return None;
        }
        if o != "recover" && o != "observe" && !self.reqs.contains_key(&r) {
            self.f.tool.push(format!("unknown request {r}"));
            return None;
        }
        let t0 = self.store.trace.as_ref().map(Vec::len).unwrap_or(0);
        let out = match o {
            "record" => self.do_record(&r, &v, plan),
            "claim" => self.do_claim(&r, &v, plan),
            "settle" => self.do_settle(&r, &v, plan),
            "retry" => self.do_retry(&r, &v),
            "observe" => self.do_observe(exp),
            "recover" => self.do_recover(),
            _ => {
                self.f.tool.push(format!("unknown op {o}"));
                return None;
            }
        };
        let class = match &out {
            Outcome::Class(c) => c.clone(),
            Outcome::Crashed => "Crashed".to_string(),
        };
        self.classes.insert(format!("{o}:{class}"));
        let post = self.after(exp, &class);
        if self.store.trace.is_some() {
            self.emit_trace(o, &r, &v, &class, t0, &post);
        }
        Some(post)
    }

    /// Trace events of this op: the store wrapper already logged append / flush / fault / crash
    /// while the call ran; the call itself is inserted before them, the completion (ret) after.
    fn emit_trace(&mut self, o: &str, r: &str, v: &str, class: &str, t0: usize, post: &Value) {
        let info = json!({"rdy": post["rdy"], "lp": post["lp"], "dp": post["dp"]});
        let merge = |ev: &mut Value| {
            for k in ["rdy", "lp", "dp"] {
                ev[k] = info[k].clone();
            }
        };
        let Some(tr) = self.store.trace.as_mut() else { return };
        let store_events = tr.len() - t0;
        match o {
            "observe" => tr.push(json!({"event":"observe","acc": self.last_acc})),
            "recover" => tr.push(json!({"event":"recover","res":class,"lp":post["lp"],"ncommit":post["ncommit"]})),
            _ => {
                let durable = store_events > 0;
                let mut call = json!({"event":"call","o":o,"r":r,"v":v,"res": if durable {"DURABLE"} else {class}});
                if !durable {
                    merge(&mut call);
                }
                tr.insert(t0, call);
                if durable {
                    if class == "Ok" {
                        let mut ret = json!({"event":"ret"});
                        merge(&mut ret);
                        tr.push(ret);
                    } else if let Some(last) = tr.last_mut() {
                        // the fault / crash event that completed the call carries the post state
                        if last["event"] == "crash" {
                            last["dp"] = info["dp"].clone();
                        } else {
                            merge(last);
                        }
                    }
                }
            }
        }
    }

    fn after(&mut self, exp: &Value, class: &str) -> Value {
        let tag = format!("{} {} {} {}", exp["o"].as_str().unwrap_or(""), exp["r"].as_str().unwrap_or(""), exp["v"].as_str().unwrap_or(""), exp["f"].as_str().unwrap_or(""));
        let modelled = exp.get("res").is_some();
        // ---- model conformance: result class
        if modelled && exp["res"].as_str() != Some(class) {
            self.f.drift.push(format!("[{tag}] result class {class}, model {}", exp["res"]));
        }
        // ---- recover from a clone of the durable store
        let rec = match recover_clone(&self.store.inner) {
            Ok(r) => r,
            Err(e) => {
                self.viol("recovery_obstructed", format!("[{tag}] {e}"));
                return json!({"class": class});
            }
        };
        self.n_checks += 1;
        let mut dp = BTreeMap::new();
        let mut gr = BTreeMap::new();
        let mut stage_sum = 0usize;
        for n in self.names {
            let rq = self.reqs[n];
            let p = posture_str(rec.coord.observed_index().get(rq.request_id()));
            if p.starts_with("INCONSISTENT") || p.contains('?') {
                self.viol("lifecycle_entry_inconsistent", format!("[{tag}] {n}: {p}"));
            }
            let acc = Self::accessors(&rec.coord, &rq);
            let oks: Vec<usize> = (0..3).filter(|i| acc[*i] == "Ok").collect();
            let g = match oks.as_slice() {
                [] => "-",
                [0] => "T",
                [1] => "G",
                [2] => "S",
                _ => "MANY",
            };
            let st = stage_of(&p);
            let want_g = ["-", "T", "G", "S"].get(st as usize).copied().unwrap_or("?");
            if g != want_g {
                self.viol("outstanding_grants_do_not_match_posture", format!("[{tag}] {n}: posture {p}, reconstructible authority {g} ({acc:?})"));
            }
            // lifecycle: monotone, one stage at a time, identity of claim / settlement stable
            let prev = self.post_prev[n].clone();
            let pst = stage_of(&prev);
            if st < pst || st > pst + 1 {
                self.viol("lifecycle_not_a_prefix", format!("[{tag}] {n}: durable posture went {prev} -> {p}"));
            } else if st == pst && p != prev {
                self.viol("lifecycle_not_a_prefix", format!("[{tag}] {n}: durable posture changed within a stage {prev} -> {p}"));
            } else if st == 3 && pst == 2 && !p.starts_with(&format!("settled:{}:", &prev["claimed:".len()..])) {
                self.viol("lifecycle_not_a_prefix", format!("[{tag}] {n}: settled for another claim {prev} -> {p}"));
            }
            stage_sum += st as usize;
            // grants returned earlier are exactly what recovery reconstructs
            let id = rq.request_id();
            if st == 1 {
                if let (Some(d), Ok(t)) = (self.ret_token.get(n), rec.coord.recorded_request(id)) {
                    if t.request_commit_digest() != *d || t.request() != rq {
                        self.viol("recovered_grant_differs", format!("[{tag}] {n}: recovered request token differs from the one returned"));
                    }
                }
            }
            if st == 2 {
                if let Ok(g2) = rec.coord.claim_grant(id) {
                    if let Some((cl, d)) = self.ret_grant.get(n) {
                        if g2.claim() != *cl || g2.claim_commit_digest() != *d {
                            self.viol("recovered_grant_differs", format!("[{tag}] {n}: recovered claim grant differs from the one returned"));
                        }
                    }
                    self.note_grant(n, &g2);
                }
            }
            if st == 3 {
                if let (Some(f0), Ok(f1)) = (self.ret_fact.get(n), rec.coord.admitted_settlement(id)) {
                    if *f0 != f1 {
                        self.viol("recovered_grant_differs", format!("[{tag}] {n}: recovered settlement differs from the one returned"));
                    }
                }
            }
            dp.insert(n.clone(), p);
            gr.insert(n.clone(), g.to_string());
        }
        let total_prev: usize = self.post_prev.values().map(|p| stage_of(p) as usize).sum();
        if stage_sum > total_prev + 1 {
            self.viol("lifecycle_not_a_prefix", format!("[{tag}] more than one lifecycle stage advanced in one step"));
        }
        if rec.commits != stage_sum {
            self.viol("step_repeated", format!("[{tag}] {} committed transactions for {} lifecycle stages", rec.commits, stage_sum));
        }
        if rec.coord.observed_index().len() != dp.values().filter(|p| *p != "none").count() {
            self.viol("unknown_request_in_index", format!("[{tag}] recovered index has {} entries", rec.coord.observed_index().len()));
        }
        let root_hex = hex::encode(rec.coord.observed_index().root_digest());
        let key = self.names.iter().filter(|n| dp[*n] != "none").map(|n| format!("{n}={}", dp[n])).collect::<Vec<_>>().join(";");
        self.roots.insert((key, root_hex));
        // ---- live coordinator vs recovered coordinator
        let mut live_ready = false;
        let mut lp = BTreeMap::new();
        if let Some(c) = self.coord.as_ref() {
            let probe = c.claim_grant(self.reqs[&self.names[0]].request_id());
            live_ready = !matches!(probe, Err(ExternalActionProtocolErrorV1::CoordinatorRecoveryRequired));
            for n in self.names {
                lp.insert(n.clone(), posture_str(c.observed_index().get(self.reqs[n].request_id())));
            }
            if live_ready {
                if c.observed_index() != rec.coord.observed_index() {
                    let same_root = c.observed_index().root_digest() == rec.coord.observed_index().root_digest();
                    self.viol(
                        if lp == dp && !same_root { "recovered_root_differs_from_incremental_root" } else { "recovered_index_differs_from_live_index" },
                        format!("[{tag}] live {lp:?} root {} vs recovered {dp:?} root {}", hex::encode(c.observed_index().root_digest()), hex::encode(rec.coord.observed_index().root_digest())),
                    );
                } else if *c != rec.coord {
                    self.viol("recovered_continuation_differs_from_live", format!("[{tag}] index equal but WAL continuation / readiness differ"));
                }
                if rec.dirty {
                    self.viol("ready_coordinator_over_dirty_tail", format!("[{tag}]"));
                }
            } else {
                // poisoned: may lag the durable log by the transaction it was appending, never lead it
                let mut lag = 0usize;
                for n in self.names {
                    let (l, d) = (stage_of(&lp[n]), stage_of(&dp[n]));
                    if l > d {
                        self.viol("live_index_ahead_of_durable_log", format!("[{tag}] {n}: live {} durable {}", lp[n], dp[n]));
                    }
                    lag += (d.saturating_sub(l)) as usize;
                }
                if lag > 1 {
                    self.viol("poisoned_coordinator_lags_more_than_one", format!("[{tag}] live {lp:?} durable {dp:?}"));
                }
            }
        }
        // ---- model conformance: state
        if modelled {
            let want_alive = exp["alive"].as_bool().unwrap_or(true);
            if want_alive != self.coord.is_some() {
                self.f.drift.push(format!("[{tag}] coordinator alive={}, model {}", self.coord.is_some(), want_alive));
            }
            if want_alive && self.coord.is_some() {
                if exp["rdy"].as_bool() != Some(live_ready) {
                    self.f.drift.push(format!("[{tag}] coordinator ready={live_ready}, model {}", exp["rdy"]));
                }
                for n in self.names {
                    if exp["lp"][n].as_str() != Some(lp[n].as_str()) {
                        self.f.drift.push(format!("[{tag}] live posture of {n} = {}, model {}", lp[n], exp["lp"][n]));
                    }
                }
            }
            for n in self.names {
                if exp["dp"][n].as_str() != Some(dp[n].as_str()) {
                    self.f.drift.push(format!("[{tag}] durable posture of {n} = {}, model {}", dp[n], exp["dp"][n]));
                }
                if exp["gr"][n].as_str() != Some(gr[n].as_str()) {
                    self.f.drift.push(format!("[{tag}] outstanding grant of {n} = {}, model {}", gr[n], exp["gr"][n]));
                }
            }
            if exp["tail"].as_bool() != Some(rec.dirty) {
                self.f.drift.push(format!("[{tag}] dirty tail={}, model {}", rec.dirty, exp["tail"]));
            }
            if exp["ncommit"].as_u64() != Some(rec.commits as u64) {
                self.f.drift.push(format!("[{tag}] commits={}, model {}", rec.commits, exp["ncommit"]));
            }
        }
        // ---- replenish spare tokens / grants from the live coordinator
        if live_ready {
            let names: Vec<String> = self.names.to_vec();
            for n in &names {
                let id = self.reqs[n].request_id();
                let st = stage_of(&lp[n]);
                if st == 1 {
                    while self.tokens.entry(n.clone()).or_default().len() < STOCK {
                        match self.coord.as_ref().map(|c| c.recorded_request(id)) {
                            Some(Ok(t)) => self.tokens.get_mut(n).map(|x| x.push(t)).unwrap_or(()),
                            other => {
                                self.viol("request_token_not_reconstructible", format!("[{tag}] {n}: {:?}", other.map(|x| x.map(|_| ()))));
                                break;
                            }
                        }
                    }
                }
                if st == 2 {
                    while self.grants.entry(n.clone()).or_default().len() < STOCK {
                        match self.coord.as_ref().map(|c| c.claim_grant(id)) {
                            Some(Ok(g)) => {
                                self.note_grant(n, &g);
                                self.grants.get_mut(n).map(|x| x.push(g)).unwrap_or(());
                            }
                            other => {
                                self.viol("claim_grant_not_reconstructible", format!("[{tag}] {n}: {:?}", other.map(|x| x.map(|_| ()))));
                                break;
                            }
                        }
                    }
                }
            }
        }
        self.post_prev = dp.clone();
        self.rec_prev = rec.coord;
        json!({"class": class, "alive": self.coord.is_some(), "rdy": live_ready, "lp": lp, "dp": dp, "gr": gr, "tail": rec.dirty, "ncommit": rec.commits})
    }
}

// ------------------------------------------------------------------ replay of model behaviours

fn names_of(case: &Value) -> Vec<String> {
    case["reqs"].as_array().map(|a| a.iter().filter_map(|x| x.as_str().map(str::to_string)).collect()).unwrap_or_default()
}

fn grant_of_posture(p: &str) -> &'static str {
    ["-", "T", "G", "S"].get(stage_of(p) as usize).copied().unwrap_or("?")
}

/// Expands the compact step array exported by MC_C17!StepJson
///   [op, request, variant, fate, result class, ready, dirty tail, commits, live postures, durable postures(, accessors)]
/// into the object form used by `Sim::step`. Outstanding grants are the fixed function of the
/// durable postures that ExtAction!Grants defines.
fn expand_step(names: &[String], st: &Value) -> Option<Value> {
    let a = st.as_array()?;
    if a.len() < 10 {
        return None;
    }
    let per = |v: &Value| -> Option<serde_json::Map<String, Value>> {
        let arr = v.as_array()?;
        if arr.len() != names.len() {
            return None;
        }
        Some(names.iter().cloned().zip(arr.iter().cloned()).collect())
    };
    let dp = per(&a[9])?;
    let gr: serde_json::Map<String, Value> = dp.iter().map(|(k, v)| (k.clone(), json!(grant_of_posture(v.as_str().unwrap_or(""))))).collect();
    let mut o = json!({
        "o": a[0], "r": a[1], "v": a[2], "f": a[3], "res": a[4],
        "alive": a[4].as_str() != Some("Crashed"),
        "rdy": a[5].as_u64() == Some(1), "tail": a[6].as_u64() == Some(1), "ncommit": a[7],
        "lp": per(&a[8])?, "dp": dp, "gr": gr,
    });
    if let Some(acc) = a.get(10) {
        o["acc"] = Value::Object(per(acc)?);
    }
    Some(o)
}

fn check_case(scratch_cache: &mut BTreeMap<Vec<String>, Scratch>, v: &Value) -> Value {
    let names = names_of(v);
    if names.is_empty() {
        return json!({"verdict":"tool_error","detail":"case has no request ids"});
    }
    let ceiling = v["scale"].as_str() == Some("ceiling");
    CEIL.with(|c| c.set(ceiling));
    let mut cache_key = names.clone();
    if ceiling {
        cache_key.push("#ceiling".into());
    }
    if !scratch_cache.contains_key(&cache_key) {
        let mut all = names.clone();
        all.push("rX".into());
        scratch_cache.insert(cache_key.clone(), Scratch::new(&all));
    }
    let scratch = &scratch_cache[&cache_key];
    let mut sim = Sim::new(&names, scratch, "rp");
    let raw = v["steps"].as_array().cloned().unwrap_or_default();
    let mut steps = Vec::with_capacity(raw.len());
    for st in &raw {
        match if st.is_array() { expand_step(&names, st) } else { Some(st.clone()) } {
            Some(x) => steps.push(x),
            None => return json!({"verdict":"tool_error","detail":format!("cannot decode step {st}")}),
        }
    }
    let mut faulty = false;
    let mut rejected = false;
    let mut last = 0usize;
    for (k, st) in steps.iter().enumerate() {
        last = k;
        let f = st["f"].as_str().unwrap_or("-");
        faulty |= f != "-" && f != "ok";
        rejected |= f == "-" && !matches!(st["res"].as_str(), Some("Ok"));
        if sim.step(st).is_none() || !sim.f.violations.is_empty() || !sim.f.tool.is_empty() {
            break;
        }
    }
    let roots: Vec<Value> = sim.roots.iter().map(|(k, r)| json!([k, r])).collect();
    if let Some(t) = sim.f.tool.first() {
        return json!({"verdict":"tool_error","detail":t,"step":last});
    }
    if let Some((kind, detail)) = sim.f.violations.first() {
        return json!({"verdict":"violation","kind":kind,"detail":detail,"step":last,"all":sim.f.violations.iter().map(|x| x.0.clone()).collect::<Vec<_>>()});
    }
    json!({"verdict": if sim.f.drift.is_empty() {"ok"} else {"drift"}, "drift": sim.f.drift.iter().take(4).collect::<Vec<_>>(),
           "roots": roots, "steps": steps.len(), "classes": sim.classes.iter().collect::<Vec<_>>(), "checks": sim.n_checks, "faulty": faulty, "rejected": rejected})
}

pub fn run(args: &[String]) -> i32 {
    std::panic::set_hook(Box::new(|_| {}));
    if args.first().map(String::as_str) == Some("trace") {
        return run_trace(&args[1..]);
    }
    if args.len() < 2 {
        eprintln!("usage: echo-verif c17 <cases.ndjson> <results.ndjson> | c17 trace <seed> <events> <reqs> <out.ndjson>");
        return 2;
    }
    let lines: Vec<String> = match std::fs::read_to_string(&args[0]) {
        Ok(s) => s.lines().filter(|l| !l.trim().is_empty()).map(str::to_string).collect(),
        Err(e) => {
            eprintln!("cannot read {}: {e}", args[0]);
            return 2;
        }
    };
    let threads: usize = std::env::var("VERIF_C17_THREADS").ok().and_then(|s| s.parse().ok()).unwrap_or(6);
    let next = AtomicUsize::new(0);
    let results: Mutex<Vec<Option<String>>> = Mutex::new(vec![None; lines.len()]);
    std::thread::scope(|sc| {
        for _ in 0..threads.max(1) {
            sc.spawn(|| {
                let mut cache: BTreeMap<Vec<String>, Scratch> = BTreeMap::new();
                let mut local: Vec<(usize, String)> = Vec::new();
                loop {
                    let i = next.fetch_add(1, Ordering::Relaxed);
                    if i >= lines.len() {
                        break;
                    }
                    let mut r = match serde_json::from_str::<Value>(&lines[i]) {
                        Ok(v) => match catch_unwind(AssertUnwindSafe(|| check_case(&mut cache, &v))) {
                            Ok(r) => r,
                            Err(p) => json!({"verdict":"tool_error","detail":format!("harness panicked: {}", util::panic_message(&p))}),
                        },
                        Err(e) => json!({"verdict":"tool_error","detail":format!("bad json: {e}")}),
                    };
                    r["i"] = json!(i);
                    local.push((i, r.to_string()));
                    if local.len() >= 512 {
                        let mut g = results.lock().unwrap_or_else(|e| e.into_inner());
                        for (j, s) in local.drain(..) {
                            g[j] = Some(s);
                        }
                    }
                }
                let mut g = results.lock().unwrap_or_else(|e| e.into_inner());
                for (j, s) in local.drain(..) {
                    g[j] = Some(s);
                }
            });
        }
    });
    let results = results.into_inner().unwrap_or_else(|e| e.into_inner());
    let mut out = util::Out::create(&args[1]);
    let (mut n, mut viol, mut tool, mut drift) = (0u64, 0u64, 0u64, 0u64);
    for r in results {
        let v: Value = serde_json::from_str(&r.unwrap_or_else(|| "{\"verdict\":\"tool_error\",\"detail\":\"missing\"}".into())).unwrap_or(json!({"verdict":"tool_error"}));
        n += 1;
        match v["verdict"].as_str() {
            Some("violation") => viol += 1,
            Some("tool_error") => tool += 1,
            Some("drift") => drift += 1,
            _ => {}
        }
        out.line(&v);
    }
    out.finish();
    println!("{}", json!({"cases":n,"violations":viol,"tool_errors":tool,"drift":drift}));
    if tool > 0 {
        2
    } else {
        0
    }
}

// ------------------------------------------------------------------ seeded random driver (TV leg)

const RECORD_VS: &[&str] = &["ok", "tampered", "zero_bytes", "zero_attempts", "two_attempts", "over_limit"];
const CLAIM_VS: &[&str] = &["ok", "ok2", "wrong_adapter", "auth_other_scope", "auth_other_request", "stale_basis", "ordinal1", "zero_lease"];
const SETTLE_VS: &[&str] = &[
    "s1", "s2", "rej", "fail", "unk", "foreign_grant", "cand_other_request", "cand_wrong_attempt", "cand_wrong_adapter", "cand_wrong_basis",
    "wrong_schema", "zero_schema_ev", "zero_ext_ev", "oversized", "bad_digest",
];
const RETRY_VS: &[&str] = &["s1", "s2", "rej", "cand_wrong_attempt", "wrong_schema", "oversized", "bad_digest"];
const FAULTS: &[&str] = &[
    "fault_frame_pre", "fault_frame_post", "fault_commit_pre", "fault_commit_post", "crash_frame", "crash_commit_keep", "crash_commit_lose", "crash_ack",
];

/// `c17 trace <seed> <runs> <events> <reqs> <out.ndjson>`: seeded random interleavings over many
/// request ids against the real coordinator; the property is decided natively by the same `Sim`
/// checks as in replay, and one ndjson event per fine-grained action is recorded for
/// ExtActionTrace.tla.
fn run_trace(args: &[String]) -> i32 {
    use rand::rngs::StdRng;
    use rand::seq::SliceRandom;
    use rand::{Rng, SeedableRng};
    if args.len() < 5 {
        eprintln!("usage: echo-verif c17 trace <seed> <runs> <events> <reqs> <out.ndjson>");
        return 2;
    }
    let seed: u64 = args[0].parse().unwrap_or(1);
    let runs: usize = args[1].parse().unwrap_or(1);
    let events: usize = args[2].parse().unwrap_or(200);
    let nreq: usize = args[3].parse::<usize>().unwrap_or(8).clamp(1, 12);
    // the trace spec's Reqs is always r1..r12; postures are logged for all of them
    let names: Vec<String> = (1..=12).map(|i| format!("r{i}")).collect();
    let mut all = names.clone();
    all.push("rX".into());
    let scratch = Scratch::new(&all);
    let mut out = util::Out::create(&args[4]);
    let mut violations: Vec<Value> = Vec::new();
    let (mut total_events, mut total_ops, mut tool) = (0usize, 0usize, 0usize);
    let mut op_hist: BTreeMap<String, u64> = BTreeMap::new();
    for run in 0..runs {
        let mut rng = StdRng::seed_from_u64(seed.wrapping_mul(0x9E37_79B9_7F4A_7C15).wrapping_add(run as u64));
        let mut sim = Sim::new(&names, &scratch, &format!("tv{run}"));
        sim.store.trace = Some(Vec::new());
        if run > 0 {
            out.line(&json!({"event":"reset"}));
            total_events += 1;
        }
        let active = &names[..nreq];
        let mut emitted = 0usize;
        while emitted < events {
            let live_stage = |sim: &Sim, n: &String| -> u8 {
                sim.coord.as_ref().map(|c| stage_of(&posture_str(c.observed_index().get(sim.reqs[n].request_id())))).unwrap_or(0)
            };
            let r = active.choose(&mut rng).cloned().unwrap_or_else(|| "r1".into());
            let roll: u32 = rng.gen_range(0..100);
            let step = if sim.coord.is_none() {
                json!({"o":"recover","r":"-","v":"-","f":"-"})
            } else if roll < 40 {
                // the next lawful step of r, with a fault or crash a quarter of the time
                let st = live_stage(&sim, &r);
                let fate = if rng.gen_range(0..4) == 0 { *FAULTS.choose(&mut rng).unwrap_or(&"ok") } else { "ok" };
                match st {
                    0 => json!({"o":"record","r":r,"v":"ok","f":fate}),
                    1 => json!({"o":"claim","r":r,"v":*["ok","ok2"].choose(&mut rng).unwrap_or(&"ok"),"f":fate}),
                    2 => json!({"o":"settle","r":r,"v":*["s1","s2","rej","fail","unk"].choose(&mut rng).unwrap_or(&"s1"),"f":fate}),
                    _ => json!({"o":"retry","r":r,"v":*["s1","s2","rej"].choose(&mut rng).unwrap_or(&"s1"),"f":"-"}),
                }
            } else if roll < 75 {
                // any call with any argument variant (a fault is planned in case it reaches the store)
                let fate = if rng.gen_range(0..5) == 0 { *FAULTS.choose(&mut rng).unwrap_or(&"ok") } else { "ok" };
                match rng.gen_range(0..4) {
                    0 => json!({"o":"record","r":r,"v":*RECORD_VS.choose(&mut rng).unwrap_or(&"ok"),"f":fate}),
                    1 => json!({"o":"claim","r":r,"v":*CLAIM_VS.choose(&mut rng).unwrap_or(&"ok"),"f":fate}),
                    2 => {
                        let v = *SETTLE_VS.choose(&mut rng).unwrap_or(&"s1");
                        // a settled request can no longer mint own grants: only ask with one in stock
                        let stocked = sim.grants.get(&r).map(|g| !g.is_empty()).unwrap_or(false);
                        if v != "foreign_grant" && live_stage(&sim, &r) == 3 && !stocked {
                            json!({"o":"retry","r":r,"v":"s1","f":"-"})
                        } else {
                            json!({"o":"settle","r":r,"v":v,"f":fate})
                        }
                    }
                    _ => json!({"o":"retry","r":r,"v":*RETRY_VS.choose(&mut rng).unwrap_or(&"s1"),"f":"-"}),
                }
            } else if roll < 85 {
                json!({"o":"observe","r":"-","v":"-","f":"-"})
            } else {
                json!({"o":"recover","r":"-","v":"-","f":"-"})
            };
            // a planned fault that is not reached is not an anomaly for the random driver
            let drift_before = sim.f.drift.len();
            let ok = sim.step(&step).is_some();
            sim.f.drift.truncate(drift_before);
            total_ops += 1;
            *op_hist.entry(step["o"].as_str().unwrap_or("?").to_string()).or_insert(0) += 1;
            if let Some(tr) = sim.store.trace.as_mut() {
                for ev in tr.drain(..) {
                    out.line(&ev);
                    emitted += 1;
                    total_events += 1;
                }
            }
            if !ok || !sim.f.tool.is_empty() {
                tool += 1;
                eprintln!("trace driver tool error: {:?}", sim.f.tool);
                break;
            }
            if !sim.f.violations.is_empty() {
                for (k, d) in &sim.f.violations {
                    violations.push(json!({"kind":k,"detail":d,"run":run,"op":total_ops,"step":step}));
                }
                break;
            }
        }
    }
    out.finish();
    println!("{}", json!({"runs":runs,"events":total_events,"ops":total_ops,"ops_by_kind":op_hist,"violations":violations,"tool_errors":tool}));
    if tool > 0 {
        2
    } else if violations.is_empty() {
        0
    } else {
        1
    }
}
