SPECIFICATION Spec
CONSTANTS
  K = 4
  Ticks = 1
  NodeModes2 = {0}
  EdgeModes2 = {0}
  AttModes2 = {0}
  PortModes2 = {0}
  NodeModes = {0, 1, 2, 3}
  EdgeModes = {0}
  AttModes = {0}
  PortModes = {0, 1, 2, 3}
  WarpChoices = {0}
  MaskChoices = {1}
  Export = TRUE
INVARIANTS Inv_RadixIsGreedy Inv_RejectedMarksNothing Inv_ExactBlockers Inv_LegacyAgreesWhenSound Inv_PredicatesAgree Inv_Export
CHECK_DEADLOCK FALSE
