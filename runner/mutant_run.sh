#!/bin/sh
# usage: mutant_run.sh <worktree> <harness_dir> <seeded_dir> <check id>...
# Applies seeded/<x>/patch.diff in the scratch worktree, runs the checks with a scratch harness whose path
# dependencies point at that worktree, records exit codes in <seeded_dir>/runs.log, reverts the worktree.
wt=$1; hd=$2; sd=$3; shift 3
cd "$wt" && git checkout -q -- . && git apply "$sd/patch.diff" || { echo "patch failed: $sd"; exit 2; }
cd /verif
for id in "$@"; do
  VERIF_WORK=/verif/work/mutwork VERIF_EVID=/verif/work/mutevid VERIF_REPLAYS=/verif/work/mutreplays VERIF_HARNESS_DIR=$hd ./check $id --tier quick > "$sd/run_$id.log" 2>&1
  rc=$?
  echo "$(date -u +%FT%TZ) $id rc=$rc $(grep -c '^VIOLATION' "$sd/run_$id.log") violation lines; first: $(grep -A1 '^VIOLATION' "$sd/run_$id.log" | sed -n 2p | cut -c1-200)" >> "$sd/runs.log"
done
cd "$wt" && git checkout -q -- .
