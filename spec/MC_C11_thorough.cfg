SPECIFICATION Spec11
CONSTANTS
  None = None
  Subs = {}
  MaxTx = 0
  MaxFrames = 0
  MaxCycles = 0
  RewriteAtomic = TRUE
  EpochGapRepaired = TRUE
  Mutant = "none"
  Repaired = FALSE
  NT = 4
  NF = 3
  Export = TRUE
INVARIANTS Inv_Export
CHECK_DEADLOCK FALSE
