"""C04 - a tick patch replays to exactly the state the tick produced.

MC : MC_C04.tla, every ordered pair (a, b) of reachable well-formed states of the bounded
     universe; Inv_DiffLaw (ApplyOps(a, Diff(a,b)) is b or an error) on the model.
RP : every pair exported by TLC is rebuilt in the real store, the real diff_state and
     apply_to_state are run, and the law is decided on the real outcome (projection,
     per-store canonical hash, state root, accumulator root).
"""
import os
from lib import *


def run(tier, replay=None):
    ck = Check("C04", tier)
    binp = build_harness()
    ids = id_ranks(binp)
    cfgs = ["MC_C04_quick.cfg", "MC_C04_portal.cfg", "MC_C04_types.cfg"] if tier == "quick" else ["MC_C04_quick.cfg", "MC_C04_portal.cfg", "MC_C04_types.cfg"]
    if replay:
        case = json.load(open(replay))["case"]
        cases_by_cfg = [] if str(case.get("leg", "")).startswith("ledger") else [("replay", [case["case"]] if "case" in case else [case])]
    else:
        cases_by_cfg = []
        for cfg in cfgs:
            res = tlc("MC_C04", cfg, workers=8, env={"VERIF_IDS": ids, "VERIF_EXPORT": "1"}, timeout=7200,
                      tags=("CASE",))
            ck.add_tlc(res)
            if res.violation:
                ck.violation(f"spec:{cfg}:{res.violation}", "TLC invariant violated on the model:\n" + res.error_text[:3000],
                             {"cfg": cfg, "invariant": res.violation, "trace": res.error_text[:20000]})
                continue
            if res.distinct == 0 or not res.lines:
                raise ToolError(f"{cfg}: no pairs exported (vacuous run)")
            cases_by_cfg.append((cfg, [c for _, c in res.lines]))
    total = nontrivial = drift = errs = 0
    for cfg, cases in cases_by_cfg:
        cin = write_ndjson(os.path.join(WORK, f"c04_{cfg}.cases"), cases)
        cout = os.path.join(WORK, f"c04_{cfg}.results")
        summ = json.loads(harness(binp, ["c04", cin, cout], timeout=7200).strip().splitlines()[-1])
        results = read_ndjson(cout)
        if len(results) != len(cases):
            raise ToolError("harness result count mismatch")
        for c, r in zip(cases, results):
            total += 1
            if len(c["ops"]) >= 2:
                nontrivial += 1
            if r.get("drift"):
                drift += 1
                if drift <= 5:
                    ck.notes.append({"model_drift": r["drift"][:2]})
            if str(r.get("outcome", "")).startswith("err:"):
                errs += 1
            if r["verdict"] == "violation":
                key = f"{r['kind']}:" + ",".join(o["op"] for o in c["ops"])
                ck.violation(key, r.get("detail", ""), {"case": c, "result": r})
            elif total % 9973 == 1:
                ck.sample({"a": c["a"], "b": c["b"], "ops": c["ops"], "real": r.get("outcome")})
    ck.cov["traces_validated_against_impl"] = total
    ck.cov["evaluations"] = total
    ck.cov["distinct_nontrivial"] = nontrivial
    ck.cov["rule"] = ("every ordered pair of reachable well-formed states of the bounded universes "
                      f"{cfgs}; non-trivial = delta has >= 2 ops; pairs are distinct TLC states")
    ck.cov["exhaustive"] = replay is None
    ck.cov["model_drift_cases"] = drift
    ck.cov["delta_fails_to_apply_cases"] = errs
    ck.assumptions += ["bounded universe (constants in the cfg files)", "ids ordered as the real BLAKE3 ids (rank table from the harness)",
                       "projection through public accessors + verif::{warp_ids,store_ids}",
                       "model drift (real ops/outcome differ from the model's prediction while the law still holds) is reported, not a violation"]
    import c04l                                  # ledger leg: multi-tick histories on one engine (spec/Ledger.tla)
    c04l.run_leg(ck, binp, tier, ids, replay)
    return ck.finish()
