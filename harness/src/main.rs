//! echo-verif: conformance harness binding the TLA+ specification in /verif/spec to the
//! real warp-core / echo-cas implementation. Each sub-command reads model-generated
//! cases (ndjson) or produces implementation traces (ndjson) for TLC to validate.

mod absgraph;
mod c01;
mod c02;
mod c03;
mod c04;
mod c06;
mod c14;
mod c18;
mod ids;
mod programs;
mod util;

fn main() {
    let args: Vec<String> = std::env::args().collect();
    let cmd = args.get(1).map(String::as_str).unwrap_or("");
    let rest: Vec<String> = args.iter().skip(2).cloned().collect();
    let code = match cmd {
        "ids" => {
            println!("{}", ids::rank_table());
            0
        }
        "c01" => c01::run(&rest),
        "c01-big" => c01::run_big(&rest),
        "c02" => c02::run(&rest),
        "c02-race" => c02::run_race(&rest),
        "c03" => c03::run(&rest),
        "c03-keys" => c03::run_keys(&rest),
        "c04" => c04::run(&rest),
        "c06" => c06::run(&rest),
        "c14-attr" => c14::run(&rest),
        "c18" => c18::run(&rest),
        _ => {
            eprintln!("usage: echo-verif <ids|c04|...> args");
            2
        }
    };
    std::process::exit(code);
}
