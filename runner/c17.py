"""C17 - external actions move once through request, claim and settlement - durably.

MC : spec/ExtAction.tla (per request id posture none/requested/claimed/settled(kind); durable log
     `seg` of frames and commit markers with an unsynced tail; volatile coordinator index, root,
     WAL continuation and ready flag; Record/Claim/Settle/Retry/Observe with valid and invalid
     arguments; every durable step as Call; AppendFrame; FlushCommit; Return with StoreFault
     (before/after effect) at every append/flush and Crash after every frame; Recover) checked by
     TLC through spec/MC_C17.tla under 14 invariants.
RP : every behaviour of exactly MaxOps op-level steps is exported (operation, argument variant,
     fault/crash point, predicted result class, readiness, live postures, durable postures, tail
     posture, commit count after every step) and replayed by harness/src/c17.rs into the REAL
     ExternalActionCoordinatorV1 over the real InMemoryWalStore wrapped in a fault-injecting
     WalStorePort. The harness decides the property itself on the real outcome after EVERY step and
     reports deviations from the model as drift.
MR : the lifecycle-index root is abstract in the model (a function of request, claim and settlement
     content per request id), so across ALL replayed behaviours the runner requires
     equal abstract index content <=> equal real root digest.
TV : (thorough, and a small run in quick) a seeded random driver over many request ids records one
     event per fine-grained action; spec/ExtActionTrace.tla must accept the trace.
"""
import os
import re
from lib import *
import c17fs

QUICK = ["MC_C17_quick.cfg", "MC_C17_quick_life.cfg"]
THOROUGH = ["MC_C17_quick.cfg", "MC_C17_life.cfg", "MC_C17_three.cfg", "MC_C17_two.cfg"]
DEEP = ["MC_C17_deep.cfg"]          # invariants only (VIEW hides the history), thorough tier

_CASE_RE = re.compile(r'^<<"CASE", (".*")>>\s*$')


def export_cases(res, path):
    """Streams the CASE lines of a TLC run into an ndjson file (they can be millions)."""
    n = 0
    with open(res.stdout_path) as f, open(path, "w") as out:
        for line in f:
            m = _CASE_RE.match(line)
            if m:
                try:
                    out.write(json.loads(m.group(1)))
                except Exception:
                    raise ToolError(f"cannot decode TLC print line: {line[:200]}")
                out.write("\n")
                n += 1
    return n


def step_tag(case, k):
    try:
        st = case["steps"][k]
        if isinstance(st, list):
            return f"{st[0]}:{st[2]}:{st[3]}"
        return f"{st['o']}:{st['v']}:{st['f']}"
    except Exception:
        return "?"


def consume(ck, cfg, cases_path, results_path, roots, stats):
    n = 0
    with open(cases_path) as fc, open(results_path) as fr:
        for lc, lr in zip(fc, fr):
            n += 1
            r = json.loads(lr)
            v = r.get("verdict")
            if v == "tool_error":
                raise ToolError(f"harness tool error on case {n} of {cfg}: {r.get('detail')}")
            if v == "violation":
                case = json.loads(lc)
                key = f"{r['kind']}:{step_tag(case, r.get('step', 0))}"
                ck.violation(key, f"{cfg}: step {r.get('step')}: {r.get('detail')}", {"cases": [case], "result": r})
                stats["violating_cases"] += 1
                continue
            if v == "drift":
                stats["drift_cases"] += 1
                if len(stats["drift_samples"]) < 5:
                    stats["drift_samples"].append({"cfg": cfg, "case": json.loads(lc), "drift": r.get("drift")})
            stats["classes"].update(r.get("classes", []))
            stats["steps"] += r.get("steps", 0)
            stats["checks"] += r.get("checks", 0)
            if r.get("faulty"):
                stats["faulty"] += 1
            if r.get("rejected"):
                stats["rejected"] += 1
            if r.get("faulty") or r.get("rejected"):
                stats["nontrivial"] += 1
            for key, root in r.get("roots", []):
                a = roots["by_key"].setdefault(key, (root, cfg, n))
                if a[0] != root:
                    ck.violation("same_index_content_different_root",
                                 f"abstract index content {key!r} has two different real root digests",
                                 {"cases": [json.loads(lc)], "key": key, "roots": [a[0], root], "other": {"cfg": a[1], "line": a[2]}})
                b = roots["by_root"].setdefault(root, (key, cfg, n))
                if b[0] != key:
                    ck.violation("different_index_content_same_root",
                                 f"index contents {b[0]!r} and {key!r} share a root digest",
                                 {"cases": [json.loads(lc)], "keys": [b[0], key], "root": root})
            if n == 1 or (n % 50021 == 0):
                ck.sample({"cfg": cfg, "case": json.loads(lc), "result": {k: r[k] for k in ("verdict", "steps", "checks") if k in r}})
    return n


def ceiling_leg(ck, binp, tier, stats, cases_path):
    """Size boundary: the model's sizes are relative to the abstract request budget `Bound`. The main replay reads
    Bound as 8 bytes; this leg replays a spread of the same behaviours with Bound read as the protocol ceiling
    (MAX_EXTERNAL_ACTION_SETTLEMENT_BYTES_V1): requests declare the maximum budget, "s2" settles with a result of
    exactly that many bytes, "oversized" with one more. Predicted classes are unchanged."""
    want = 300 if tier == "quick" else 3000
    picked = []
    with open(cases_path) as f:
        for line in f:
            c = json.loads(line)
            if any(isinstance(st, list) and st[0] == "settle" and st[2] in ("s2", "oversized") and st[4] in ("Ok", "WalStore", "Crashed", "SettlementBudgetExceeded")
                   for st in c["steps"]):
                picked.append(c)
    if not picked:
        raise ToolError("ceiling leg: no behaviour settles at or above the bound")
    stride = max(1, len(picked) // want)
    sel = picked[::stride][:want]
    for c in sel:
        c["scale"] = "ceiling"
    cin = write_ndjson(os.path.join(WORK, "c17_ceiling.cases"), sel)
    cout = os.path.join(WORK, "c17_ceiling.results")
    t0 = time.time()
    out = harness(binp, ["c17", cin, cout], timeout=3600)
    log(f"[c17] ceiling scale: {len(sel)} of {len(picked)} boundary behaviours replayed in {time.time() - t0:.1f}s: {out.strip().splitlines()[-1]}")
    got = consume(ck, "ceiling", cin, cout, {"by_key": {}, "by_root": {}}, stats)
    if got != len(sel):
        raise ToolError(f"ceiling leg: harness result count mismatch ({got} != {len(sel)})")
    stats.setdefault("per_cfg", {})["ceiling"] = {"behaviours": len(sel), "boundary_behaviours_available": len(picked)}


def trace_leg(ck, binp, tier, stats):
    """TV: seeded random runs over many request ids, validated by ExtActionTrace.tla."""
    if not os.path.exists(os.path.join(SPEC, "ExtActionTrace.tla")):
        ck.notes.append("TV leg not built (ExtActionTrace.tla missing)")
        return
    runs = 2 if tier == "quick" else 24
    events = 300 if tier == "quick" else 1000
    nreq = 8 if tier == "quick" else 12
    tpath = os.path.join(WORK, "c17.trace.ndjson")
    out = harness(binp, ["c17", "trace", str(seed()), str(runs), str(events), str(nreq), tpath], timeout=3600, ok_codes=(0, 1))
    summ = json.loads(out.strip().splitlines()[-1])
    if summ.get("tool_errors"):
        raise ToolError(f"trace driver tool error: {summ}")
    for v in summ.get("violations", [])[:5]:
        ck.violation(f"trace:{v['kind']}", v.get("detail", ""), {"trace_seed": seed(), "runs": runs, "events": events, "reqs": nreq, "violation": v})
    nlines = sum(1 for _ in open(tpath))
    outp = os.path.join(WORK, "tlc_ExtActionTrace.out")
    res = None
    try:
        res = tlc("ExtActionTrace", "ExtActionTrace.cfg", workers=1, env={"TRACE": tpath}, timeout=3600,
                  java_opts="-Xss1g -Dtlc2.tool.queue.IStateQueue=StateDeque", tags=("NONE",), out_name="ExtActionTrace")
        ck.add_tlc(res)
    except ToolError:
        # a false POSTCONDITION makes TLC exit with 10; that is a rejected trace, not tool trouble
        if not (os.path.exists(outp) and "TRACE-REJECTED" in open(outp).read()):
            raise
    text = open(outp).read()
    if res is None or res.postcondition_failed or res.violation or "TRACE-ACCEPTED" not in text:
        m = re.search(r'"TRACE-REJECTED", (\d+)', text)
        at = int(m.group(1)) if m else -1
        bad = None
        if at > 0:
            with open(tpath) as f:
                for i, l in enumerate(f, 1):
                    if i == at:
                        bad = json.loads(l)
                        break
        ck.violation(f"trace_rejected:{(bad or {}).get('event', '?')}",
                     f"ExtActionTrace.tla does not accept the recorded trace at event {at}: {bad}",
                     {"trace_seed": seed(), "runs": runs, "events": events, "reqs": nreq, "at": at, "event": bad,
                      "tlc": (res.error_text if res else text[-4000:])[:4000]})
    else:
        stats["trace_events"] = nlines
        stats["trace_runs"] = runs
        ck.cov["traces_validated_against_impl"] += runs
        ck.sample({"trace": {"runs": runs, "events": nlines, "request_ids": nreq, "summary": summ}})


def run(tier, replay=None):
    ck = Check("C17", tier)
    binp = build_harness()
    stats = {"steps": 0, "checks": 0, "faulty": 0, "rejected": 0, "nontrivial": 0, "drift_cases": 0, "drift_samples": [],
             "violating_cases": 0, "classes": set()}
    roots = {"by_key": {}, "by_root": {}}
    total = 0
    cfgs = QUICK if tier == "quick" else THOROUGH
    fs_replay = (bool(replay) and json.load(open(replay))["case"].get("leg") in ("fs", "fs_spec")) or \
        (not replay and os.environ.get("VERIF_C17_ONLY") == "fs")          # debugging aid: only the filesystem leg
    if fs_replay:
        total = -1          # a replay of the filesystem leg (runner/c17fs.py): the main legs are skipped
    elif replay:
        obj = json.load(open(replay))["case"]
        cin = write_ndjson(os.path.join(WORK, "c17.replay.cases"), obj["cases"])
        cout = os.path.join(WORK, "c17.replay.results")
        harness(binp, ["c17", cin, cout], timeout=3600)
        total += consume(ck, "replay", cin, cout, roots, stats)
    else:
        for cfg in cfgs + (DEEP if tier == "thorough" else []):
            exporting = cfg not in DEEP
            res = tlc("MC_C17", cfg, workers=6, timeout=10800, tags=("NONE",), heap="12g")
            ck.add_tlc(res)
            if res.violation:
                ck.violation(f"spec:{cfg}:{res.violation}", "TLC invariant violated on the model:\n" + res.error_text[:3000],
                             {"cfg": cfg, "invariant": res.violation, "trace": res.error_text[:20000]})
                continue
            if not exporting:
                if res.distinct == 0:
                    raise ToolError(f"{cfg}: no states")
                continue
            name = cfg.replace(".cfg", "")
            cin = os.path.join(WORK, f"c17_{name}.cases")
            cout = os.path.join(WORK, f"c17_{name}.results")
            n = export_cases(res, cin)
            if n == 0:
                raise ToolError(f"{cfg}: nothing exported")
            t0 = time.time()
            out = harness(binp, ["c17", cin, cout], timeout=10800)
            log(f"[c17] {cfg}: {n} behaviours replayed in {time.time() - t0:.1f}s: {out.strip().splitlines()[-1]}")
            got = consume(ck, cfg, cin, cout, roots, stats)
            if got != n:
                raise ToolError(f"{cfg}: harness result count mismatch ({got} != {n})")
            total += n
            stats.setdefault("per_cfg", {})[cfg] = {"behaviours": n, "states": res.distinct, "tlc_s": round(res.wall, 1)}
        ceiling_leg(ck, binp, tier, stats, os.path.join(WORK, f"c17_{cfgs[0].replace('.cfg', '')}.cases"))
        total += stats["per_cfg"]["ceiling"]["behaviours"]
        trace_leg(ck, binp, tier, stats)
    if total == 0:
        raise ToolError("nothing replayed")
    ck.cov["traces_validated_against_impl"] += max(total, 0)
    ck.cov["evaluations"] = stats["checks"]
    ck.cov["distinct_nontrivial"] = stats["nontrivial"]
    ck.cov["behaviours_with_fault_or_crash"] = stats["faulty"]
    ck.cov["behaviours_with_rejected_call"] = stats["rejected"]
    ck.cov["steps_replayed"] = stats["steps"]
    ck.cov["abstract_index_classes"] = len(roots["by_key"])
    ck.cov["distinct_root_digests"] = len(roots["by_root"])
    ck.cov["drift_cases"] = stats["drift_cases"]
    ck.cov["per_cfg"] = stats.get("per_cfg", {})
    ck.cov["result_classes_observed"] = sorted(stats["classes"])
    if "trace_events" in stats:
        ck.cov["trace_events"] = stats["trace_events"]
        ck.cov["trace_runs"] = stats["trace_runs"]
    if stats["drift_cases"]:
        ck.notes.append({"drift": f"{stats['drift_cases']} behaviours where the real code deviates from the model while the property holds",
                         "samples": stats["drift_samples"]})
        log(f"[c17] DRIFT in {stats['drift_cases']} behaviours, e.g. {json.dumps(stats['drift_samples'][:1])[:800]}")
    ck.cov["rule"] = ("every behaviour of exactly MaxOps op-level steps of the bounded models %s (budgets in the cfg files: request ids, "
                      "MaxOps, MaxNoops rejected/read-only calls, MaxFaults store faults or crashes, MaxRecovers) replayed into the real "
                      "coordinator; evaluations = after-step checks (each = recovery from a clone of the store + all property checks); "
                      "non-trivial = behaviour containing a store fault / crash or a rejected call" % (cfgs,))
    ck.cov["exhaustive"] = replay is None
    ck.assumptions += [
        "bounded models (cfg constants); request ids symmetric in the model, concrete BLAKE3 ids in the harness",
        "store = InMemoryWalStore behind a harness WalStorePort; a crash keeps exactly what the store holds, optionally minus the "
        "uncommitted frame; a store fault is an Err before or after the call took effect",
        "recovery = recover_in_memory_store(Writable) followed by ExternalActionCoordinatorV1::recover, as ADR 0026 prescribes",
        "hashes are abstract in the model: root digest claims are decided as equal content <=> equal real digest over all behaviours "
        "(BLAKE3 collision-freeness for the => direction)",
        "argument variants are single-defect (one invalid field at a time), taken from the rejection reasons in external_action.rs",
    ]
    c17fs.run_leg(ck, binp, tier, replay)          # filesystem store + physical crash (keys fs:...)
    return ck.finish()
