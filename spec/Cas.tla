-------------------------------- MODULE Cas --------------------------------
(***************************************************************************)
(* Content-addressed retention (property C20).                             *)
(*                                                                         *)
(* Part 1: one blob store of echo-cas, either the memory tier              *)
(* (crates/echo-cas/src/memory.rs, MemoryTier) or the disk tier            *)
(* (crates/echo-cas/src/disk.rs, DiskTier), together with the semantic     *)
(* retention index layered over the memory tier                            *)
(* (crates/echo-cas/src/retention.rs, RetainedBlobIndex).                  *)
(*                                                                         *)
(* Hashes cannot be computed here.  A blob is a value of Blobs and its     *)
(* content id is the blob itself: H(b) = b, so Hashes = Blobs and          *)
(* "bytes hash to h" is "bytes = h".  Everything a disk file can hold      *)
(* besides a valid blob is a distinct value whose hash is no element of    *)
(* Hashes (bit-flipped bytes, truncated bytes) - this is the BLAKE3        *)
(* collision-freeness assumption on the byte tables the harness uses.      *)
(*                                                                         *)
(* Every result of a call is a STRING ("ok:a", "none", "err:mismatch", …)  *)
(* so that the harness can compare it literally.                           *)
(***************************************************************************)
EXTENDS Naturals, Sequences, FiniteSets, TLC

CONSTANTS Blobs,        \* blob values = their own content ids; must not contain "-"
          Coords,       \* semantic coordinates of the retention index
          Tiers,        \* subset of {"mem", "disk"} explored
          Faults,       \* subset of {"flip","trunc","swap","delete","tmp","junk","dir"} (disk tier only)
          MaxFaults,    \* at most this many file faults per behaviour
          Size,         \* [Blobs -> Nat] blob length in units
          MaxBytes,     \* advisory budget of the memory tier (MemoryTier::with_limits)
          MemFastPath,  \* TRUE = transcribe the presence fast path of MemoryTier::put_verified
          WithIndex,    \* TRUE = retention index operations are explored (memory tier)
          ReadOps       \* TRUE = get / has / load are explored as steps of their own (the observable
                        \* state exported after every step contains every read anyway)

Hashes == Blobs
H(b)   == b

\* ---- what a slot of the store can hold ---------------------------------
Absent   == [k |-> "absent", b |-> "-"]
Good(b)  == [k |-> "ok",     b |-> b]     \* exactly the bytes b
Flip(b)  == [k |-> "flip",   b |-> b]     \* b with one bit flipped
Trunc(b) == [k |-> "trunc",  b |-> b]     \* a proper prefix of b
Dir      == [k |-> "dir",    b |-> "-"]   \* a directory sits where the blob file should be
Content  == {Absent, Dir} \cup {Good(b) : b \in Blobs} \cup {Flip(b) : b \in Blobs} \cup {Trunc(b) : b \in Blobs}

\* hash of the bytes held in a slot ("-" = hashes to nothing in Hashes)
HashOf(c) == IF c.k = "ok" THEN H(c.b) ELSE "-"

VARIABLES tier,    \* "mem" or "disk", fixed per behaviour
          blobs,   \* [Hashes -> Content]: MemoryTier.blobs, or the files blobs/<hh>/<hex> of the DiskTier
          pins,    \* MemoryTier.pins / DiskTier.pins (process-local in both)
          bytes,   \* MemoryTier.byte_count (0 on the disk tier)
          tmp,     \* disk: hashes for which a stray ".<hex>.<n>.tmp" file lies in the shard directory
          junk,    \* disk: hashes in whose shard directory a file with a non-hash, non-dot name lies
          index,   \* RetainedBlobIndex.descriptors: [Coords -> Hashes \cup {"-"}]
          nf,      \* number of file faults so far
          last     \* the last call and its result
casvars == <<tier, blobs, pins, bytes, tmp, junk, index, nf, last>>

Present(bl)     == {h \in Hashes : bl[h] # Absent}
Intact(bl, h)   == bl[h] = Good(h)
RECURSIVE SumSize(_)
SumSize(S) == IF S = {} THEN 0 ELSE LET x == CHOOSE y \in S : TRUE IN Size[x] + SumSize(S \ {x})

Call(op, h, b, c, res) == [op |-> op, h |-> h, b |-> b, c |-> c, res |-> res]
IsOk(res)  == res \notin {"err:mismatch", "err:io", "err:conflict", "err:missing_coord", "err:missing_blob", "err:invalid_path"}
IsErr(res) == ~IsOk(res)

\* ---- reads (pure functions of the state) -------------------------------
\* MemoryTier::get = blobs.get(hash).cloned()          (memory.rs)
\* DiskTier::get   = fs::read; NotFound -> Ok(None); other io error -> Err(Io);
\*                   blob_hash(bytes) != hash -> Err(Cas(HashMismatch)); else Ok(Some(bytes))   (disk.rs)
GetIn(t, bl, h) ==
  LET c == bl[h]
  IN IF c = Absent THEN "none"
     ELSE IF t = "mem" THEN "ok:" \o c.b     \* returned without re-hashing: relies on Inv_MemWellFormed
     ELSE IF c = Dir THEN "err:io"
     ELSE IF HashOf(c) = h THEN "ok:" \o c.b
     ELSE "err:mismatch"
GetRes(h) == GetIn(tier, blobs, h)

\* MemoryTier::has = contains_key; DiskTier::has = metadata(path).is_file(), NotFound -> false  (no content check)
HasIn(t, bl, h) == bl[h] # Absent /\ bl[h] # Dir
HasRes(h) == HasIn(tier, blobs, h)

\* DiskTier::list: every regular file in every shard directory; names starting with '.' skipped;
\* any other name that is not 64 hex digits -> Err(InvalidBlobPath); directories skipped.
ListOk   == junk = {}
ListSet  == {h \in Hashes : HasRes(h)}

\* RetainedBlobIndex::load(store, coordinate)   (retention.rs)
LoadIn(t, bl, ix, c) ==
  IF ix[c] = "-" THEN "err:missing_coord"
  ELSE IF GetIn(t, bl, ix[c]) = "none" THEN "err:missing_blob"
  ELSE GetIn(t, bl, ix[c])
LoadRes(c) == LoadIn(tier, blobs, index, c)

\* ---- initial state -------------------------------------------------------
CasInit ==
  /\ tier \in Tiers
  /\ blobs = [h \in Hashes |-> Absent]
  /\ pins = {}
  /\ bytes = 0
  /\ tmp = {}
  /\ junk = {}
  /\ index = [c \in Coords |-> "-"]
  /\ nf = 0
  /\ last = Call("open", "-", "-", "-", "ok")

\* ---- writes ------------------------------------------------------------
\* The write path shared by put and put_verified once the bytes are known to hash to h.
\* memory.rs: insert only when vacant, byte_count += len.
\* disk.rs  : create_dir_all(shard); write ".<hex>.<counter>.tmp"; rename over blobs/<hh>/<hex>
\*            (replaces whatever file is there; a directory there makes rename fail -> Err(Io),
\*            temp file removed, nothing changed).  Stray temp/junk files are not touched.
StoreOk(h)  == ~(tier = "disk" /\ blobs[h] = Dir)
Stored(h)   == IF ~StoreOk(h) THEN blobs
               ELSE IF tier = "mem" /\ blobs[h] # Absent THEN blobs
               ELSE [blobs EXCEPT ![h] = Good(h)]
BytesAfter(h) == IF tier = "mem" /\ blobs[h] = Absent THEN bytes + Size[h] ELSE bytes

\* BlobStore::put / DiskTier::put
Put(b) ==
  /\ blobs' = Stored(H(b))
  /\ bytes' = BytesAfter(H(b))
  /\ last' = Call("put", H(b), b, "-", IF StoreOk(H(b)) THEN "ok:" \o H(b) ELSE "err:io")
  /\ UNCHANGED <<tier, pins, tmp, junk, index, nf>>

\* BlobStore::put_verified / DiskTier::put_verified
\*   disk.rs  : computed = blob_hash(bytes); computed != expected -> Err(Cas(HashMismatch)) before any I/O.
\*   memory.rs: `if self.blobs.contains_key(&expected) { return Ok(()) }` BEFORE hashing  (MemFastPath).
\* The law (property C20, trait doc "Rejects if BLAKE3(bytes) != expected") is MemFastPath = FALSE.
PutVerified(h, b) ==
  IF MemFastPath /\ tier = "mem" /\ blobs[h] # Absent
  THEN /\ last' = Call("pv", h, b, "-", "ok")
       /\ UNCHANGED <<tier, blobs, pins, bytes, tmp, junk, index, nf>>
  ELSE IF H(b) # h
  THEN /\ last' = Call("pv", h, b, "-", "err:mismatch")
       /\ UNCHANGED <<tier, blobs, pins, bytes, tmp, junk, index, nf>>
  ELSE /\ blobs' = Stored(h)
       /\ bytes' = BytesAfter(h)
       /\ last' = Call("pv", h, b, "-", IF StoreOk(h) THEN "ok" ELSE "err:io")
       /\ UNCHANGED <<tier, pins, tmp, junk, index, nf>>

Get(h) ==
  /\ ReadOps
  /\ last' = Call("get", h, "-", "-", GetRes(h))
  /\ UNCHANGED <<tier, blobs, pins, bytes, tmp, junk, index, nf>>

Has(h) ==
  /\ ReadOps
  /\ last' = Call("has", h, "-", "-", IF HasRes(h) THEN "true" ELSE "false")
  /\ UNCHANGED <<tier, blobs, pins, bytes, tmp, junk, index, nf>>

\* pin / unpin: set semantics, legal on missing blobs, touch nothing but the pin set (both tiers)
Pin(h) ==
  /\ pins' = pins \cup {h}
  /\ last' = Call("pin", h, "-", "-", "ok")
  /\ UNCHANGED <<tier, blobs, bytes, tmp, junk, index, nf>>
Unpin(h) ==
  /\ pins' = pins \ {h}
  /\ last' = Call("unpin", h, "-", "-", "ok")
  /\ UNCHANGED <<tier, blobs, bytes, tmp, junk, index, nf>>

\* Process reconstruction.  Memory tier: MemoryTier::with_limits again - everything is gone.
\* Disk tier: DiskTier::open(root) on the same directory - files persist, pins do not.
\* The retention index is an independent value and survives.
Reopen ==
  /\ IF tier = "mem" THEN blobs' = [h \in Hashes |-> Absent] /\ bytes' = 0
                     ELSE UNCHANGED <<blobs, bytes>>
  /\ pins' = {}
  /\ last' = Call("reopen", "-", "-", "-", "ok")
  /\ UNCHANGED <<tier, tmp, junk, index, nf>>

\* ---- file faults (disk tier) ---------------------------------------------
FaultOn(kind) == tier = "disk" /\ kind \in Faults /\ nf < MaxFaults
FFlip(h) ==      \* flip one bit of a stored file
  /\ FaultOn("flip") /\ blobs[h].k = "ok"
  /\ blobs' = [blobs EXCEPT ![h] = Flip(@.b)]
  /\ last' = Call("f_flip", h, "-", "-", "ok")
  /\ nf' = nf + 1 /\ UNCHANGED <<tier, pins, bytes, tmp, junk, index>>
FTrunc(h) ==     \* cut a stored file to a proper prefix
  /\ FaultOn("trunc") /\ blobs[h].k = "ok"
  /\ blobs' = [blobs EXCEPT ![h] = Trunc(@.b)]
  /\ last' = Call("f_trunc", h, "-", "-", "ok")
  /\ nf' = nf + 1 /\ UNCHANGED <<tier, pins, bytes, tmp, junk, index>>
FSwap(h, b) ==   \* the file of h now holds the (valid) bytes of another blob
  /\ FaultOn("swap") /\ b # h /\ blobs[h] # Dir
  /\ blobs' = [blobs EXCEPT ![h] = Good(b)]
  /\ last' = Call("f_swap", h, b, "-", "ok")
  /\ nf' = nf + 1 /\ UNCHANGED <<tier, pins, bytes, tmp, junk, index>>
FDelete(h) ==    \* the file (or directory) is removed
  /\ FaultOn("delete") /\ blobs[h] # Absent
  /\ blobs' = [blobs EXCEPT ![h] = Absent]
  /\ last' = Call("f_delete", h, "-", "-", "ok")
  /\ nf' = nf + 1 /\ UNCHANGED <<tier, pins, bytes, tmp, junk, index>>
FTmp(h) ==       \* a crash between fs::write(temp) and fs::rename left ".<hex>.<n>.tmp" behind
  /\ FaultOn("tmp") /\ h \notin tmp
  /\ tmp' = tmp \cup {h}
  /\ last' = Call("f_tmp", h, "-", "-", "ok")
  /\ nf' = nf + 1 /\ UNCHANGED <<tier, blobs, pins, bytes, junk, index>>
FJunk(h) ==      \* a foreign file with a non-hash name in the shard directory
  /\ FaultOn("junk") /\ h \notin junk
  /\ junk' = junk \cup {h}
  /\ last' = Call("f_junk", h, "-", "-", "ok")
  /\ nf' = nf + 1 /\ UNCHANGED <<tier, blobs, pins, bytes, tmp, index>>
FDir(h) ==       \* a directory where the blob file should be
  /\ FaultOn("dir") /\ blobs[h] # Dir
  /\ blobs' = [blobs EXCEPT ![h] = Dir]
  /\ last' = Call("f_dir", h, "-", "-", "ok")
  /\ nf' = nf + 1 /\ UNCHANGED <<tier, pins, bytes, tmp, junk, index>>

\* ---- semantic retention index over the memory tier (retention.rs) -------
\* RetainedBlobIndex::retain(store, coordinate, bytes):
\*   existing descriptor with another content hash -> Err(SemanticCoordinateConflict), nothing touched;
\*   existing descriptor, same hash -> re-put when the store lost the blob, pin, Ok(existing);
\*   no descriptor -> put, pin, insert.
Retain(c, b) ==
  /\ tier = "mem" /\ WithIndex
  /\ IF index[c] # "-" /\ index[c] # H(b)
     THEN /\ last' = Call("retain", H(b), b, c, "err:conflict")
          /\ UNCHANGED <<tier, blobs, pins, bytes, tmp, junk, index, nf>>
     ELSE /\ blobs' = Stored(H(b))
          /\ bytes' = BytesAfter(H(b))
          /\ pins' = pins \cup {H(b)}
          /\ index' = [index EXCEPT ![c] = H(b)]
          /\ last' = Call("retain", H(b), b, c, "ok:" \o H(b))
          /\ UNCHANGED <<tier, tmp, junk, nf>>
Load(c) ==
  /\ tier = "mem" /\ WithIndex /\ ReadOps
  /\ last' = Call("load", "-", "-", c, LoadRes(c))
  /\ UNCHANGED <<tier, blobs, pins, bytes, tmp, junk, index, nf>>

CasNext ==
  \/ \E b \in Blobs : Put(b)
  \/ \E h \in Hashes, b \in Blobs : PutVerified(h, b)
  \/ \E h \in Hashes : Get(h) \/ Has(h) \/ Pin(h) \/ Unpin(h)
  \/ Reopen
  \/ \E h \in Hashes : FFlip(h) \/ FTrunc(h) \/ FDelete(h) \/ FTmp(h) \/ FJunk(h) \/ FDir(h)
  \/ \E h \in Hashes, b \in Blobs : FSwap(h, b)
  \/ \E c \in Coords, b \in Blobs : Retain(c, b)
  \/ \E c \in Coords : Load(c)

\* ---- properties (C20, echo-cas half) ------------------------------------
TypeOK ==
  /\ tier \in Tiers
  /\ blobs \in [Hashes -> Content]
  /\ pins \subseteq Hashes /\ tmp \subseteq Hashes /\ junk \subseteq Hashes
  /\ bytes \in Nat /\ nf \in 0..MaxFaults
  /\ index \in [Coords -> Hashes \cup {"-"}]

\* get(h) is None, a typed error, or exactly the bytes whose hash is h
Inv_GetIntact == \A h \in Hashes : GetRes(h) \in {"none", "err:mismatch", "err:io", "ok:" \o h}
\* the memory tier never re-hashes on get: every stored value must already be right, and the
\* byte counter is the sum of the stored lengths
Inv_MemWellFormed == tier = "mem" => /\ \A h \in Present(blobs) : Intact(blobs, h)
                                      /\ bytes = SumSize(Present(blobs))
                                      /\ tmp = {} /\ junk = {} /\ nf = 0
\* corruption is detected on read: a slot that does not hold the right bytes never answers Ok
Inv_CorruptionDetected == \A h \in Hashes : (blobs[h] # Absent /\ ~Intact(blobs, h)) => IsErr(GetRes(h))
\* presence and content agree on an un-faulted store
Inv_HasMeansGet == \A h \in Hashes : (HasRes(h) /\ Intact(blobs, h)) => GetRes(h) = "ok:" \o h
\* a coordinate answers with the bytes it was bound to, or a typed obstruction
Inv_LoadIntact == \A c \in Coords : LoadRes(c) \in {"err:missing_coord", "err:missing_blob", "err:mismatch", "err:io"}
                                                  \cup (IF index[c] = "-" THEN {} ELSE {"ok:" \o index[c]})

\* mismatching bytes are refused on write and the store is unchanged
P_MismatchRefused ==
  [][(last'.op = "pv" /\ H(last'.b) # last'.h) =>
        (last'.res = "err:mismatch" /\ UNCHANGED <<blobs, pins, bytes, tmp, junk, index>>)]_casvars
\* writes are idempotent: writing content that is already stored intact changes nothing, and
\* after a successful write the content is readable
P_PutIdempotent ==
  [][(last'.op \in {"put", "pv"} /\ IsOk(last'.res)) =>
        /\ (Intact(blobs, last'.h) => UNCHANGED <<blobs, pins, bytes, tmp, junk, index>>)
        /\ GetIn(tier', blobs', last'.h) = "ok:" \o last'.h
        /\ \A g \in Hashes \ {last'.h} : blobs'[g] = blobs[g]]_casvars
\* pinning never changes content
P_PinKeepsContent ==
  [][(last'.op \in {"pin", "unpin"}) => UNCHANGED <<blobs, bytes, tmp, junk, index>>]_casvars
\* reads are read-only
P_ReadsReadOnly ==
  [][(last'.op \in {"get", "has", "load"}) => UNCHANGED <<blobs, pins, bytes, tmp, junk, index>>]_casvars
\* the disk tier persists across reopen, the memory tier does not; no tier invents content
P_Reopen ==
  [][(last'.op = "reopen") => /\ pins' = {}
                               /\ (tier = "disk" => blobs' = blobs)
                               /\ (tier = "mem" => Present(blobs') = {})]_casvars
\* a bound coordinate is never rebound, a retain touches only its own coordinate, and a conflicting
\* retain is refused with everything unchanged (distinct coordinates never alias)
P_IndexStable ==
  [][/\ \A c \in Coords : index[c] # "-" => index'[c] = index[c]
     /\ (last'.op = "retain" => \A c \in Coords \ {last'.c} : index'[c] = index[c])
     /\ (last'.op # "retain" => index' = index)
     /\ ((last'.op = "retain" /\ index[last'.c] # "-" /\ index[last'.c] # H(last'.b)) =>
            (last'.res = "err:conflict" /\ UNCHANGED <<blobs, pins, bytes, index>>))]_casvars
=============================================================================
