\* C20 simulation: random behaviours of 12 calls over 3 blobs, 2 coordinates, both tiers, all faults (at most 4)
SPECIFICATION Spec
CONSTANTS
  Blobs = {"a", "b", "c"}
  Coords = {"k0", "k1"}
  Tiers = {"mem", "disk"}
  Faults = {"flip", "trunc", "swap", "delete", "tmp", "junk", "dir"}
  MaxFaults = 4
  Size <- MC_Size
  MaxBytes = 3
  MemFastPath = FALSE
  ReadOps = TRUE
  WithIndex = TRUE
  Export = TRUE
  MaxLen = 12
INVARIANTS TypeOK Inv_GetIntact Inv_MemWellFormed Inv_CorruptionDetected Inv_HasMeansGet Inv_LoadIntact Inv_Export
PROPERTIES P_MismatchRefused P_PutIdempotent P_PinKeepsContent P_ReadsReadOnly P_Reopen P_IndexStable
CONSTRAINT DepthBound
CHECK_DEADLOCK FALSE
