SPECIFICATION MCSpec
CONSTANTS
  Reqs = {"r1", "r2"}
  None = None
  RecordVs = {"ok"}
  ClaimVs = {"ok"}
  SettleVs = {"s1"}
  RetryVs = {"s1"}
  Fates = {"ok"}
  KeepHist = FALSE
  FrameLen = 4
  MarkLen = 4
  MutTornMarker = TRUE
  AsBuiltBareRecover = FALSE
  MutRepairDeep = FALSE
  MaxPre = 3
  MaxMid = 0
  MaxNoops = 0
  PostOps = 1
  PostNoops = 0
  MaxCrashes = 1
  Export = FALSE
INVARIANTS
  Inv_LifecyclePrefix Inv_LiveShape Inv_OneGrant Inv_SettlementExact Inv_DurableBeforeReturn
  Inv_RecoveryNeverObstructed Inv_RecoveredEqLive Inv_IncrementalRoot
  Inv_IssuedSurvive Inv_RetryFromRetained Inv_NoStepRepeated Inv_LsnContiguous Inv_TailShape
  Inv_FsDurableBeforeReturn Inv_FsCommittedPrefix Inv_FsNoHalfApplied Inv_FsIdempotent Inv_FsBareRefusesTail Inv_FsShape
  Inv_Export
CHECK_DEADLOCK FALSE
VIEW View
