------------------------------ MODULE TruthBus ------------------------------
(***************************************************************************)
(* The materialization bus inside a committed tick, and what replays it.   *)
(*                                                                         *)
(* Bus.tla models one tick of a bare MaterializationBus.  This module puts *)
(* that bus where a user meets it: owned by an Engine, filled during a     *)
(* transaction, finalized by commit, recorded as the outputs of a          *)
(* provenance entry and re-published by ViewSession::publish_truth.        *)
(*                                                                         *)
(* Transcribed (as built) from                                             *)
(*   crates/warp-core/src/engine_impl.rs                                   *)
(*       Engine::begin               - tx counter only; does not touch bus *)
(*       Engine::materialization_bus - host / ScopedEmitter emit into it   *)
(*       Engine::commit_with_receipt - UnknownTx => Err before anything;   *)
(*            otherwise  report = bus.finalize()  (which empties the bus), *)
(*            last_materialization := report.channels,                     *)
(*            last_materialization_errors := report.errors,                *)
(*            snapshot.hash = compute_commit_hash_v2(state_root, parents,  *)
(*            patch_digest, policy_id): NO emissions digest, NO conflicts  *)
(*       Engine::abort               - bus.clear() AND both last_* cleared *)
(*   crates/warp-core/src/snapshot.rs                                      *)
(*       compute_emissions_digest(report.channels) - finalized channels    *)
(*            only; a conflicting channel contributes nothing              *)
(*   crates/warp-core/src/coordinator.rs (super_tick)                      *)
(*       entry.outputs = frontier.state().last_materialization() as        *)
(*            (channel, data) pairs in the finalized (ChannelId) order     *)
(*   crates/warp-core/src/playback.rs                                      *)
(*       ViewSession::{subscribe, unsubscribe, set_active_cursor,          *)
(*            publish_truth},  TruthSink::{publish_receipt, publish_frame, *)
(*            collect_frames, last_receipt, clear_session, clear}          *)
(*                                                                         *)
(* The per-tick finalize function, the reducers, Emit and the order-free   *)
(* oracle are those of Bus.tla (EXTENDS, nothing is duplicated).  Bus's    *)
(* variables are reused with the following reading:                        *)
(*   policies - the channel policies registered on the engine's bus        *)
(*   pending  - what the engine's bus holds right now                      *)
(*   hist     - GHOST: every emit attempt since the last Begin, in ARRIVAL *)
(*              order, with its accepted / rejected flag                   *)
(*   report   - Engine::last_materialization / last_materialization_errors *)
(*                                                                         *)
(* Ticks are 1-based here: ticks[t] is provenance index t-1, i.e. what a   *)
(* cursor at worldline tick t looks at.                                    *)
(***************************************************************************)
EXTENDS Bus

CONSTANTS Sessions,      \* session names
          Cursors,       \* cursor names
          Mutant         \* "none", or the name of a deliberately wrong variant (model mutants)

VARIABLES tx,            \* "none" | "open"
          ticks,         \* committed history: sequence of tick records (see Commit)
          subs,          \* session -> set of subscribed channels
          active,        \* session -> its active cursor
          ctick,         \* cursor -> worldline tick it is parked at
          frames,        \* sink: session -> sequence of published frames
          receipt,       \* sink: session -> None | last published receipt
          lost           \* GHOST: accepted emissions of aborted transactions

tvars == <<policies, pending, hist, report, tx, ticks, subs, active, ctick, frames, receipt, lost>>
lifeVars == <<policies, pending, hist, report, tx, ticks, lost>>
playVars == <<subs, active, ctick, frames, receipt>>

EmptyReport == [channels |-> <<>>, errors |-> <<>>]

-----------------------------------------------------------------------------
(* engine life cycle *)

TInit(pol, c0) ==
  /\ policies = pol
  /\ pending = EmptyFn
  /\ hist = <<>>
  /\ report = EmptyReport                      \* Engine::new: both last_* vectors empty
  /\ tx = "none"
  /\ ticks = <<>>
  /\ subs = [s \in Sessions |-> {}]            \* ViewSession::new: no subscriptions
  /\ active = [s \in Sessions |-> c0]         
  /\ ctick = [c \in Cursors |-> 0]             \* PlaybackCursor::new: tick 0
  /\ frames = [s \in Sessions |-> <<>>]
  /\ receipt = [s \in Sessions |-> None]
  /\ lost = {}

\* Engine::begin.  (The host is assumed to run one transaction at a time and to emit only inside it.)
Begin ==
  /\ tx = "none"
  /\ tx' = "open"
  /\ hist' = <<>>
  /\ UNCHANGED <<policies, pending, report, ticks, lost>>
  /\ UNCHANGED playVars

\* bus.emit / ScopedEmitter::emit during the transaction: Bus!Emit unchanged (a repeated (channel, key)
\* is rejected and leaves the stored payload untouched).
EmitTx(ch, key, data) ==
  /\ tx = "open"
  /\ Emit(ch, key, data)
  /\ UNCHANGED <<tx, ticks, lost>>
  /\ UNCHANGED playVars

\* The model mutant "finalize_arrival": channels reported in the order of their first accepted emission
\* instead of ChannelId order (what a Vec / insertion-ordered map in place of the BTreeMap would give).
ArrivalChannels(h) ==
  FoldLeft(LAMBDA acc, e : IF e.ok /\ ~(\E i \in 1..Len(acc) : acc[i] = e.ch) THEN Append(acc, e.ch) ELSE acc, <<>>, h)
ArrivalReport(pol, pend, h) ==
  FoldLeft(LAMBDA rep, c :
             LET r == FinalizeChannel(PolicyOf(pol, c), pend[c])
             IN IF r.ok THEN [rep EXCEPT !.channels = Append(@, [ch |-> c, data |-> r.data])]
                ELSE [rep EXCEPT !.errors = Append(@, [ch |-> c, count |-> r.count, kind |-> r.kind])],
           EmptyReport, ArrivalChannels(h))

\* The record a committed tick leaves behind.
\*   emitted  - GHOST: the first arrivals of this transaction's emit attempts (a SET)
\*   busset   - what the bus actually held when commit finalized it
\*   channels - finalized outputs in ChannelId order = last_materialization = entry.outputs
\*   errors   - conflicts = last_materialization_errors (NOT recorded in provenance)
\*   dkey     - abstract emissions digest: compute_emissions_digest sees report.channels only
\*   ckey     - abstract commit id: the parent chain; as built it does not depend on the emissions
TickRec(rep, em, bs, n) ==
  [emitted |-> em, busset |-> bs, channels |-> rep.channels, errors |-> rep.errors, dkey |-> rep.channels, ckey |-> n]

\* Engine::commit_with_receipt on the live transaction
Commit ==
  /\ tx = "open"
  /\ LET rep == IF Mutant = "finalize_arrival" THEN ArrivalReport(policies, pending, hist)
                ELSE FinalizeReport(policies, pending)
     IN /\ report' = rep
        /\ ticks' = Append(ticks, TickRec(rep, AcceptedSet(hist), PendingSet(pending), Len(ticks) + 1))
  /\ pending' = EmptyFn                        \* finalize() drains the bus
  /\ hist' = <<>>
  /\ tx' = "none"
  /\ UNCHANGED <<policies, lost>>
  /\ UNCHANGED playVars

\* Engine::abort
Abort ==
  /\ tx = "open"
  /\ tx' = "none"
  /\ pending' = (IF Mutant = "abort_keeps_bus" THEN pending ELSE EmptyFn)
  /\ report' = EmptyReport                     \* abort also forgets the previous commit's outputs
  /\ lost' = lost \cup AcceptedSet(hist)
  /\ hist' = <<>>
  /\ UNCHANGED <<policies, ticks>>
  /\ UNCHANGED playVars

\* Engine::commit_with_receipt with a TxId that is not live (never begun, already committed or aborted):
\* Err(UnknownTx) before anything is touched - the bus, the open transaction and last_* stay.
\* (The other error exits of commit_with_receipt - InternalCorruption from reserve / apply - also return
\* before finalize and leave the bus filled; they are not reachable through the public API.)
FailedCommit == UNCHANGED tvars

-----------------------------------------------------------------------------
(* sessions, cursors, sink *)

Subscribe(s, ch) ==
  /\ subs' = [subs EXCEPT ![s] = @ \cup {ch}]
  /\ UNCHANGED <<active, ctick, frames, receipt>> /\ UNCHANGED lifeVars
Unsubscribe(s, ch) ==
  /\ subs' = [subs EXCEPT ![s] = @ \ {ch}]
  /\ UNCHANGED <<active, ctick, frames, receipt>> /\ UNCHANGED lifeVars
SetActiveCursor(s, c) ==
  /\ active' = [active EXCEPT ![s] = c]
  /\ UNCHANGED <<subs, ctick, frames, receipt>> /\ UNCHANGED lifeVars

\* PlaybackCursor::seek_to / step, abstracted to the tick (C07 covers the materialized state)
Seek(c, t) ==
  /\ t \in 0..Len(ticks)
  /\ ctick' = [ctick EXCEPT ![c] = t]
  /\ UNCHANGED <<subs, active, frames, receipt>> /\ UNCHANGED lifeVars
Step(c) ==
  /\ ctick[c] < Len(ticks)
  /\ ctick' = [ctick EXCEPT ![c] = @ + 1]
  /\ UNCHANGED <<subs, active, frames, receipt>> /\ UNCHANGED lifeVars

Frame(t, ck, x) == [tick |-> t, commit |-> ck, ch |-> x.ch, data |-> x.data]

\* ViewSession::publish_truth(cursor = the session's active cursor, provenance, sink):
\*   tick 0 => Ok, nothing;  otherwise entry = provenance.entry(tick - 1), receipt pushed, then
\*   `for (channel, value) in entry.outputs { if subscriptions.contains(channel) { publish_frame } }`
Publish(s) ==
  LET t  == ctick[active[s]]
      ix == IF Mutant = "publish_index" THEN t + 1 ELSE t          \* mutant: entry(tick) instead of entry(tick - 1)
  IN IF t = 0 THEN UNCHANGED tvars
     ELSE /\ ix \in 1..Len(ticks)                                   \* (mutant only: HistoryError at the frontier)
          /\ LET rec == ticks[ix]
                 add == FoldLeft(LAMBDA acc, x : IF Mutant = "publish_all" \/ x.ch \in subs[s]
                                                    THEN Append(acc, Frame(t, rec.ckey, x)) ELSE acc,
                                 <<>>, rec.channels)
             IN /\ frames' = [frames EXCEPT ![s] = @ \o add]
                /\ receipt' = [receipt EXCEPT ![s] = [tick |-> t, commit |-> rec.ckey, cursor |-> active[s]]]
          /\ UNCHANGED <<subs, active, ctick>> /\ UNCHANGED lifeVars

ClearSession(s) ==
  /\ frames' = [frames EXCEPT ![s] = <<>>]
  /\ receipt' = [receipt EXCEPT ![s] = None]
  /\ UNCHANGED <<subs, active, ctick>> /\ UNCHANGED lifeVars
ClearAll ==
  /\ frames' = [s \in Sessions |-> <<>>]
  /\ receipt' = [s \in Sessions |-> None]
  /\ UNCHANGED <<subs, active, ctick>> /\ UNCHANGED lifeVars

-----------------------------------------------------------------------------
(* state invariants *)

TTypeOK ==
  /\ tx \in {"none", "open"}
  /\ DOMAIN pending \subseteq Channels
  /\ \A c \in DOMAIN pending : DOMAIN pending[c] # {}
  /\ \A c \in Cursors : ctick[c] \in 0..Len(ticks)
  /\ \A s \in Sessions : subs[s] \subseteq Channels /\ active[s] \in Cursors

\* emissions are tick scoped: outside a transaction the bus is empty (so it is empty at every Begin),
\* inside one it holds exactly the first arrivals of THIS transaction's attempts
BusIsTickScoped ==
  /\ tx = "none" => pending = EmptyFn
  /\ tx = "open" => PendingSet(pending) = AcceptedSet(hist)

\* a repeated (channel, key) is rejected (Bus!Inv_DuplicateRejected read on the ghost)
DuplicateRejected == Inv_DuplicateRejected

\* what commit finalized is what was emitted in that transaction - nothing older leaked in
NoLeakIntoTick == \A t \in 1..Len(ticks) : ticks[t].busset = ticks[t].emitted

\* Bus's law lifted to the tick: outputs, conflicts and digest key are the order-free oracle's answer
\* for the emitted SET (arrival order appears nowhere on the right-hand side)
TickIsFunctionOfSet ==
  \A t \in 1..Len(ticks) :
     LET o == OracleReport(policies, ticks[t].emitted)
     IN ticks[t].channels = o.channels /\ ticks[t].errors = o.errors /\ ticks[t].dkey = o.channels

\* channels and conflicts partition the channels that had emissions; a conflicting channel has no output
TickPartition ==
  \A t \in 1..Len(ticks) :
     LET okS == {ticks[t].channels[i].ch : i \in 1..Len(ticks[t].channels)}
         erS == {ticks[t].errors[i].ch : i \in 1..Len(ticks[t].errors)}
     IN okS \cap erS = {} /\ okS \cup erS = {e.ch : e \in ticks[t].emitted}

\* as built: the commit id is the position in the parent chain - emissions and conflicts do not enter it
CommitKeyAsBuilt == \A t \in 1..Len(ticks) : ticks[t].ckey = t

\* last_materialization is the last commit's report unless an abort happened since (then it is empty)
LastMatSound ==
  \/ report = EmptyReport
  \/ (ticks # <<>> /\ report = [channels |-> ticks[Len(ticks)].channels, errors |-> ticks[Len(ticks)].errors])

\* what publish must append for (history, tick, subscriptions), stated on the emitted set
ExpectedFrames(t, S) ==
  LET o == OracleReport(policies, ticks[t].emitted)
      chs == NatSeq({o.channels[i].ch : i \in 1..Len(o.channels)} \cap S)
  IN Tup([j \in 1..Len(chs) |->
            Frame(t, ticks[t].ckey, CHOOSE x \in {o.channels[i] : i \in 1..Len(o.channels)} : x.ch = chs[j])])

\* every frame in the sink is a recorded output of the tick it names, stamped with that tick's commit
SinkSound ==
  \A s \in Sessions :
     /\ \A i \in 1..Len(frames[s]) :
          LET f == frames[s][i]
          IN /\ f.tick \in 1..Len(ticks)
             /\ f.commit = ticks[f.tick].ckey
             /\ \E j \in 1..Len(ticks[f.tick].channels) :
                  ticks[f.tick].channels[j] = [ch |-> f.ch, data |-> f.data]
     /\ receipt[s] # None => (receipt[s].tick \in 1..Len(ticks) /\ receipt[s].commit = ticks[receipt[s].tick].ckey)

-----------------------------------------------------------------------------
(* transition laws *)

IsSuffixStep(old, new) == Len(new) >= Len(old) /\ SubSeq(new, 1, Len(old)) = old

\* history records are immutable once committed; history only grows, one tick at a time
HistoryImmutable == [][IsSuffixStep(ticks, ticks') /\ Len(ticks') <= Len(ticks) + 1]_tvars

\* a tick is only ever added by a commit of an open transaction
OnlyCommitAddsTick == [][Len(ticks') > Len(ticks) => (tx = "open" /\ tx' = "none")]_tvars

\* nothing emitted in an aborted transaction appears in a later tick unless it was emitted again:
\* right after an abort the bus is empty
AbortLeavesNothing == [][(tx = "open" /\ tx' = "none" /\ Len(ticks') = Len(ticks)) => pending' = EmptyFn]_tvars

\* a rejected emit leaves the bus exactly as it was (Bus!RejectedEmitChangesNothing on tvars)
RejectedEmitKeepsBus ==
  [][(Len(hist') = Len(hist) + 1 /\ ~hist'[Len(hist')].ok) => pending' = pending]_tvars

PublishedBy(s) == frames'[s] # frames[s] \/ receipt'[s] # receipt[s]
SinkStep == frames' # frames \/ receipt' # receipt
IsClear(s) == frames'[s] = <<>> /\ receipt'[s] = None

\* publish appends exactly the recorded outputs of the cursor's tick restricted to the subscriptions, in
\* the recorded channel order, and stamps the receipt with that tick's commit; tick 0 publishes nothing.
\* The right-hand side mentions only (ticks, the tick, the subscriptions): publish is a pure function of
\* them - the path the cursor took and earlier publishes do not matter.
PublishExact ==
  [][\A s \in Sessions :
        (PublishedBy(s) /\ ~IsClear(s)) =>
           LET t == ctick[active[s]]
           IN /\ t \in 1..Len(ticks)
              /\ frames'[s] = frames[s] \o ExpectedFrames(t, subs[s])
              /\ receipt'[s] = [tick |-> t, commit |-> ticks[t].ckey, cursor |-> active[s]]]_tvars

\* sessions are isolated: one step touches the sink of at most one session, unless it is TruthSink::clear
SessionIsolation ==
  [][SinkStep => \/ \E s \in Sessions : \A o \in Sessions \ {s} : frames'[o] = frames[o] /\ receipt'[o] = receipt[o]
                 \/ \A s \in Sessions : IsClear(s)]_tvars

\* frames appended for a session are on channels it is subscribed to at that moment, so an unsubscribed
\* channel never appears after the unsubscribe
OnlySubscribedAppear ==
  [][\A s \in Sessions :
        Len(frames'[s]) > Len(frames[s]) =>
           \A i \in (Len(frames[s]) + 1)..Len(frames'[s]) : frames'[s][i].ch \in subs[s]]_tvars

\* subscriptions persist across set_active_cursor; cursors move only by seek / step
SubsPersist == [][active' # active => subs' = subs]_tvars

\* the sink and the sessions never feed back into the engine, nor the engine into them
PlaybackIsReadOnly == [][(playVars' # playVars) => UNCHANGED lifeVars]_tvars
=============================================================================
