SPECIFICATION Spec
CONSTANTS
  Channels = {0, 1}
  Mode = "perm"
  TokSeq <- MC_TokSetA
  PolSeq <- MC_Pol6x2
  MinN = 9
  MaxN = 5
  Export = FALSE
  CheckRekeyDirect = FALSE
  None = None
INVARIANTS Inv_TypeOK
CHECK_DEADLOCK FALSE
