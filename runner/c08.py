"""C08 - ingress is content-addressed, idempotent and order-free.

MC : MC_C08.tla over Runtime.tla: ALL interleavings of ingest / submit / ticketed staging (unbounded retries:
     a retry that changes nothing is a self-loop under the VIEW that hides history), default / named / exact /
     missing routes, SetPolicy (AcceptAll, KindFilter, Budget 0..2, with eviction on tightening) and scheduler
     passes. State invariants AtMostOncePerHead, CommittedIsLog, PendingIsSet, CorrelationsSound,
     FaultIndexesConsistent; transition laws RetryChangesNothing, IngestDisposition, AdmittedLaw
     (= AdmittedInIdOrder + budget semantics), NothingLost. One cfg adds ResolveFault after the only failure this model
     contains (one ticket staged for two submissions => rolled-back pass), so at-most-once is also checked ACROSS a failed
     pass: what was committed before it must still be Duplicate after rollback + recovery.
RP : EVERY TRANSITION of the explored state graph (also those into known states) is exported with a witness
     path to its source state and replayed into the real WorldlineRuntime (ingest, submit_intent,
     ingest_ticketed_invocation with host_test tickets, verif_set_inbox_policy, super_tick); dispositions,
     pending / committed membership (observed through the public API on scratch clones), StepRecord counts,
     admitted sets, correlations and counters are compared; a Duplicate / refused call must leave the full
     Debug fingerprint unchanged. Ingress-id order is the real BLAKE3 order (rank table from the harness).
MR : all permutations (exhaustive <= 6 intents, sampled for 8) x retry multiplicities of one intent set between
     two passes => identical committed tick (state root, commit id, patch, receipt digest, plan digest,
     provenance commit, receipt order, admitted count) and identical pending remainder (budget).
ID : identity law on a grid: ingress id equal <=> (kind, bytes, canonical causal-parent set) equal; target,
     parent order / duplication and the retained-bytes round trip never matter.
RS : restart (fresh runtime + restore_witnessed_submission_persistence + restore_causal_runtime_history):
     an intent committed before the restart and retried after it must not be committed again on that head.
"""
import itertools
import os
import random
from lib import *

RUNS = {
    "quick": [("MC_C08_quick.cfg", "", False), ("MC_C08_quick_tkt.cfg", "b", False), ("MC_C08_quick_fail.cfg", "", True)],
    "thorough": [("MC_C08_thorough_a.cfg", "", False), ("MC_C08_thorough_b.cfg", "b", False),
                 ("MC_C08_thorough_c.cfg", "c", True), ("MC_C08_thorough_d.cfg", "d", False),
                 ("MC_C08_quick.cfg", "e", False), ("MC_C08_quick_tkt.cfg", "f", False), ("MC_C08_quick_fail.cfg", "g", True)],
}


def ranks(binp, salt):
    out = harness(binp, ["c08-ranks"], env={"VERIF_ID_SALT": salt})
    info = json.loads(out.strip().splitlines()[-1])
    path = os.path.join(WORK, f"c08_ranks_{salt or '0'}.json")
    with open(path, "w") as f:
        json.dump({"heads": info["heads"], "intents": info["intents"]}, f)
        f.write("\n")
    return path, info


def mr_cases(tier, rng):
    cases = []

    def add(names, seq, policy="all", route="default", pre=False):
        cases.append({"set": names, "seq": seq, "policy": policy, "route": route, "pre": pre, "retry_after": True})

    def patterns(perm):
        p = list(perm)
        yield p                                        # each once
        yield [x for y in p for x in (y, y)]           # immediate double retry
        yield p + p[::-1]                              # everything retried later, reversed
        yield p + [p[0], p[0]]                         # first intent three times in total

    for n in range(1, 7):
        names = [f"m{k}" for k in range(n)]
        for perm in itertools.permutations(names):
            for j, seq in enumerate(patterns(perm)):
                if n == 6 and j in (1, 3) and tier == "quick":
                    continue
                add(names, seq)
    four = [f"m{k}" for k in range(4)]
    for perm in itertools.permutations(four):
        for seq in patterns(perm):
            add(four, seq, route="mix", pre=True)       # same head through two routes, between two passes
            add(four, seq, policy="b2")                 # budget: the admitted subset must not depend on arrival
            add(four, seq, policy="b1", pre=True)
    eight = [f"m{k}" for k in range(8)]
    for _ in range(200 if tier == "quick" else 3000):
        perm = eight[:]
        rng.shuffle(perm)
        extra = [rng.choice(perm) for _ in range(rng.randrange(0, 5))]
        seq = perm + extra
        add(eight, seq)
    return cases


def run(tier, replay=None):
    ck = Check("C08", tier)
    binp = build_harness()
    rng = random.Random(seed())
    total = nontrivial = drift = 0
    acts = {}

    # ------------------------------------------------------------------ MC + RP
    runs = []
    if replay:
        obj = json.load(open(replay))["case"]
        if obj.get("leg") == "rp":
            runs.append((obj["cfg"], obj.get("salt", ""), obj.get("w2", False), obj["cases"]))
    else:
        for cfg, salt, w2 in RUNS[tier]:
            path, _ = ranks(binp, salt)
            res = tlc("MC_C08", cfg, workers=6, env={"VERIF_RT_RANKS": path}, timeout=7200, tags=("CASE",),
                      out_name=f"c08_{cfg.replace('.cfg', '')}", heap="10g")
            ck.add_tlc(res)
            if res.violation:
                ck.violation(f"spec:{cfg}:{res.violation}", "TLC invariant / transition law violated on the model:\n" + res.error_text[:3000],
                             {"leg": "spec", "cfg": cfg, "salt": salt, "invariant": res.violation, "trace": res.error_text[:20000]})
                continue
            if not res.lines:
                raise ToolError(f"{cfg}: nothing exported")
            cases = [c for _, c in res.lines]
            res.lines = []
            for c in cases:
                c["w2"] = w2
            runs.append((cfg, salt, w2, cases))
    for cfg, salt, w2, cases in runs:
        tag = f"c08_{cfg.replace('.cfg', '')}"
        cin = write_ndjson(os.path.join(WORK, f"{tag}.cases"), cases)
        cout = os.path.join(WORK, f"{tag}.results")
        harness(binp, ["c08", cin, cout], timeout=7200, env={"VERIF_ID_SALT": salt})
        results = read_ndjson(cout)
        if len(results) != len(cases):
            raise ToolError("harness result count mismatch")
        for c, r in zip(cases, results):
            total += 1
            slim = {"leg": "rp", "cfg": cfg, "salt": salt, "w2": w2, "cases": [c]}
            # (model-derived, counted whatever the real verdict is)
            if (c["path"][-1]["a"] == "ingest" and c["r"].get("disp") == "Duplicate" and any(o["a"] == "resolve" for o in c["path"])
                    and any(x.get("h") == c["r"].get("head") and x.get("i") == c["path"][-1]["i"] for x in c["s"].get("comm", []))):
                acts["ingest/duplicate_of_committed_after_rolled_back_pass_and_recovery"] = acts.get("ingest/duplicate_of_committed_after_rolled_back_pass_and_recovery", 0) + 1
            if r["verdict"] == "tool_error":
                raise ToolError(f"harness: {r.get('detail')}")
            if r["verdict"] == "violation":
                ck.violation(f"{r['kind']}:{c['path'][-1]['a']}", json.dumps(r.get("detail"))[:3000], slim)
                continue
            if r.get("drift"):
                drift += 1
                if len(ck.notes) < 5:
                    ck.notes.append({"model_drift": r["drift"][:2], "path": c["path"]})
            key = r.get("act") + ("/accepted" if r.get("accepted") else "/duplicate" if r.get("dup") else "/refused" if r.get("refused") else "")
            if r.get("act") == "tick":
                key = "tick/commits" if r.get("steps") else ("tick/failed" if r.get("refused") else "tick/empty")
            acts[key] = acts.get(key, 0) + 1
            if r.get("dup") or r.get("refused") or (r.get("act") == "tick" and r.get("steps")):
                nontrivial += 1
        if cases:
            mid = cases[len(cases) // 2]
            ck.sample({"cfg": cfg, "path": mid["path"], "r": mid["r"], "s": mid["s"]})
        del cases, results
    if not replay:
        for need in ("ingest/accepted", "ingest/duplicate", "ingest/refused", "submit/accepted", "submit/duplicate",
                     "stage/accepted", "stage/duplicate", "stage/refused", "policy", "tick/commits", "tick/empty", "tick/failed", "resolve",
                     "ingest/duplicate_of_committed_after_rolled_back_pass_and_recovery"):
            if not acts.get(need):
                raise ToolError(f"vacuous replay: no transition of kind {need}: {acts}")

    # ------------------------------------------------------------------ ID: identity law
    ident_n = 0
    if not replay or json.load(open(replay))["case"].get("leg") == "ident":
        iout = os.path.join(WORK, "c08_ident.out")
        harness(binp, ["c08-ident", iout], env={"VERIF_ID_SALT": ""})
        rows = read_ndjson(iout)
        by_key, by_id = {}, {}
        for r in rows:
            ident_n += 1
            k = (r["kind"], r["bytes"], r["parents"])
            by_key.setdefault(k, set()).add(r["id"])
            by_id.setdefault(r["id"], set()).add(k)
            if r["roundtrip_id"] != r["id"]:
                ck.violation(f"identity:retained_roundtrip:{r['parents']}", f"retained bytes decode to another identity: {r}", {"leg": "ident", "row": r})
        for k, ids in by_key.items():
            if len(ids) != 1:
                ck.violation(f"identity:not_a_function:{k[2]}", f"same (kind, bytes, parents) {k} has ids {sorted(ids)} (target or parent order leaked into identity)",
                             {"leg": "ident", "key": list(k)})
        for i, ks in by_id.items():
            if len(ks) != 1:
                ck.violation(f"identity:collision:{sorted(ks)[0][2]}", f"distinct (kind, bytes, parents) share ingress id {i}: {sorted(ks)}",
                             {"leg": "ident", "keys": sorted(ks)})
        if len(by_key) < 50:
            raise ToolError("identity grid too small")

    # ------------------------------------------------------------------ MR: permutations x retries
    mr_n = mr_groups = 0
    if not replay or json.load(open(replay))["case"].get("leg") == "mr":
        cases = json.load(open(replay))["case"]["cases"] if replay else mr_cases(tier, rng)
        cin = write_ndjson(os.path.join(WORK, "c08_mr.cases"), cases)
        cout = os.path.join(WORK, "c08_mr.results")
        harness(binp, ["c08-mr", cin, cout], timeout=7200, env={"VERIF_ID_SALT": ""})
        results = read_ndjson(cout)
        if len(results) != len(cases):
            raise ToolError("mr result count mismatch")
        groups = {}
        for c, r in zip(cases, results):
            mr_n += 1
            if r["verdict"] == "tool_error":
                raise ToolError(f"harness mr: {r.get('detail')}")
            if r["verdict"] == "violation":
                ck.violation(f"mr:{r['kind']}", str(r.get("detail"))[:2000], {"leg": "mr", "cases": [c]})
                continue
            g = (tuple(c["set"]), c["policy"], c["route"], c["pre"])
            groups.setdefault(g, []).append((c, r))
        commits = {}
        for g, members in groups.items():
            mr_groups += 1
            ref_c, ref_r = members[0]
            for c, r in members[1:]:
                if r["hashes"] != ref_r["hashes"] or r["pend_after"] != ref_r["pend_after"] or r["pend_before"] != ref_r["pend_before"]:
                    diff = {k: (r["hashes"].get(k), ref_r["hashes"].get(k)) for k in r["hashes"] if r["hashes"].get(k) != ref_r["hashes"].get(k)}
                    ck.violation(f"mr:arrival_order_or_retries_leak:{g[1]}:{g[2]}:{len(g[0])}",
                                 f"same intent set, different committed tick: {diff} pend_after {r['pend_after']} vs {ref_r['pend_after']}",
                                 {"leg": "mr", "cases": [c, ref_c]})
                    break
            commits.setdefault(ref_r["hashes"].get("commit"), set()).add(g)
            if g[1] == "b2" and (len(ref_r["pend_after"]) != len(g[0]) - 2 or ref_r["hashes"].get("admitted") != [2]):
                ck.violation("mr:budget_semantics:b2", f"budget 2 admitted {ref_r['hashes'].get('admitted')} left {ref_r['pend_after']}", {"leg": "mr", "cases": [ref_c]})
        if not replay and mr_groups < 8:
            raise ToolError("mr: too few groups")
        ck.sample({"mr_group": list(members[0][0]["set"]), "arrivals": members[-1][0]["seq"], "hashes": members[-1][1]["hashes"]})

    # ------------------------------------------------------------------ RS: restart
    rs_n = 0
    if not replay or json.load(open(replay))["case"].get("leg") == "restart":
        spec_cex = None
        if not replay:
            path, _ = ranks(binp, "")
            res = tlc("MC_C08", "MC_C08_restart.cfg", workers=4, env={"VERIF_RT_RANKS": path}, timeout=1800, tags=("CASE",), out_name="c08_restart")
            ck.add_tlc(res)
            spec_cex = res.violation
        cases = [{"path": p, "when": w, "route": r} for p in ("raw", "raw_norule", "ticketed") for w in ("committed", "pending") for r in ("default", "named", "exact")]
        cin = write_ndjson(os.path.join(WORK, "c08_restart.cases"), cases)
        cout = os.path.join(WORK, "c08_restart.results")
        harness(binp, ["c08-restart", cin, cout], env={"VERIF_ID_SALT": ""})
        bad = []
        for c, r in zip(cases, read_ndjson(cout)):
            rs_n += 1
            if r["verdict"] != "ok":
                raise ToolError(f"restart scenario {c}: {r.get('detail')}")
            if r["commits_of_intent_on_head"] > 1:
                bad.append((c, r))
        for path_kind in sorted({c["path"] for c, _ in bad}):
            ex = [(c, r) for c, r in bad if c["path"] == path_kind]
            key = {"raw": "restart_recommit:raw_ingest", "raw_norule": "restart_recommit:raw_ingest:no_command_rule"}.get(path_kind, f"restart_recommit:{path_kind}")
            ck.violation(key,
                         f"an intent committed before a restart is committed AGAIN on the same head when retried after the restart "
                         f"({len(ex)} scenario(s), e.g. {ex[0][0]}: retry disposition {ex[0][1]['retry'].get('disp')}, "
                         f"{ex[0][1]['commits_of_intent_on_head']} commits of the intent on the head); model counterexample: {spec_cex}",
                         {"leg": "restart", "cases": [c for c, _ in ex]})
        if spec_cex and not bad:
            ck.notes.append({"model_drift": f"Restart as modelled violates {spec_cex} but the real runtime does not re-commit"})
        ck.cov["restart_model_counterexample"] = spec_cex

    ck.cov["traces_validated_against_impl"] = total + mr_n + rs_n
    ck.cov["evaluations"] = total + mr_n + ident_n + rs_n
    ck.cov["distinct_nontrivial"] = nontrivial
    ck.cov["rule"] = ("transitions of the MC_C08 state graph (cfgs %s), each replayed from a witness path; non-trivial = the transition is a retry answered "
                      "Duplicate, a refused call, or a pass that commits at least one head; plus %d metamorphic runs in %d (intent set, policy, route) groups, "
                      "%d identity-grid rows, %d restart scenarios" % ([r[0] for r in RUNS.get(tier, [])], mr_n, mr_groups, ident_n, rs_n))
    ck.cov["exhaustive"] = replay is None
    ck.cov["model_drift_cases"] = drift
    ck.cov["transition_kinds"] = acts
    ck.assumptions += [
        "bounded universe: <=4 intents (2 kinds, one citing a causal parent), 2..3 writer heads, <=2..3 passes, <=1 policy change per behaviour; retries unbounded (self-loops)",
        "one witness path per abstract state: the implementation state reached by other paths to the same abstract state is assumed equivalent (the MR leg varies the path for the commit outcome)",
        "a head commit is abstracted to a function of the admitted set (bound by C01); all command rules are honest",
        "pending / committed membership is observed through WorldlineRuntime::ingest on scratch clones (reject-all filter via verif_set_inbox_policy for the committed ledger)",
        "ingress-id order supplied by the harness per salt; BLAKE3 collision-freeness for the hash relations",
        "restart = fresh runtime + restore_witnessed_submission_persistence + restore_causal_runtime_history (what TrustedRuntimeHost::enable_runtime_wal does); WAL byte-level recovery is C10",
    ]
    import c08l                                  # legacy graph-backed inbox of the Engine (spec/Inbox.tla)
    c08l.run_leg(ck, binp, tier, replay)
    return ck.finish()
