SPECIFICATION Spec
CONSTANTS
  Slots <- MC_Slots
  U0 <- MC_U0
  None = None
  N = 3
  Hists = {3}
  MaxLen = 2
  ForkMaxLen = 2
  Forks = {0, 1, 2}
  ForkCkpts = TRUE
  PinOffsets = {0, 1, 2}
  Roles = {"Reader", "Writer"}
  SeekBeyond = TRUE
  StepModes <- MC_StepModesAll
  Export = TRUE
INVARIANTS Inv_C07 Inv_Ckpts Inv_Replay Inv_Chain Inv_ForkPrefix Inv_Export
PROPERTIES AppendOnly
CHECK_DEADLOCK FALSE
