-------------------------------- MODULE Bus --------------------------------
(***************************************************************************)
(* The tick-scoped materialization bus.                                    *)
(*                                                                         *)
(* Transcribed from                                                        *)
(*   crates/warp-core/src/materialization/bus.rs       (emit, finalize,    *)
(*                                   finalize_channel, register_channel)   *)
(*   crates/warp-core/src/materialization/reduce_op.rs (ReduceOp::apply,   *)
(*                                   bitwise_or, bitwise_and)              *)
(*   crates/warp-core/src/materialization/emit_key.rs  (Ord for EmitKey)   *)
(*   crates/warp-core/src/materialization/channel.rs   (ChannelPolicy,     *)
(*                                   ChannelConflict)                      *)
(*                                                                         *)
(* Values.  A channel is a natural number whose numeric order IS the byte  *)
(* order of the real ChannelId (the harness picks the ids that way).  An   *)
(* emit key is a sequence of naturals compared lexicographically, which is *)
(* exactly `scope_hash.cmp().then(rule_id.cmp()).then(subkey.cmp())` when *)
(* the sequence is <<scope, rule, subkey>> (small model) or the 32 scope   *)
(* bytes followed by rule/subkey split in 16-bit halves (trace).  A payload*)
(* is a sequence of bytes 0..255.                                          *)
(*                                                                         *)
(* Two definitions of the finalize outcome live here:                      *)
(*   FinalizeReport(pol, pend) - the transcription: BTreeMap iteration in  *)
(*       key order followed by the left folds of ReduceOp::apply;          *)
(*   OracleReport(pol, E)      - declarative, defined on the emission SET  *)
(*       E (no sequence anywhere); for the commutative reducers it is      *)
(*       defined on the BAG of payloads only, i.e. it cannot see keys.     *)
(* `report = OracleReport(policies, AcceptedSet(hist))` after every        *)
(* emission order is therefore the statement that the outcome is a         *)
(* function of the emission set, and for commutative reducers of the       *)
(* payload bag alone (invariance under re-keying).                         *)
(***************************************************************************)
EXTENDS Naturals, Sequences, FiniteSets, TLC, SequencesExt, FiniteSetsExt, Bitwise

CONSTANTS Channels,      \* set of naturals
          None           \* model value

Policies    == {"Log", "StrictSingle", "Sum", "Max", "Min", "BitOr", "BitAnd", "First", "Last", "Concat"}
Commutative == {"Sum", "Max", "Min", "BitOr", "BitAnd"}          \* ReduceOp::is_commutative
Reducers    == Commutative \cup {"First", "Last", "Concat"}

VARIABLES policies,   \* registered channels -> policy (unregistered channels default to Log)
          pending,    \* channel -> (emit key -> payload); a channel is present iff it has >= 1 emission
          hist,       \* history: every emit attempt of the current tick, in arrival order, with its result
          report      \* None, or the FinalizeReport of the last finalize

busVars == <<policies, pending, hist, report>>

EmptyFn == [x \in {} |-> x]
MinOf(a, b) == IF a < b THEN a ELSE b
MaxOf(a, b) == IF a < b THEN b ELSE a

-----------------------------------------------------------------------------
(* orders *)

\* Lexicographic "less" on sequences of naturals; a proper prefix is smaller (Rust's Ord on
\* [u8] / Vec<u8>; on equal-length sequences: EmitKey's field-by-field comparison).
\* (LongestCommonPrefix, FoldLeft, FoldSet, SetToSeq, SortSeq and the Bitwise operators are evaluated
\* by TLC's Java implementations; the declarative oracle below does not use the Bitwise module.)
LexLess(a, b) ==
  LET n == Len(LongestCommonPrefix({a, b}))
  IN IF n = Len(a) THEN n < Len(b)
     ELSE IF n = Len(b) THEN FALSE
     ELSE a[n + 1] < b[n + 1]

KeyLess(a, b) == LexLess(a, b)

\* The keys of a BTreeMap in iteration order.
KeySeq(K) == SortSeq(SetToSeq(K), KeyLess)

\* ascending sequence of a finite set of naturals
NatSeq(S) == SortSeq(SetToSeq(S), LAMBDA x, y : x < y)

ConcatAll(ss) == FoldLeft(LAMBDA acc, x : acc \o x, <<>>, ss)

-----------------------------------------------------------------------------
(* bytes *)

Bit(x, j) == (x \div (2 ^ j)) % 2
ByteOf(bits) == bits[0] + 2 * bits[1] + 4 * bits[2] + 8 * bits[3] + 16 * bits[4] + 32 * bits[5] + 64 * bits[6] + 128 * bits[7]
At(v, i) == IF i <= Len(v) THEN v[i] ELSE 0           \* a.get(i).copied().unwrap_or(0)
LE32(n) == <<n % 256, (n \div 256) % 256, (n \div 65536) % 256, (n \div 16777216) % 256>>
\* forces a sequence-valued function expression into an explicit tuple (evaluation cost only)
Tup(s) == SubSeq(s, 1, Len(s))

\* Sum: each value is read as a little-endian u64 - shorter values zero-padded, longer truncated.
U64(v) == <<At(v, 1), At(v, 2), At(v, 3), At(v, 4), At(v, 5), At(v, 6), At(v, 7), At(v, 8)>>
Zero64 == <<0, 0, 0, 0, 0, 0, 0, 0>>
\* u64::wrapping_add on little-endian byte sequences (ripple carry, carry out of byte 8 dropped)
Add64(a, b) ==
  LET r == FoldLeft(LAMBDA st, i : <<Append(st[1], (a[i] + b[i] + st[2]) % 256), (a[i] + b[i] + st[2]) \div 256>>,
                    <<<<>>, 0>>, <<1, 2, 3, 4, 5, 6, 7, 8>>)
  IN r[1]

\* fn bitwise_or: length = max, shorter operand zero-padded on the right
BitwiseOr(a, b)  == Tup([i \in 1..MaxOf(Len(a), Len(b)) |-> At(a, i) | At(b, i)])
\* fn bitwise_and: length = min (truncation)
BitwiseAnd(a, b) == Tup([i \in 1..MinOf(Len(a), Len(b)) |-> a[i] & b[i]])

-----------------------------------------------------------------------------
(* ReduceOp::apply, values given in EmitKey order *)

ReduceApply(op, vals) ==
  IF Len(vals) = 0 THEN (IF op = "Sum" THEN Zero64 ELSE <<>>)
  ELSE CASE op = "Sum"    -> FoldLeft(LAMBDA acc, v : Add64(acc, U64(v)), Zero64, vals)
         \* Iterator::max keeps the later of two equal elements, min the earlier one
         [] op = "Max"    -> FoldLeft(LAMBDA acc, v : IF LexLess(v, acc) THEN acc ELSE v, vals[1], Tail(vals))
         [] op = "Min"    -> FoldLeft(LAMBDA acc, v : IF LexLess(v, acc) THEN v ELSE acc, vals[1], Tail(vals))
         [] op = "BitOr"  -> FoldLeft(BitwiseOr, vals[1], Tail(vals))
         [] op = "BitAnd" -> FoldLeft(BitwiseAnd, vals[1], Tail(vals))
         [] op = "First"  -> vals[1]
         [] op = "Last"   -> vals[Len(vals)]
         [] op = "Concat" -> ConcatAll(vals)

\* MaterializationBus::finalize_channel. f : emit key -> payload (non-empty in every reachable state).
\* Result: [ok |-> TRUE, data |-> bytes] or [ok |-> FALSE, count |-> n, kind |-> ...].
FinalizeChannel(p, f) ==
  LET vals == FoldLeft(LAMBDA acc, k : Append(acc, f[k]), <<>>, KeySeq(DOMAIN f))     \* emissions.values()
  IN CASE p = "Log" -> [ok |-> TRUE, data |-> FoldLeft(LAMBDA acc, v : acc \o LE32(Len(v)) \o v, <<>>, vals)]
       [] p = "StrictSingle" ->
            IF Len(vals) > 1 THEN [ok |-> FALSE, count |-> Len(vals), kind |-> "StrictSingleConflict"]
            ELSE [ok |-> TRUE, data |-> IF Len(vals) = 0 THEN <<>> ELSE vals[1]]
       [] OTHER -> [ok |-> TRUE, data |-> ReduceApply(p, vals)]

PolicyOf(pol, ch) == IF ch \in DOMAIN pol THEN pol[ch] ELSE "Log"      \* unwrap_or_default()

\* MaterializationBus::finalize: channels in ChannelId order, partitioned into successes and errors.
FinalizeReport(pol, pend) ==
  FoldLeft(LAMBDA rep, c :
             LET r == FinalizeChannel(PolicyOf(pol, c), pend[c])
             IN IF r.ok THEN [rep EXCEPT !.channels = Append(@, [ch |-> c, data |-> r.data])]
                ELSE [rep EXCEPT !.errors = Append(@, [ch |-> c, count |-> r.count, kind |-> r.kind])],
           [channels |-> <<>>, errors |-> <<>>], NatSeq(DOMAIN pend))

-----------------------------------------------------------------------------
(* actions *)

BusInit == /\ policies = EmptyFn
           /\ pending = EmptyFn
           /\ hist = <<>>
           /\ report = None

\* MaterializationBus::register_channel
Register(ch, p) ==
  /\ policies' = [c \in DOMAIN policies \cup {ch} |-> IF c = ch THEN p ELSE policies[c]]
  /\ UNCHANGED <<pending, hist, report>>

IsDuplicate(pend, ch, key) == ch \in DOMAIN pend /\ key \in DOMAIN pend[ch]

\* MaterializationBus::emit.  Entry::Vacant => insert, Ok(());  Entry::Occupied => Err(DuplicateEmission)
\* and the stored payload is NOT touched: the first arrival stays, nothing is merged, the channel
\* keeps collecting other keys afterwards.
Emit(ch, key, data) ==
  LET dup == IsDuplicate(pending, ch, key)
      old == IF ch \in DOMAIN pending THEN pending[ch] ELSE EmptyFn
  IN /\ pending' = IF dup THEN pending
                   ELSE [c \in DOMAIN pending \cup {ch} |->
                           IF c = ch THEN [k \in DOMAIN old \cup {key} |-> IF k = key THEN data ELSE old[k]]
                           ELSE pending[c]]
     /\ hist' = Append(hist, [ch |-> ch, key |-> key, data |-> data, ok |-> ~dup])
     /\ UNCHANGED <<policies, report>>

\* MaterializationBus::finalize (clears pending)
Finalize ==
  /\ report' = FinalizeReport(policies, pending)
  /\ pending' = EmptyFn
  /\ UNCHANGED <<policies, hist>>

\* MaterializationBus::clear (abort path)
Clear ==
  /\ pending' = EmptyFn
  /\ hist' = <<>>
  /\ UNCHANGED <<policies, report>>

-----------------------------------------------------------------------------
(* the order-free oracle *)

\* What a history leaves behind, as a SET of emissions: for every (channel, key) the first arrival.
\* For a history without repeated (channel, key) this is just the set of its emissions.
AcceptedSet(h) ==
  {[ch |-> h[i].ch, key |-> h[i].key, data |-> h[i].data] :
      i \in {n \in 1..Len(h) : \A m \in 1..(n - 1) : ~(h[m].ch = h[n].ch /\ h[m].key = h[n].key)}}

HasRepeat(h) == \E i, j \in 1..Len(h) : i < j /\ h[i].ch = h[j].ch /\ h[i].key = h[j].key

SumNat(S, F(_)) == FoldSet(LAMBDA x, acc : acc + F(x), 0, S)

\* Bag of payloads of a set of emissions of one channel: payload -> multiplicity. Keys are gone.
PayloadBag(Ec) == [d \in {e.data : e \in Ec} |-> Cardinality({e \in Ec : e.data = d})]

\* Commutative reducers on a bag B (non-empty).
OracleCommutative(op, B) ==
  LET D == DOMAIN B
  IN CASE op = "Sum" ->
            \* column sums with multiplicity, then one carry propagation
            LET col == Tup([i \in 1..8 |-> SumNat(D, LAMBDA d : B[d] * At(d, i))])
                r   == FoldLeft(LAMBDA st, c : <<Append(st[1], (c + st[2]) % 256), (c + st[2]) \div 256>>, <<<<>>, 0>>, col)
            IN r[1]
       [] op = "Max"    -> CHOOSE m \in D : \A d \in D : ~LexLess(m, d)
       [] op = "Min"    -> CHOOSE m \in D : \A d \in D : ~LexLess(d, m)
       [] op = "BitOr"  ->
            LET n == CHOOSE k \in {Len(d) : d \in D} : \A d \in D : Len(d) <= k
            IN Tup([i \in 1..n |-> ByteOf([j \in 0..7 |-> IF \E d \in D : Bit(At(d, i), j) = 1 THEN 1 ELSE 0])])
       [] op = "BitAnd" ->
            LET n == CHOOSE k \in {Len(d) : d \in D} : \A d \in D : Len(d) >= k
            IN Tup([i \in 1..n |-> ByteOf([j \in 0..7 |-> IF \A d \in D : Bit(d[i], j) = 1 THEN 1 ELSE 0])])

\* Key-ordered concatenation without building a sorted sequence: smallest key first, then the rest.
ConcatByKey(Ec, Enc(_)) ==
  LET f[T \in SUBSET Ec] ==
        IF T = {} THEN <<>>
        ELSE LET lo == CHOOSE e \in T : \A o \in T : ~KeyLess(o.key, e.key)
             IN Enc(lo.data) \o f[T \ {lo}]
  IN f[Ec]

\* One channel, from the set Ec of its emissions (distinct keys, non-empty).
OracleChannel(p, Ec) ==
  CASE p \in Commutative -> [ok |-> TRUE, data |-> OracleCommutative(p, PayloadBag(Ec))]
    [] p = "First"  -> [ok |-> TRUE, data |-> (CHOOSE e \in Ec : \A o \in Ec : ~KeyLess(o.key, e.key)).data]
    [] p = "Last"   -> [ok |-> TRUE, data |-> (CHOOSE e \in Ec : \A o \in Ec : ~KeyLess(e.key, o.key)).data]
    [] p = "Concat" -> [ok |-> TRUE, data |-> ConcatByKey(Ec, LAMBDA d : d)]
    [] p = "Log"    -> [ok |-> TRUE, data |-> ConcatByKey(Ec, LAMBDA d : LE32(Len(d)) \o d)]
    [] p = "StrictSingle" ->
         IF Cardinality(Ec) > 1 THEN [ok |-> FALSE, count |-> Cardinality(Ec), kind |-> "StrictSingleConflict"]
         ELSE [ok |-> TRUE, data |-> (CHOOSE e \in Ec : TRUE).data]

OracleReport(pol, E) ==
  LET R   == [c \in {e.ch : e \in E} |-> OracleChannel(PolicyOf(pol, c), {e \in E : e.ch = c})]
      okC == NatSeq({c \in DOMAIN R : R[c].ok})
      erC == NatSeq({c \in DOMAIN R : ~R[c].ok})
  IN [channels |-> Tup([j \in 1..Len(okC) |-> [ch |-> okC[j], data |-> R[okC[j]].data]]),
      errors   |-> Tup([j \in 1..Len(erC) |-> [ch |-> erC[j], count |-> R[erC[j]].count, kind |-> R[erC[j]].kind]])]

\* pending as a set of emissions
PendingSet(pend) == UNION {{[ch |-> c, key |-> k, data |-> pend[c][k]] : k \in DOMAIN pend[c]} : c \in DOMAIN pend}

-----------------------------------------------------------------------------
(* properties *)

TypeOK ==
  /\ DOMAIN policies \subseteq Channels
  /\ \A c \in DOMAIN policies : policies[c] \in Policies
  /\ DOMAIN pending \subseteq Channels
  /\ \A c \in DOMAIN pending : DOMAIN pending[c] # {}           \* no empty channel entry

\* (1) what the bus holds is determined by the SET of accepted emissions, whatever the arrival order
Inv_PendingIsSet == report = None => PendingSet(pending) = AcceptedSet(hist)

\* (2) an emit is rejected iff its (channel, key) was seen before in this tick
Inv_DuplicateRejected ==
  \A n \in 1..Len(hist) :
     hist[n].ok = ~(\E m \in 1..(n - 1) : hist[m].ch = hist[n].ch /\ hist[m].key = hist[n].key)

\* (3) the finalize outcome is the order-free oracle's outcome for that set
\*     (for commutative reducers the oracle only sees the payload bag: re-keying invariance)
Inv_FinalizeIsOracle == report # None => report = OracleReport(policies, AcceptedSet(hist))

\* (3') the same, evaluated before Finalize fires (every state is a possible finalize point)
Inv_FinalizeNowIsOracle == report = None => FinalizeReport(policies, pending) = OracleReport(policies, AcceptedSet(hist))

\* (4) channels and errors partition the channels that had emissions
Inv_ReportPartition ==
  report # None =>
     LET okS == {report.channels[i].ch : i \in 1..Len(report.channels)}
         erS == {report.errors[i].ch : i \in 1..Len(report.errors)}
     IN /\ okS \cap erS = {}
        /\ okS \cup erS = {e.ch : e \in AcceptedSet(hist)}
        /\ Cardinality(okS) = Len(report.channels) /\ Cardinality(erS) = Len(report.errors)

\* (5) direct form of re-keying invariance: for a commutative reducer every assignment of the same
\*     payloads to the same keys gives the same bytes (small scopes only - factorial)
RekeyDirect ==
  \A c \in DOMAIN pending :
     PolicyOf(policies, c) \in Commutative =>
        LET vals == FoldLeft(LAMBDA acc, k : Append(acc, pending[c][k]), <<>>, KeySeq(DOMAIN pending[c]))
            base == ReduceApply(PolicyOf(policies, c), vals)
        IN \A pi \in Permutations(1..Len(vals)) :
              ReduceApply(PolicyOf(policies, c), Tup([i \in 1..Len(vals) |-> vals[pi[i]]])) = base

\* (6) action property: a rejected emit leaves the bus exactly as it was (not merged, not replaced)
RejectedEmitChangesNothing ==
  [][(Len(hist') = Len(hist) + 1 /\ ~hist'[Len(hist')].ok) => pending' = pending]_busVars

\* (7) action property: an accepted emit adds exactly its own entry
AcceptedEmitAddsOne ==
  [][(Len(hist') = Len(hist) + 1 /\ hist'[Len(hist')].ok) =>
        PendingSet(pending') = PendingSet(pending) \cup
           {[ch |-> hist'[Len(hist')].ch, key |-> hist'[Len(hist')].key, data |-> hist'[Len(hist')].data]}]_busVars
=============================================================================
