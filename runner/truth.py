"""C18, truth leg - the materialization bus inside a committed tick, and what later replays it.

MC : MC_TruthBus.tla over TruthBus.tla (which EXTENDS Bus.tla: Emit, FinalizeReport, the reducers and the order-free
     OracleReport are Bus's own).  life cfgs - ALL interleavings of begin / emit (repeats of a (channel, key) included) /
     commit / abort / commit of a dead TxId on an engine-owned bus; play cfgs - a scripted history (some scripts with an
     aborted transaction in between), then ALL interleavings of subscribe / unsubscribe / set_active_cursor / seek / step /
     publish_truth / clear_session / clear.  State invariants TTypeOK, BusIsTickScoped, DuplicateRejected, NoLeakIntoTick,
     TickIsFunctionOfSet (Bus's oracle lifted to the tick), TickPartition, CommitKeyAsBuilt, LastMatSound, SinkSound;
     transition laws HistoryImmutable, OnlyCommitAddsTick, AbortLeavesNothing, RejectedEmitKeepsBus, PublishExact,
     SessionIsolation, OnlySubscribedAppear, SubsPersist, PlaybackIsReadOnly.  thorough: the model mutants (abort keeps the
     bus, finalize reports channels in arrival order, publish reads entry(t) instead of entry(t-1), publish ignores the
     subscriptions) must each be REJECTED by TLC.
RP : EVERY transition of the explored state graph is exported with a witness path and replayed from scratch on a real
     Engine + MaterializationBus, a real ProvenanceService fed with the engine's own commits, real PlaybackCursors,
     ViewSessions and a TruthSink.  The harness decides the laws on the real outcome after every call (see
     harness/src/truth.rs); when the last call is a commit it re-runs the life part on twin engines (arrival order reversed /
     rotated, Legacy scheduler, 4 workers, aborted transactions and failed commits left out) and demands bit-identical ticks.
     Differences from the model's prediction that keep the laws are drift (evidence note), never a violation.
MR : decided here over all replayed paths: (policies, emitted SET) -> emissions digest is a function; finalized channels
     <-> emissions digest is one-to-one; tick index <-> engine commit id is one-to-one (as built the commit id does not
     depend on emissions or conflicts); sequence of digest keys <-> compute_tick_commit_hash_v2 chain is one-to-one.
Probes: the runtime commit path (commit_with_state through super_tick) with a host emission waiting on the engine's bus,
     and emissions made outside a transaction - facts recorded in evidence; only a recorded/live mismatch or a runtime
     commit that clobbers the engine's own last_materialization is a violation.
"""
import concurrent.futures
import json
import os

from lib import *

RUNS = {
    "quick": ["MC_TruthBus_quick_life.cfg", "MC_TruthBus_quick_play.cfg"],
    "thorough": ["MC_TruthBus_quick_life.cfg", "MC_TruthBus_quick_play.cfg", "MC_TruthBus_thorough_life.cfg",
                 "MC_TruthBus_thorough_pol.cfg", "MC_TruthBus_thorough_perm.cfg", "MC_TruthBus_thorough_play.cfg"],
}
# (cfg, what the model mutant does)
MODEL_MUTANTS = [("MC_TruthBus_mut_abort.cfg", "abort does not clear the bus"),
                 ("MC_TruthBus_mut_arrival.cfg", "finalize reports channels in arrival order"),
                 ("MC_TruthBus_mut_pubindex.cfg", "publish reads entry(t) instead of entry(t-1)"),
                 ("MC_TruthBus_mut_puball.cfg", "publish ignores the subscriptions")]
P = "truth:"
TLC_PAR = 2          # cfgs model-checked concurrently, 4 TLC workers each (never more than 8 in total)


def canon(o):
    return json.dumps(o, sort_keys=True, separators=(",", ":"))


def canon_set(emitted):
    return canon(sorted(canon(e) for e in emitted))


class Relation:
    """key -> real hash must be a function (and, if `injective`, one-to-one)."""

    def __init__(self, name, injective):
        self.name, self.injective = name, injective
        self.fwd, self.bwd, self.members = {}, {}, {}

    def add(self, key, real, witness):
        self.members[key] = self.members.get(key, 0) + 1
        self.fwd.setdefault(key, {}).setdefault(real, witness)
        if self.injective:
            self.bwd.setdefault(real, {}).setdefault(key, witness)

    def violations(self):
        for key, reals in self.fwd.items():
            if len(reals) > 1:
                yield ("not_a_function", key, list(reals.items())[:2])
        for real, keys in self.bwd.items():
            if len(keys) > 1:
                yield ("collision", real, list(keys.items())[:2])


def run_probe(ck, binp):
    outp = os.path.join(WORK, "truth_probe.results")
    harness(binp, ["truth", "probe", outp], timeout=600)
    facts = {}
    for r in read_ndjson(outp):
        name = r.pop("probe", "?")
        if "error" in r:
            if ck.violations:          # the code under test is already known to break a law; the probe failing is a consequence
                ck.notes.append({"truth_probe_failed": name, "error": r["error"][:300]})
                continue
            raise ToolError(f"truth probe {name}: {r['error']}")
        facts[name] = r
    fc = facts.get("failed_commit", {})
    if fc.get("failed_tx_emission_leaks_into_next_tick"):
        ck.notes.append({"truth_observation": "a commit that fails after the transaction emitted (rule executor panics) leaves the emissions on the bus; "
                                              "begin + commit of the NEXT transaction without an abort in between finalizes them into that tick "
                                              "(not an order-dependence, hence not a C18 violation)", "probe": fc})
    ot = facts.get("outside_tx", {})
    if ot.get("abort_of_unknown_tx_wipes_open_tx_emissions"):
        ck.notes.append({"truth_observation": "Engine::abort(tx) clears the bus and last_materialization whatever tx is, also for a TxId that is not live: "
                                              "the open transaction loses its emissions and still commits", "probe": ot})
    rt = facts.get("runtime_commit")
    slim = {"leg": "truth_probe"}
    if rt is None:
        return facts
    if rt.get("step_records") != 1:
        raise ToolError(f"truth probe: the runtime tick did not commit: {rt}")
    if not rt.get("recorded_equals_live"):
        ck.violation(P + "runtime_recorded_outputs_differ_from_live",
                     f"after a runtime tick entry.outputs != the worldline's last_materialization: {rt}", slim)
    if not rt.get("engine_own_outputs_before", 1):
        ck.notes.append({"truth_probe_inconclusive": "the plain engine tick before the runtime tick finalized no output, so the save/restore of the "
                                                     "engine's own last_materialization around commit_with_state was not observable", "probe": rt})
    if not rt.get("engine_own_last_materialization_preserved"):
        ck.violation(P + "runtime_commit_clobbers_engine_last_materialization",
                     f"a runtime commit (commit_with_state) changed the engine's own last_materialization: {rt}", slim)
    if not rt.get("bus_empty_after_runtime_commit"):
        ck.violation(P + "runtime_commit_leaves_bus", f"emissions are on the engine's bus after a runtime commit: {rt}", slim)
    if rt.get("entry_outputs"):
        ck.notes.append({"truth_drift": "a host emission placed on the engine's bus before super_tick now reaches entry.outputs "
                                        "(as transcribed, RuntimeCommitStateGuard::enter clears the bus)", "probe": rt})
    return facts


def one_tlc(cfg, timeout, export=True):
    """Model-checks one cfg; the CASE lines stay in the TLC output file (they are streamed to the harness, never parsed here)."""
    res = tlc("MC_TruthBus", cfg, workers=4, timeout=timeout, tags=(), out_name="truth_" + cfg.replace(".cfg", ""), heap="6g")
    if export and not res.violation:
        res.cases_path = os.path.join(WORK, "truth_" + cfg.replace(".cfg", "") + ".cases")
        res.n_cases = extract_cases(res.stdout_path, res.cases_path)
        if os.path.getsize(res.stdout_path) > 200 << 20:        # the thorough cfgs print 0.3 - 1.4 GB; the cases file is kept
            os.remove(res.stdout_path)
    return res


def extract_cases(tlc_out, dest):
    n = 0
    pre = '<<"CASE", '
    with open(tlc_out) as f, open(dest, "w") as o:
        for line in f:
            if line.startswith(pre):
                try:
                    o.write(json.loads(line.rstrip()[len(pre):-2]))
                except Exception:
                    raise ToolError(f"cannot decode TLC print line: {line[:200]}")
                o.write("\n")
                n += 1
    return n


def load_case(path, idx):
    with open(path) as f:
        for i, ln in enumerate(f):
            if i == idx:
                return json.loads(ln)
    raise ToolError("dangling case reference")


def run_leg(ck, binp, tier, replay=None):
    runs = []
    rejected = {}
    probe = None
    if replay:
        obj = json.load(open(replay))["case"]
        leg = str(obj.get("leg", ""))
        if not leg.startswith("truth"):
            return
        if leg == "truth_spec":
            res = one_tlc(obj["cfg"], 7200)
            if res.violation:
                ck.violation(f"{P}spec:{obj['cfg']}:{res.violation}", res.error_text[:3000], obj)
            return
        if leg == "truth_probe":
            run_probe(ck, binp)
            return
        runs.append((obj.get("cfg", "replay"), write_ndjson(os.path.join(WORK, "truth_replay.cases"), obj["cases"])))
    else:
        only = os.environ.get("VERIF_TRUTH_ONLY")            # debugging aid: run the cfgs whose name contains this
        cfgs = [c for c in RUNS[tier] if not only or only in c]
        with concurrent.futures.ThreadPoolExecutor(max_workers=TLC_PAR) as ex:
            results = list(ex.map(lambda c: one_tlc(c, 3600), cfgs))
        for cfg, res in zip(cfgs, results):
            ck.add_tlc(res)
            if res.violation:
                ck.violation(f"{P}spec:{cfg}:{res.violation}", "TLC invariant / transition law violated on the truth model:\n" + res.error_text[:3000],
                             {"leg": "truth_spec", "cfg": cfg, "invariant": res.violation, "trace": res.error_text[:20000]})
                continue
            if not res.n_cases:
                raise ToolError(f"{cfg}: nothing exported")
            runs.append((cfg, res.cases_path))
        if tier == "thorough" and not only:
            with concurrent.futures.ThreadPoolExecutor(max_workers=TLC_PAR) as ex:
                results = list(ex.map(lambda m: one_tlc(m[0], 1800, export=False), MODEL_MUTANTS))
            for (cfg, what), res in zip(MODEL_MUTANTS, results):
                if not res.violation:
                    raise ToolError(f"the model mutant '{what}' ({cfg}) satisfies every invariant of TruthBus.tla: the properties are vacuous")
                rejected[what] = res.violation

    total = drift = 0
    stats = {}
    seen_keys = {}
    last_ops = {}
    digests = set()
    rels = {"set": Relation("emissions_digest(policies, emitted set)", False),
            "chan": Relation("emissions_digest(finalized channels)", True),
            "commit": Relation("commit_id(tick index)", True),
            "tcommit": Relation("tick_commit_hash_v2(digest chain)", True)}
    for cfg, cin in runs:
        tag = "truth_" + cfg.replace(".cfg", "")
        cout = os.path.join(WORK, f"{tag}.results")
        harness(binp, ["truth", cin, cout], timeout=7200)
        n_here = 0
        with open(cout) as f:
            for idx, line in enumerate(f):
                r = json.loads(line)
                total += 1
                n_here += 1
                if r["verdict"] == "tool_error":
                    raise ToolError(f"truth harness: {r.get('detail')} (path {json.dumps(load_case(cin, idx).get('path'))[:600]})")
                if r["verdict"] == "violation":
                    key = f"{P}{r['kind']}"
                    seen_keys[key] = seen_keys.get(key, 0) + 1
                    if seen_keys[key] <= 2:
                        c = load_case(cin, idx)
                        ck.violation(key, f"step {r.get('step')} {json.dumps(r.get('op'))} of {json.dumps([o.get('a') for o in c['path']])}: {r.get('detail')}"[:3000],
                                     {"leg": "truth", "cfg": cfg, "cases": [c]})
                    continue
                if r.get("drift"):
                    drift += 1
                    if sum(1 for n in ck.notes if isinstance(n, dict) and "truth_model_drift" in n) < 4:
                        ck.notes.append({"truth_model_drift": r["drift"][:3], "path": load_case(cin, idx)["path"]})
                for k, v in r["stats"].items():
                    stats[k] = stats.get(k, 0) + v
                a = r["last"] + ("/" + r["res"] if r["res"] != "ok" else "")
                last_ops[a] = last_ops.get(a, 0) + 1
                if len(r["mticks"]) != len(r["ticks"]):
                    continue            # reported as drift by the harness
                wit = (cin, idx)
                chain = []
                for m, real in zip(r["mticks"], r["ticks"]):
                    digests.add(real["digest"])
                    rels["set"].add(r["pol"] + "|" + m["set"], real["digest"], wit)
                    rels["chan"].add(m["channels"], real["digest"], wit)
                    rels["commit"].add(str(m["ckey"]), real["commit"], wit)
                    chain.append(m["channels"])
                    rels["tcommit"].add("|".join(chain), real["tcommit"], wit)
        if n_here:
            mid = load_case(cin, n_here // 2)
            ck.sample({"truth_cfg": cfg, "path": mid["path"], "predicted": {k: mid["pred"][k] for k in ("lm", "frames", "receipt")}}, limit=6)

    if not replay:
        probe = run_probe(ck, binp)          # after the replay: a probe that cannot run on broken code must not mask the breach

    groups = 0
    for name, rel in rels.items():
        groups += len(rel.fwd)
        for what, k, ws in rel.violations():
            cases = [load_case(*w) for _, w in ws]
            paths = [json.dumps(c["path"])[:500] for c in cases]
            if what == "not_a_function":
                key = {"set": "digest_not_a_function_of_emitted_set", "chan": "digest_not_a_function_of_finalized_channels",
                       "commit": "commit_id_differs_at_equal_tick_index", "tcommit": "tick_commit_hash_not_a_function_of_digest_chain"}[name]
                ck.violation(f"{P}mr:{key}",
                             f"same abstract key, different {rel.name}: key {k[:400]}; {ws[0][0][:16]} via {paths[0]} vs {ws[1][0][:16]} via {paths[1]}",
                             {"leg": "truth", "relation": rel.name, "key": k, "cfg": "replay", "cases": cases})
            else:
                ck.violation(f"{P}mr:{name}_collision", f"different abstract keys share {rel.name} {k[:16]}: {ws[0][0][:300]} vs {ws[1][0][:300]}",
                             {"leg": "truth", "relation": rel.name, "hash": k, "cfg": "replay", "cases": cases})

    if not replay and not seen_keys and not ck.violations and not os.environ.get("VERIF_TRUTH_ONLY"):
        for need in ("commits", "aborts_with_emissions", "failed_commits", "dups", "conflicts", "publishes", "frames", "twins", "seeks"):
            if not stats.get(need):
                raise ToolError(f"truth: vacuous replay, {need} = 0: {stats}")
        for need in ("begin", "emit", "emit/dup", "commit", "abort", "badcommit/unknown_tx", "sub", "unsub", "setcur", "seek", "step",
                     "publish", "publish/nothing", "clearsession", "clear"):
            if not last_ops.get(need):
                raise ToolError(f"truth: no exported transition ends with {need}: {last_ops}")
        if len(digests) < 4:
            raise ToolError(f"truth: only {len(digests)} distinct emissions digests")

    for _, cin in runs:                       # the thorough cfgs leave 0.3 - 1.4 GB each; replay files carry their own cases
        for path in (cin, cin.replace(".cases", ".results")):
            if os.path.exists(path) and os.path.getsize(path) > 200 << 20:
                os.remove(path)

    ck.cov["traces_validated_against_impl"] += total
    ck.cov["evaluations"] += total
    ck.cov["rule"] += ("; truth leg: %d cases = one per transition of the MC_TruthBus state graphs (cfgs %s), each replayed from a witness path on a real "
                       "Engine / ProvenanceService / PlaybackCursor / ViewSession / TruthSink; %d twin-engine runs" % (total, [r[0] for r in runs], stats.get("twins", 0)))
    ck.cov["truth"] = {"behaviours": total, "ticks": stats.get("commits", 0), "aborted_txs": stats.get("aborts", 0),
                       "aborted_txs_with_emissions": stats.get("aborts_with_emissions", 0), "failed_commits": stats.get("failed_commits", 0),
                       "emissions": stats.get("emits", 0), "rejected_repeats": stats.get("dups", 0), "conflicts": stats.get("conflicts", 0),
                       "publishes": stats.get("publishes", 0), "frames": stats.get("frames", 0), "cursor_moves": stats.get("seeks", 0),
                       "twin_engine_runs": stats.get("twins", 0), "distinct_digests": len(digests), "drift": drift,
                       "transitions_by_last_call": last_ops, "mr_groups": groups, "probes": probe, "model_mutants_rejected_by": rejected}
    ck.assumptions += [
        "truth leg: 2 channels (one strict-single so that conflicts arise, one reducer / log), 2-3 emit keys, payloads of length 0, 1, 2; <= 2 committed ticks "
        "(3 thorough) + 1 aborted transaction + 1 failed commit, <= 2-3 emit attempts per transaction; 2 sessions, 2 cursors, <= 5-6 playback calls; one "
        "transaction at a time and the host emits only inside it (an emission made outside a transaction joins the next tick, and abort of ANY TxId wipes the "
        "bus - recorded by the probe)",
        "truth leg: ticks have no graph effect (no rules registered), so the engine commit id varies with the parent chain only; the provenance entries replayed "
        "by the cursors are built by the harness from the engine's own commits the way SchedulerCoordinator::super_tick builds them, because a runtime tick "
        "cannot carry outputs: commit_with_state clears the bus on entry and rule executors have no access to it (probe: entry.outputs is empty)",
        "truth leg: one witness path per abstract state (VIEW hides the path; in the life cfgs also the older ticks and the arrival order, which the twin "
        "engines and the perm cfg vary instead); seek/step are abstracted to the tick (C07 covers the materialized state)",
    ]
