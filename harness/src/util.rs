//! Shared I/O helpers: ndjson in, ndjson out, panic capture.

use std::fs::File;
use std::io::{BufRead, BufReader, BufWriter, Write};

use serde_json::Value;

pub fn read_lines(path: &str) -> impl Iterator<Item = (usize, Value)> {
    let f = File::open(path).unwrap_or_else(|e| {
        eprintln!("cannot open {path}: {e}");
        std::process::exit(2)
    });
    BufReader::new(f).lines().enumerate().filter_map(|(i, l)| {
        let l = l.ok()?;
        let t = l.trim();
        if t.is_empty() {
            return None;
        }
        match serde_json::from_str::<Value>(t) {
            Ok(v) => Some((i, v)),
            Err(e) => {
                eprintln!("bad json at line {}: {e}", i + 1);
                std::process::exit(2)
            }
        }
    })
}

pub struct Out {
    w: BufWriter<File>,
}

impl Out {
    pub fn create(path: &str) -> Self {
        let f = File::create(path).unwrap_or_else(|e| {
            eprintln!("cannot create {path}: {e}");
            std::process::exit(2)
        });
        Self { w: BufWriter::new(f) }
    }
    pub fn line(&mut self, v: &Value) {
        let _ = writeln!(self.w, "{v}");
    }
    pub fn finish(mut self) {
        let _ = self.w.flush();
    }
}

pub fn hex32(h: &[u8; 32]) -> String {
    hex::encode(h)
}

/// Runs `f`, turning a panic into `Err(message)`. Panics in code under test are data.
pub fn catch<T>(f: impl FnOnce() -> T) -> Result<T, String> {
    let prev = std::panic::take_hook();
    std::panic::set_hook(Box::new(|_| {}));
    let r = std::panic::catch_unwind(std::panic::AssertUnwindSafe(f));
    std::panic::set_hook(prev);
    r.map_err(|p| panic_message(&p))
}

pub fn panic_message(p: &Box<dyn std::any::Any + Send>) -> String {
    if let Some(s) = p.downcast_ref::<&str>() {
        (*s).to_string()
    } else if let Some(s) = p.downcast_ref::<String>() {
        s.clone()
    } else if let Some(v) = p.downcast_ref::<warp_core::FootprintViolation>() {
        format!("FootprintViolation:{:?}:{}", v.kind, v.op_kind)
    } else if let Some(v) = p.downcast_ref::<warp_core::FootprintViolationWithPanic>() {
        format!("FootprintViolationWithPanic:{:?}:{}", v.violation.kind, v.violation.op_kind)
    } else {
        "non-string panic".to_string()
    }
}
