SPECIFICATION Spec
CONSTANTS
  Slots <- MC_Slots
  U0 <- MC_U0
  None = None
  N = 4
  Hists = {2}
  MaxLen = 3
  ForkMaxLen = 3
  Forks = {0, 1, 2, 3}
  ForkCkpts = FALSE
  PinOffsets = {1}
  Roles = {"Reader"}
  SeekBeyond = TRUE
  StepModes <- MC_StepModesQuick
  Export = TRUE
INVARIANTS Inv_C07 Inv_Ckpts Inv_Replay Inv_Chain Inv_ForkPrefix Inv_Export
PROPERTIES AppendOnly
CHECK_DEADLOCK FALSE
