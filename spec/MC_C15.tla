------------------------------ MODULE MC_C15 ------------------------------
(***************************************************************************)
(* C15 bounded model: every interleaving of parent ticks and strand ticks  *)
(* after a fork at every tick of the parent, over a pool of programs with  *)
(* disjoint / read-overlapping / write-overlapping footprints, then        *)
(* compare + plan + settle under both plural policies with a failure       *)
(* injected at every settlement step; optionally a second strand (sibling  *)
(* of the first or chained onto it) with a support pin, and re-settlement. *)
(* Every complete behaviour (with the model's prediction after each step)  *)
(* is exported and replayed into the real runtime by harness/src/c15.rs.   *)
(***************************************************************************)
EXTENDS Strands, Json

CONSTANTS MaxPre,       \* parent ticks before the first fork (>= 1)
          MaxPPost,     \* parent entries after the first strand's anchor (ticks; settlement entries not counted)
          MaxSTicks,    \* ticks per strand
          MaxSTicks2,   \* ticks per strand in behaviours whose parent prefix has more than one tick (fork positions)
          MaxStrands,   \* 1 or 2
          MaxSettles,   \* settle calls per behaviour
          MaxTotal,     \* ticks (parent + strands) after the first fork
          PrePool, Pre2Pool, PPool, SPool,   \* program indices: first tick / later pre-fork ticks / parent ticks / strand ticks
          SecondSrc,    \* source lanes allowed for the second strand, subset of {"P", "A"}
          SecondForkTip,\* TRUE: the second strand forks at the tip of its source only
          PinLastOnly,  \* TRUE: support pins at the target's latest tick (and one past it, refused) only
          Export

VARIABLES trace,        \* the behaviour so far (one record per public call, with the predicted outcome)
          ctl           \* exploration bookkeeping
vars == <<wls, heads, reg, shells, gtick, plan, stl, last, trace, ctl>>

Pr(k, a, b, v) == [k |-> k, a |-> a, b |-> b, v |-> v]
MC_Prog == <<
  Pr("set",  "n1", "n1", "p0"),    \* 1
  Pr("set",  "n1", "n1", "p1"),    \* 2
  Pr("set",  "n2", "n2", "p0"),    \* 3
  Pr("set",  "n3", "n3", "p1"),    \* 4
  Pr("copy", "n1", "n2", "none"),  \* 5  n2 := n1
  Pr("copy", "n2", "n3", "none"),  \* 6  n3 := n2
  Pr("read", "n1", "n1", "none"),  \* 7
  Pr("del",  "n4", "n4", "none"),  \* 8
  Pr("mk",   "n4", "n4", "tB"),    \* 9
  Pr("set",  "n2", "n2", "p1"),    \* 10
  Pr("copy", "n3", "n1", "none"),  \* 11 n1 := n3
  Pr("set",  "n3", "n3", "p0")     \* 12
>>

SetJson(S) == S
DeltaJson(d) == {[s |-> s, v |-> d[s]] : s \in DOMAIN d}
Snap(w) == [vals |-> [x \in DOMAIN w |-> w[x].val], lens |-> [x \in DOMAIN w |-> Len(w[x].hist)]]
DecJson(d) == [kind |-> d.kind, reason |-> d.reason, reval |-> d.reval, eo |-> d.eo, t |-> d.t, lawful |-> d.lawful, sim |-> d.sim]
PlanJson(pl) ==
  [basis |-> pl.basis.kind, overlap |-> pl.basis.overlap, reads |-> pl.basis.reads, writes |-> pl.basis.writes,
   moved |-> pl.basis.moved, suffixStart |-> pl.basis.suffixStart, suffixLen |-> pl.basis.suffixLen,
   target |-> pl.target, dec |-> [i \in 1..Len(pl.dec) |-> DecJson(pl.dec[i])]]
Kinds(pl) == [i \in 1..Len(pl.dec) |-> pl.dec[i].kind]

Init ==
  /\ SInit
  /\ trace = <<>>
  /\ ctl = [stage |-> "pre", pre |-> 0, ppost |-> 0, total |-> 0, st |-> [w \in {"A", "B"} |-> 0], settles |-> 0, pinned |-> FALSE,
            pend |-> <<>>]

TickRec(w, pi) ==
  LET e == wls'[w].hist[Len(wls'[w].hist)]
  IN [op |-> "tick", w |-> w, pi |-> pi, ins |-> e.in, outs |-> e.out, delta |-> DeltaJson(e.delta)] @@ Snap(wls')

MCPre(pi) ==
  /\ ctl.stage = "pre" /\ Len(wls["P"].hist) < MaxPre
  /\ pi \in (IF Len(wls["P"].hist) = 0 THEN PrePool ELSE Pre2Pool)
  /\ Tick("P", pi)
  /\ trace' = Append(trace, TickRec("P", pi))
  /\ UNCHANGED ctl

\* before every fork the harness submits the requests the code must refuse (and roll back)
MCRefuse ==
  /\ ctl.stage \in {"pre", "run"} /\ Cardinality(DOMAIN reg) < MaxStrands /\ Len(wls["P"].hist) >= 1
  /\ ForkRefused("all")
  /\ trace' = Append(trace, [op |-> "fork_refused"] @@ Snap(wls'))
  /\ ctl' = [ctl EXCEPT !.stage = "refused"]

MCFork(src, t) ==
  /\ ctl.stage = "refused"
  /\ LET first == DOMAIN reg = {}
         sid == IF first THEN "sA" ELSE "sB"
         child == IF first THEN "A" ELSE "B"
     IN /\ (first => src = "P") /\ (~first => src \in SecondSrc)
        /\ Fork(sid, src, t, child)
        /\ trace' = Append(trace, [op |-> "fork", sid |-> sid, src |-> src, t |-> t, child |-> child,
                                   basis |-> reg'[sid].basis, childLen |-> t + 1] @@ Snap(wls'))
        /\ ctl' = [ctl EXCEPT !.stage = "run",
                              !.pre = IF first THEN Len(wls["P"].hist) ELSE @,
                              !.ppost = IF first THEN Len(wls["P"].hist) - (t + 1) ELSE @]

MCPTick(pi) ==
  /\ ctl.stage = "run" /\ ctl.ppost < MaxPPost /\ ctl.total < MaxTotal /\ pi \in PPool
  /\ Tick("P", pi)
  /\ trace' = Append(trace, TickRec("P", pi))
  /\ ctl' = [ctl EXCEPT !.ppost = @ + 1, !.total = @ + 1]

MCSTick(w, pi) ==
  /\ ctl.stage = "run" /\ w \in DOMAIN wls \ {"P"} /\ pi \in SPool /\ ctl.total < MaxTotal
  /\ ctl.st[w] < (IF ctl.pre > 1 THEN MaxSTicks2 ELSE MaxSTicks)
  /\ Tick(w, pi)
  /\ trace' = Append(trace, TickRec(w, pi))
  /\ ctl' = [ctl EXCEPT !.st[w] = @ + 1, !.total = @ + 1]

\* the second strand pins the first one at any of its ticks (one past the end is refused)
MCPin(tick) ==
  /\ ctl.stage = "run" /\ "sB" \in DOMAIN reg /\ ~ctl.pinned
  /\ tick \in 0..Len(wls["A"].hist)
  /\ (PinLastOnly => tick >= Len(wls["A"].hist) - 1)
  /\ Pin("sB", "sA", tick)
  /\ trace' = Append(trace, [op |-> "pin", owner |-> "sB", target |-> "sA", tick |-> tick,
                             ok |-> PinOk("sB", "sA", tick),
                             after |-> IF PinOk("sB", "sA", tick) THEN wls["A"].hist[tick + 1].after ELSE InitVal] @@ Snap(wls'))
  /\ ctl' = [ctl EXCEPT !.pinned = TRUE]

\* plan (pure), then settle.  The plural policy is a separate behaviour only where it decides differently;
\* the plan under the other policy is exported with every behaviour and compared as well.
MCPlan(sid, pol) ==
  /\ ctl.stage = "run" /\ ctl.settles < MaxSettles /\ sid \in DOMAIN reg
  /\ Cardinality(DOMAIN reg) = MaxStrands            \* settle once every strand of the behaviour exists
  /\ ("sB" \in DOMAIN reg => ctl.pinned)            \* ... and the second one has tried its support pin
  /\ (pol = "plural" => Kinds(PlanOf(wls, reg, sid, "plural")) # Kinds(PlanOf(wls, reg, sid, "refused")))
  /\ PlanStep(sid, pol)
  /\ trace' = trace
  /\ ctl' = [ctl EXCEPT !.stage = "planned", !.pend = <<sid, pol>>]

SettleRec(sid, pol, w0, ok) ==
  [op |-> "settle", sid |-> sid, pol |-> pol, child |-> reg[sid].child, ok |-> ok,
   plans |-> [refused |-> PlanJson(PlanOf(w0, reg, sid, "refused")), plural |-> PlanJson(PlanOf(w0, reg, sid, "plural"))],
   pins |-> Len(reg[sid].pins), nshells |-> Len(shells')] @@ Snap(wls')

MCSettleBegin ==
  /\ ctl.stage = "planned"
  /\ SettleBegin(ctl.pend[1], ctl.pend[2])
  /\ IF stl' = None
     THEN /\ trace' = Append(trace, SettleRec(ctl.pend[1], ctl.pend[2], wls, TRUE))
          /\ ctl' = [ctl EXCEPT !.settles = @ + 1, !.stage = IF ctl.settles + 1 = MaxSettles THEN "done" ELSE "run"]
     ELSE /\ trace' = trace
          /\ ctl' = [ctl EXCEPT !.stage = "settling"]

MCSettleStep == SettleStep /\ UNCHANGED <<trace, ctl>>
\* a failed settlement ends the behaviour (the harness injects each failure on a clone of the
\* state before the successful settlement and requires exactly this restoration)
\* ... unless the failure is the code's own refusal (plural id already bound): then the call returns
\* an error, everything is restored, and the behaviour goes on
MCSettleFail ==
  /\ SettleFail
  /\ IF ShellRefused
     THEN /\ trace' = Append(trace, SettleRec(stl.sid, stl.pol, stl.ck.w, FALSE))
          /\ ctl' = [ctl EXCEPT !.settles = @ + 1, !.stage = IF ctl.settles + 1 = MaxSettles THEN "done" ELSE "run"]
     ELSE /\ trace' = trace /\ ctl' = [ctl EXCEPT !.stage = "dead"]
MCSettleShell ==
  /\ SettleShell
  /\ trace' = Append(trace, SettleRec(stl.sid, stl.pol, stl.ck.w, TRUE))
  /\ ctl' = [ctl EXCEPT !.settles = @ + 1, !.stage = IF ctl.settles + 1 = MaxSettles THEN "done" ELSE "run"]

Next ==
  \/ \E pi \in 1..Len(Prog) : MCPre(pi) \/ MCPTick(pi) \/ (\E w \in {"A", "B"} : MCSTick(w, pi))
  \/ MCRefuse
  \/ \E src \in {"P", "A"} : \E t \in 0..(MaxPre + MaxPPost + 2 * MaxSTicks + 4) : MCFork(src, t)
  \/ \E tick \in 0..(MaxPre + MaxSTicks + 1) : MCPin(tick)
  \/ \E sid \in {"sA", "sB"} : \E pol \in {"refused", "plural"} : MCPlan(sid, pol)
  \/ MCSettleBegin
  \/ MCSettleStep \/ MCSettleFail \/ MCSettleShell
Spec == Init /\ [][Next]_vars

Done == ctl.stage = "done"
CaseJson == [steps |-> trace, prog |-> [k \in 1..Len(Prog) |-> Prog[k]]]
Inv_Export == (Export /\ Done) => PrintT(<<"CASE", ToJson(CaseJson)>>)
=============================================================================
