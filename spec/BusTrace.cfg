SPECIFICATION TSpec
CONSTANTS
  Channels = {0, 1, 2, 3, 4, 5, 6, 7, 8, 9, 10, 11, 12, 13, 14, 15}
  None = None
INVARIANTS TInv_Types TInv_Pending TInv_Dup TInv_Oracle TInv_Partition
POSTCONDITION Accepted
CHECK_DEADLOCK FALSE
