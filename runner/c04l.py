"""C04, ledger leg - a tick patch replays to exactly the state the tick produced, for EVERY committed tick of a
multi-tick history on ONE engine, through the engine's own ledger / replay surface.

MC : MC_C04l.tla over Ledger.tla (EXTENDS Tick): a history is a script of macro steps on one engine record -
     tick(S) = begin, apply S, commit_with_receipt;  abort(S) = begin, apply S, abort;  (rewind cfgs only) jump(k) -
     with S a set of <= MaxCands matching candidates (the empty tick included).  Invariants at every state:
     PatchStep (patch of tick k applied to the state it started from = state after tick k), Linear (tick k started
     from the state after tick k-1), Jump (JumpTo(k) = fold of the recorded patches from U0 = state recorded after
     tick k, every k), Chain (parent of tick k = commit of tick k-1, the tip is the last commit, ids differ),
     AbortNoTrace (action property) + AbortInvisible (the history equals, up to tx numbers, the history of the script
     without its aborted transactions), TxBook, ScriptFold, SliceDefs (work-list transcription of
     slice_worldline_indices = its declarative closure), SliceWeak (a sliced replay that applies cleanly yields the
     slot's final value), Unproduced (a slot no tick declared as out-slot keeps its U0 value), WellFormed.
     The strong slice theorem (the sliced replay always applies) is NOT an invariant of the as-built model:
     MC_C04l_slice_theorem.cfg keeps the counterexample (thorough tier: TLC must still find it).
RP : every exported history (MaxTicks committed ticks) is replayed on ONE real Engine per configuration (Radix /
     Legacy x 1 / 4 workers) by harness/src/c04l.rs, which decides the property on the real outcome (see its header)
     and reports model mismatches that keep the property as drift.
MR : decided here over all replayed histories of one id salt: the real commit id / state root / patch digest must be
     a one-to-one function of the model's abstract commit chain / canonical content / (ops, in-slots, out-slots).
     Aborted transactions are not part of any key, so histories that differ only in aborted transactions must have
     bit-identical commit chains.
"""
import concurrent.futures
import hashlib
import json
import os

from lib import *

P = "ledger:"
PROCS = 3
# (cfg, id salt)
RUNS = {
    "quick": [("MC_C04l_quick.cfg", ""), ("MC_C04l_quick_edge.cfg", "")],
    "thorough": [("MC_C04l_quick.cfg", ""), ("MC_C04l_thorough_edge.cfg", "b"), ("MC_C04l_thorough_chain.cfg", ""),
                 ("MC_C04l_thorough_mix.cfg", "c"), ("MC_C04l_thorough_portal.cfg", ""),
                 ("MC_C04l_thorough_life4.cfg", "b"), ("MC_C04l_thorough_edge4.cfg", "")],
}
if os.environ.get("VERIF_C04L_REWIND"):     # as-built: commits after jump_to_tick(k < tip) fork an un-truncated ledger
    RUNS["quick"].append(("MC_C04l_rewind.cfg", ""))
if os.environ.get("VERIF_C04L_FAILED"):     # as-built: a failing commit_with_receipt applies a prefix of the merged ops in place
    RUNS["quick"].append(("MC_C04l_failed.cfg", ""))


def canon(o):
    return json.dumps(o, sort_keys=True, separators=(",", ":"))


def norm(o):
    """JSON with every list that stands for a SET sorted (TLC prints sets in arbitrary order)."""
    if isinstance(o, dict):
        return {k: norm(v) for k, v in o.items()}
    if isinstance(o, list):
        return sorted((norm(x) for x in o), key=canon)
    return o


def h(*parts):
    return hashlib.sha256("\x1f".join(parts).encode()).hexdigest()[:24]


def script_sig(c):
    def cs(st):
        return ",".join(f"{x['r']}|{x['w']}|{x['n']}" for x in st["cands"])
    return c["preName"] + "#" + ";".join(
        ("t:" + cs(st)) if st["kind"] == "tick" else ("a:" + cs(st)) if st["kind"] == "abort" else ("f:" + cs(st)) if st["kind"] == "fail"
        else f"j:{st['k']}" for st in c["steps"])


def replay_cases(binp, tag, salt, cases):
    n = max(1, min(PROCS, len(cases) // 100 or 1))
    size = (len(cases) + n - 1) // n
    chunks = [c for c in (cases[k * size:(k + 1) * size] for k in range(n)) if c]

    def one(k):
        cin = write_ndjson(os.path.join(WORK, f"{tag}.{k}.cases"), chunks[k])
        cout = os.path.join(WORK, f"{tag}.{k}.results")
        harness(binp, ["c04l", cin, cout], timeout=7200, env={"VERIF_ID_SALT": salt})
        res = read_ndjson(cout)
        if len(res) != len(chunks[k]):
            raise ToolError("c04l: harness result count mismatch")
        return res

    with concurrent.futures.ThreadPoolExecutor(max_workers=len(chunks)) as ex:
        parts = list(ex.map(one, range(len(chunks))))
    return [r for part in parts for r in part]


class Relation:
    """abstract key <-> real hash must be one-to-one."""

    def __init__(self, name):
        self.name = name
        self.fwd, self.bwd = {}, {}

    def add(self, key, real, witness):
        self.fwd.setdefault(key, {}).setdefault(real, witness)
        self.bwd.setdefault(real, {}).setdefault(key, witness)

    def violations(self):
        for key, reals in self.fwd.items():
            if len(reals) > 1:
                yield "not_a_function", list(reals.items())[:2]
        for real, keys in self.bwd.items():
            if len(keys) > 1:
                yield "collision", list(keys.items())[:2]


def run_leg(ck, binp, tier, ids=None, replay=None):
    runs = []
    if replay:
        obj = json.load(open(replay))["case"]
        if obj.get("leg") == "ledger_spec":          # a TLC invariant violation on the model: run the model again
            res = tlc("MC_C04l", obj["cfg"], workers=2, env={"VERIF_IDS": id_ranks(binp, obj.get("salt", ""))}, timeout=7200, tags=(), out_name="c04l_replay")
            ck.add_tlc(res)
            if res.violation:
                ck.violation(f"{P}spec:{obj['cfg']}:{res.violation}", "TLC invariant violated on the ledger model:\n" + res.error_text[:3000], obj)
            return
        if obj.get("leg") != "ledger":
            return
        runs.append((obj.get("cfg", "replay"), obj.get("salt", ""), obj["cases"]))
    else:
        ids_by_salt = {"": ids} if ids else {}
        only = os.environ.get("VERIF_C04L_ONLY")          # debugging aid: run a single cfg of the tier
        todo = [(cfg, salt) for cfg, salt in RUNS[tier] if not only or only in cfg]
        for salt in {s for _, s in todo}:
            if salt not in ids_by_salt:
                ids_by_salt[salt] = id_ranks(binp, salt)

        def model(job):
            cfg, salt = job
            return tlc("MC_C04l", cfg, workers=2 if tier == "quick" else 4, env={"VERIF_IDS": ids_by_salt[salt]}, timeout=7200,
                       tags=("CASE",), out_name=f"c04l_{cfg.replace('.cfg', '')}_{salt or '0'}", heap="6g")

        # quick: the (small) models run side by side, 2 workers each
        with concurrent.futures.ThreadPoolExecutor(max_workers=2 if tier == "quick" else 1) as ex:
            results = list(ex.map(model, todo))
        for (cfg, salt), res in zip(todo, results):
            ck.add_tlc(res)
            if res.violation:
                ck.violation(f"{P}spec:{cfg}:{res.violation}", "TLC invariant violated on the ledger model:\n" + res.error_text[:3000],
                             {"leg": "ledger_spec", "cfg": cfg, "salt": salt, "invariant": res.violation, "trace": res.error_text[:20000]})
                continue
            if not res.lines:
                raise ToolError(f"{cfg}: no history exported (vacuous run)")
            runs.append((cfg, salt, [c for _, c in res.lines]))
            res.lines = []
        if tier == "thorough":
            # the as-built model does NOT satisfy the strong slice theorem; if TLC stops finding the counterexample the
            # model or the configuration lost the re-parent / in-edge scenario
            res = tlc("MC_C04l", "MC_C04l_slice_theorem.cfg", workers=2, env={"VERIF_IDS": ids_by_salt.get("", ids) or id_ranks(binp)},
                      timeout=1800, tags=("CASE",), out_name="c04l_slice_theorem")
            ck.cov["ledger_slice_theorem_counterexample_in_model"] = res.violation == "Inv_SliceTheorem"
            if res.violation != "Inv_SliceTheorem":
                raise ToolError("MC_C04l_slice_theorem.cfg: the as-built counterexample to the strong slice theorem was not found")

    hist = ticks = nontrivial = drift = jumps = slices = slice_holds = slice_failed = slice_failed_unpredicted = wl = aborted = rewinds = 0
    slice_samples = []
    twins = {}
    twin_pairs = 0
    rels = {}
    sample = None
    for cfg, salt, cases in runs:
        tag = re.sub(r"[^A-Za-z0-9_]", "_", f"c04l_{cfg.replace('.cfg', '')}_{salt or '0'}")
        results = replay_cases(binp, tag, salt, cases)
        R = rels.setdefault(salt, {"commit": Relation("commit_id"), "root": Relation("state_root"), "patch": Relation("patch_digest")})
        for c, r in zip(cases, results):
            hist += 1
            ticks += len(c["ticks"])
            sig = script_sig(c)
            slim = {"leg": "ledger", "cfg": cfg, "salt": salt, "cases": [c]}
            kinds = [st["kind"] for st in c["steps"]]
            rewind = "jump" in kinds
            failed = "fail" in kinds
            aborted += "abort" in kinds
            rewinds += rewind
            if r["verdict"] == "tool_error":
                raise ToolError(f"c04l harness: {sig}: {r.get('detail')}")
            if r["verdict"] == "violation":
                ck.violation(f"{P}{'rewind:' if rewind else 'failed_commit:' if failed else ''}{r['kind']}:{sig}", r.get("detail", ""), slim)
                continue
            if sum(1 for t in c["ticks"] if t["patch"]) >= 2 or "abort" in kinds:
                nontrivial += 1
            jumps += r.get("jumps", 0)
            slices += r.get("slices", 0)
            slice_holds += r.get("slice_holds", 0)
            slice_failed += r.get("slice_failed", 0)
            wl += r.get("wl_applied", 0)
            slice_failed_unpredicted += r.get("slice_unpredicted", 0)
            for s in r.get("slice_failed_samples", []):
                if len(slice_samples) < 3:
                    slice_samples.append({"history": sig, "salt": salt, **s})
            # an aborted transaction leaves no trace, decided on the real outcome alone: histories that differ only in
            # aborted transactions must have bit-identical commit chains (tx numbers are not part of a commit id)
            if not rewind and not failed:
                twin = (salt, c["preName"], tuple(",".join(f"{x['r']}|{x['w']}|{x['n']}" for x in st["cands"]) for st in c["steps"] if st["kind"] == "tick"))
                seen = twins.setdefault(twin, (r["commits"], sig, c))
                if seen[0] != r["commits"]:
                    ck.violation(f"{P}abort_changes_history:{sig}", f"commit chains differ between {sig} and {seen[1]}: {r['commits']} vs {seen[0]}",
                                 {"leg": "ledger", "cfg": cfg, "salt": salt, "cases": [c, seen[2]]})
                    continue
                twin_pairs += seen[1] != sig
            if r.get("drift"):
                drift += 1
                if len([n for n in ck.notes if "ledger_model_drift" in n]) < 5:
                    ck.notes.append({"ledger_model_drift": r["drift"][:2], "history": sig})
                continue            # the model's keys do not describe this run
            if len(r["commits"]) != len(c["ticks"]):
                raise ToolError("c04l: tick count mismatch between model and harness")
            key = "genesis"
            for t, commit, root, patch in zip(c["ticks"], r["commits"], r["roots"], r["patches"]):
                ckey = canon(norm(t["canon"]))
                pkey = canon({"ops": t["patch"], "ins": norm(t["ins"]), "outs": norm(t["outs"])})
                key = h(key, ckey, pkey)
                R["commit"].add(key, commit, (sig, c))
                R["root"].add(h(ckey), root, (sig, c))
                R["patch"].add(h(pkey), patch, (sig, c))
            if sample is None and "abort" in kinds and sum(1 for t in c["ticks"] if t["patch"]) >= 2:
                sample = {"history": sig, "commits": r["commits"], "slices_checked": r.get("slices"), "jumps": r.get("jumps")}
    for salt, R in rels.items():
        for rel in R.values():
            for kind, ws in rel.violations():
                ck.violation(f"{P}hash_relation:{rel.name}:{kind}",
                             f"salt '{salt}': {rel.name} is not a one-to-one function of the model's key: {[(k, w[0]) for k, w in ws]}",
                             {"leg": "ledger", "cfg": "hash_relation", "salt": salt, "cases": [w[1] for _, w in ws]})
    if not replay and not os.environ.get("VERIF_C04L_ONLY"):
        if hist == 0 or jumps == 0 or slices == 0 or wl == 0:
            raise ToolError(f"ledger leg vacuous: histories={hist} jumps={jumps} slices={slices} worldline applies={wl}")
        if aborted == 0:
            raise ToolError("ledger leg vacuous: no history with an aborted transaction")
    ck.cov["traces_validated_against_impl"] += hist
    ck.cov["evaluations"] += hist * 4
    ck.cov["distinct_nontrivial"] += nontrivial
    ck.cov["model_drift_cases"] = ck.cov.get("model_drift_cases", 0) + drift
    ck.cov["ledger"] = {
        "cfgs": [f"{cfg}@{salt or '0'}" for cfg, salt, _ in runs], "histories": hist, "committed_ticks": ticks,
        "histories_with_aborted_tx": aborted, "compared_with_abort_free_twin": twin_pairs, "histories_with_rewind": rewinds, "engine_runs": hist * 4, "jump_to_tick_calls": jumps,
        "worldline_patch_applies": wl, "nontrivial_histories": nontrivial, "model_drift_histories": drift,
        "distinct_commit_ids": sum(len(R["commit"].bwd) for R in rels.values()),
        "distinct_state_roots": sum(len(R["root"].bwd) for R in rels.values()),
        "slices": {"checked": slices, "theorem_holds": slice_holds, "sliced_replay_fails_to_apply": slice_failed,
                   "of_which_not_predicted_by_the_model": slice_failed_unpredicted, "samples": slice_samples},
        "sample": sample,
    }
    ck.cov["rule"] += ("; ledger leg: every history (script of tick/abort macro steps, <= 2 candidates per tick, empty ticks included) of the bounded "
                       f"models {[cfg for cfg, _, _ in runs]}, each replayed on 4 engine configurations; non-trivial = at least two ticks with a "
                       "non-empty patch or an aborted transaction; histories are distinct TLC behaviours")
    ck.assumptions += ["ledger leg: bounded histories (MaxTicks, MaxCands, candidate universe and U0 in the MC_C04l cfgs); ticks whose merged ops do not apply "
                       "(commit returns InternalCorruption) are outside the model; no commit follows a jump_to_tick (rewind is run only with VERIF_C04L_REWIND)",
                       "ledger leg: a sliced replay that FAILS to apply is recorded (coverage.ledger.slices), not a C04 violation; a sliced replay that applies "
                       "and yields a different slot value is a violation"]
