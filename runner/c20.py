"""C20 - retained content is returned intact or not at all (echo-cas: MemoryTier, DiskTier,
RetainedBlobIndex).

MC : spec/Cas.tla checked through spec/MC_C20.tla (MC_C20_*_mc.cfg, no history variable): the full
     state space of both tiers with every file fault; invariants  get(h) in {None, typed error,
     bytes hashing to h}, memory tier well-formed, corruption detected, loads intact; action
     properties  mismatching verified put refused with the store unchanged, put idempotent,
     pin/unpin keep content, reads read-only, reopen (disk persists, memory does not), index
     stable / no aliasing / conflicting retain refused.
XP : spec/CasExport.tla (MC_C20x) enumerates (record set, export profile, withheld / corrupted material);
     harness c20x builds a real filesystem WAL per record set, exports through wsc_self_contained /
     wsc_cas_addressed / wsc_ref_only_wal_export, tampers, re-imports with validate_wsc_*_wal_export:
     untampered => same records and material; tampered => typed error, never different content.
RP : the same spec with a history variable exports EVERY behaviour of N calls (each call with the
     model's predicted result and the predicted observable state after it) and, in the thorough tier
     with -simulate, random behaviours of 12 calls; harness c20 drives the real MemoryTier (+RetainedBlobIndex, 7 byte
     tables of which 4 give all blobs the same length, 6 coordinate tables) / DiskTier (scratch directory per case) through the same calls,
     compares every result and the full observable state after every call with the prediction and
     decides the property itself on the real results.  Deviations from the model under which the
     property still holds are drift (evidence note), not violations.
SW : harness-driven fault sweep of populated disk tiers: every stored file bit-flipped (every bit of
     small files), truncated at every length, extended, overwritten with every other blob's bytes,
     deleted, stray complete temp file planted, repaired by re-put; after each single fault every
     hash is queried (typed error or absence, never wrong bytes as Ok; untouched blobs intact).
"""
import os
import random
import re
from lib import *

SCRATCH = os.path.join(WORK, "agent_c20", "scratch")

QUICK = {
    "mc": ["MC_C20_quick_mc.cfg"],
    "export": ["MC_C20_quick.cfg", "MC_C20_quick_l3.cfg"],
    "xcfg": "MC_C20x_quick.cfg",
    "sim": 0, "sweeps": 4, "sweep_lens": [[0, 1, 2, 33, 33], [1, 7, 64, 64, 300], [5, 48, 1000], [3, 40, 70000]],
}
THOROUGH = {
    "mc": ["MC_C20_thorough_mc.cfg"],
    "export": ["MC_C20_thorough_mem4.cfg", "MC_C20_quick_l3.cfg", "MC_C20_thorough_mem5.cfg", "MC_C20_thorough_mem3b.cfg",
               "MC_C20_thorough_disk4.cfg", "MC_C20_thorough_disk3b.cfg"],
    "xcfg": "MC_C20x_thorough.cfg",
    "sim": 1500, "sweeps": 24, "sweep_lens": None,
}
# simulation: "sim" random traces of SIM_LEN calls in total (TLC's num is per worker); TLC evaluates the export
# invariant on every successor of the last-but-one state, so each trace yields ~30 behaviours sharing an 11-call prefix
SIM_CFG, SIM_LEN = "MC_C20_sim.cfg", 12
WORKERS = 6


def extract(tlc_out, fout):
    """Streams the CASE lines of a TLC output file into the ndjson case file (no decoding of the
    cases themselves: the big legs hold 10^5..10^6 behaviours)."""
    n = 0
    with open(tlc_out) as f:
        for line in f:
            if line.startswith('<<"CASE", '):
                try:
                    fout.write(json.loads(line[len('<<"CASE", '):line.rindex(">>")]))
                except Exception:
                    raise ToolError(f"cannot decode TLC print line: {line[:200]}")
                fout.write("\n")
                n += 1
    return n


def pick_cases(path, wanted):
    """Second pass over the case file: the cases with the given line numbers."""
    wanted = set(wanted)
    out = {}
    if not wanted:
        return out
    last = max(wanted)
    with open(path) as f:
        for i, line in enumerate(f):
            if i in wanted:
                out[i] = json.loads(line)
            if i >= last:
                break
    return out


def sweep_cases(cfg, sd):
    rng = random.Random(sd * 7919 + 20)
    out = []
    for k in range(cfg["sweeps"]):
        if cfg["sweep_lens"]:
            lens = cfg["sweep_lens"][k % len(cfg["sweep_lens"])]
        else:
            lens = sorted({rng.choice([0, 1, 2, 3, 31, 32, 33, 64, 65, 255, 1024, 4097, 65536, 100001]) for _ in range(rng.randint(2, 5))}
                          | {rng.randint(1, 48)})
            lens.append(lens[-1] if k % 2 else lens[len(lens) // 2])    # two different blobs of EQUAL length in every store
        out.append({"kind": "sweep", "seed": rng.randint(1, 2 ** 31 - 1), "lens": lens})
    return out


def run(tier, replay=None):
    ck = Check("C20", tier)
    binp = build_harness()
    cfg = QUICK if tier == "quick" else THOROUGH
    os.makedirs(SCRATCH, exist_ok=True)
    legs = {}
    cin = os.path.join(WORK, "c20.cases")
    n_cases = 0
    with open(cin, "w") as fout:
        if replay:
            for c in json.load(open(replay))["case"]["cases"]:
                fout.write(json.dumps(c, separators=(",", ":")) + "\n")
                n_cases += 1
        else:
            def spec_violation(c, res, what=""):
                ck.violation(f"spec:{c}:{res.violation}", f"TLC property violated on the model{what}:\n" + res.error_text[:3000],
                             {"cfg": c, "invariant": res.violation, "trace": res.error_text[:20000], "cases": []})
            # ---- MC leg: the store state machine itself (no history variable)
            for c in cfg["mc"]:
                res = tlc("MC_C20", c, workers=WORKERS, timeout=3600, tags=())
                ck.add_tlc(res)
                if res.violation:
                    spec_violation(c, res)
                elif res.distinct < 1000:
                    raise ToolError(f"{c}: state space suspiciously small ({res.distinct})")
            # ---- export legs (exhaustive, bounded length)
            for c in cfg["export"]:
                res = tlc("MC_C20", c, workers=WORKERS, timeout=3600, tags=())
                ck.add_tlc(res)
                if res.violation:
                    spec_violation(c, res)
                    continue
                legs[c] = extract(res.stdout_path, fout)
                if not legs[c]:
                    raise ToolError(f"{c}: nothing exported")
                os.remove(res.stdout_path)
            # ---- random longer behaviours (thorough tier)
            if cfg["sim"]:
                res = tlc("MC_C20", SIM_CFG, workers=WORKERS, timeout=3600, tags=(), simulate=f"num={max(1, cfg['sim'] // WORKERS)}",
                          depth=SIM_LEN + 2, seed_arg=ck.seed, out_name="MC_C20_sim_" + tier)
                if res.violation:
                    spec_violation(SIM_CFG, res, " (simulation)")
                else:
                    legs[SIM_CFG] = extract(res.stdout_path, fout)
                    if not legs[SIM_CFG]:
                        raise ToolError(f"{SIM_CFG}: simulation exported nothing")
            # ---- export profiles of the WSC snapshot store (spec/CasExport.tla)
            res = tlc("MC_C20x", cfg["xcfg"], workers=2, timeout=1800, tags=())
            ck.add_tlc(res)
            if res.violation:
                spec_violation(cfg["xcfg"], res)
            else:
                legs[cfg["xcfg"]] = extract(res.stdout_path, fout)
                if not legs[cfg["xcfg"]]:
                    raise ToolError(f"{cfg['xcfg']}: nothing exported")
            n_cases = sum(legs.values())
            for c in sweep_cases(cfg, ck.seed):
                fout.write(json.dumps(c, separators=(",", ":")) + "\n")
                n_cases += 1
    cout = os.path.join(WORK, "c20.results")
    harness(binp, ["c20", cin, cout], timeout=6 * 3600, env={"VERIF_C20_SCRATCH": SCRATCH, "VERIF_SEED": str(ck.seed),
                                                              "VERIF_THREADS": str(WORKERS)})
    results = read_ndjson(cout)
    if not results or not results[-1].get("summary"):
        raise ToolError("harness produced no summary line")
    summary = results.pop()
    if summary["cases"] != n_cases or summary["ok"] + len(results) != n_cases:
        raise ToolError(f"harness result count mismatch ({summary['ok']} ok + {len(results)} reported for {n_cases} cases)")
    if any(r.get("v") not in ("violation", "drift") for r in results):
        raise ToolError("harness thread panicked")
    try:
        left = os.listdir(SCRATCH)
    except OSError:
        left = []
    if left:
        ck.notes.append(f"scratch directories left behind: {len(left)}")

    by_kind = {}
    drift = []
    for r in results:
        if r["v"] == "violation":
            by_kind.setdefault(r["kind"], []).append(r)
        else:
            drift.append(r)
    wanted = [r["i"] for hits in by_kind.values() for r in hits[:200]] + [r["i"] for r in drift[:1]] + [summary["seq"] // 2]
    picked = pick_cases(cin, wanted)
    for kind, hits in sorted(by_kind.items()):
        # shortest witness first
        def first_step(r):
            m = re.match(r"step (\d+)", str(r.get("detail", "")))
            return int(m.group(1)) if m else 99
        hits = sorted(hits[:200], key=lambda r: (first_step(r), len(picked[r["i"]].get("steps", [])), r["i"])) + hits[200:]
        r0 = hits[0]
        c0 = picked[r0["i"]]
        ops = [f"{s['op']}({','.join(x for x in (s['h'], s['b'], s['c']) if x != '-')})->{s['res']}" for s in c0.get("steps", [])]
        ck.violation(kind, f"{len(hits)} behaviours; first: tier={c0.get('tier', 'disk')} calls with the MODEL-predicted results {ops}: {r0.get('detail')}",
                     {"cases": [picked[r["i"]] for r in hits[:3]], "results": hits[:3], "count": len(hits)})
    if drift:
        log(f"[c20] DRIFT on {len(drift)} cases (real code deviates from the model, property holds); first: "
            f"{json.dumps(drift[0])[:1500]}")
        ck.notes.append({"drift_cases": len(drift), "first": drift[0], "first_case": picked.get(drift[0]["i"])})
    if not replay and (summary["seq"] == 0 or summary["export"] == 0 or summary["sweep"] == 0 or summary["nontrivial"] == 0
                       or summary["sweep_faults"] == 0 or summary["envelope_evals"] == 0
                       or summary["eq_len_retain_conflicts"] == 0 or summary["eq_len_pv_mismatches"] == 0
                       or summary["sweep_same_len_faults"] == 0 or summary["sweep_len_changing_faults"] == 0):
        raise ToolError("a leg of the check replayed nothing (vacuous)")
    mid = picked.get(summary["seq"] // 2)
    if mid and "steps" in mid:
        ck.sample({"tier": mid["tier"], "calls": [{k: s[k] for k in ("op", "h", "b", "c", "res")} for s in mid["steps"]],
                   "predicted_state_after_last_call": mid["steps"][-1]["obs"]})
    ck.cov["traces_validated_against_impl"] = summary["seq"]
    ck.cov["evaluations"] = summary["calls"] + summary["sweep_queries"] + summary["export_attempts"] + summary["envelope_evals"]
    ck.cov["export_cases"] = summary["export"]
    ck.cov["export_import_attempts"] = summary["export_attempts"]
    ck.cov["export_envelope_damage_evaluations"] = summary["envelope_evals"]
    ck.cov["export_typed_errors_seen"] = summary.get("export_errors", {})
    ck.cov["distinct_nontrivial"] = summary["nontrivial"]
    ck.cov["replays"] = summary["replays"]
    ck.cov["ok_reads_hash_checked"] = summary["ok_reads_hash_checked"]
    ck.cov["equal_length_conflicting_retains"] = summary["eq_len_retain_conflicts"]
    ck.cov["equal_length_mismatching_verified_puts"] = summary["eq_len_pv_mismatches"]
    ck.cov["sweep_length_preserving_corruptions"] = summary["sweep_same_len_faults"]
    ck.cov["sweep_length_changing_corruptions"] = summary["sweep_len_changing_faults"]
    ck.cov["sweep_stores"] = summary["sweep"]
    ck.cov["sweep_single_faults"] = summary["sweep_faults"]
    ck.cov["sweep_queries"] = summary["sweep_queries"]
    ck.cov["drift_cases"] = len(drift)
    ck.cov["behaviours_per_leg"] = legs
    ck.cov["rule"] = ("evaluations = export/import attempts and envelope damage probes, plus calls replayed against the real tiers, each with its result and the full observable state "
                      "(get/has/pinned for every hash, list/len/byte_count/over_budget, descriptor and load for every coordinate) compared "
                      "with the model, plus get queries of the fault sweep; traces = exported behaviours (exhaustive legs: every behaviour of "
                      "the stated length; simulation leg: random behaviours of 12 calls); non-trivial = behaviour with a mismatching verified "
                      "put, a file fault followed by a call, a repeated write, a refused retain or a reopen over content")
    ck.cov["exhaustive"] = replay is None
    ck.assumptions += [
        "bounded scope: 2-3 blobs, 1-2 semantic coordinates, behaviours of 3-5 calls exhaustively and 12 calls sampled (cfg constants)",
        "content id modelled as identity on blob values; corrupted file contents are values whose hash is no requested hash "
        "(BLAKE3 collision-freeness on the 7 byte tables: rank-length 1/2/3, 64/128/192, 4096/8192/12288 bytes; EQUAL-length 64 random, "
        "64 differing only in the last byte, 4096 with a 4000-byte common prefix, 1 byte each)",
        "file faults are applied between calls (no fault concurrent with a call); disk scratch on the sandbox file system",
        "trusted base: TLC, the harness result encoding (c20.rs), serde_json",
        "export profiles: sources are sealed single-segment filesystem WALs with 1-3 submission/receipt/correlation triples and 0-2 retained "
        "readings, no causal anchors; tampering = material withheld from / altered for the exporter (self-contained), CAS blob absent / "
        "file corrupted / lying port (CAS-addressed), plus bit flips, truncation and deletion of encoded envelopes and FilesystemWscStore files; "
        "ref-only exports reference no bytes, so nothing can be withheld",
        "crates/warp-core/src/retention.rs is a crate-private, unused policy enum (nothing to drive); warp-core optic.rs is not exercised",
    ]
    if not replay:
        return ck.finish()
    # a replay run must not clobber the evidence of the last full run
    evp = os.path.join(EVID, "C20.json")
    old = open(evp).read() if os.path.exists(evp) else None
    rc = ck.finish()
    if old is not None:
        with open(evp, "w") as f:
            f.write(old)
    return rc
