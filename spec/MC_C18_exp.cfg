SPECIFICATION Spec
CONSTANTS
  Channels = {0, 1}
  Mode = "perm"
  NTok <- MC_PermQ_N
  TokAt <- MC_PermQ_At
  PolSeq <- MC_Pol6x2
  MinN = 0
  MaxN = 2
  Export = TRUE
  CheckRekeyDirect = TRUE
  None = None
INVARIANTS Inv_TypeOK
CHECK_DEADLOCK FALSE
