"""C15 - speculative lanes fork faithfully and settle lawfully.

MC : spec/Strands.tla (fork_strand / super_tick / pin_support / compare / plan_with_policy_internal /
     settle_with_policy_internal transcribed) under spec/MC_C15.tla: every interleaving of parent and
     strand ticks after a fork at every parent tick, over programs with disjoint / read-overlapping /
     write-overlapping footprints (and a node slot whose deletion obstructs replay), both plural
     policies, a failure at every settlement step; thorough adds a second strand (sibling or chained)
     with a support pin, and re-settlement.  Invariants: ForkIsExactPrefix, NoSharedHeads, LaneIsolation
     (both directions), PlanIsPure, SettleAllOrNothing, ImportedSlotsTakeStrandValues,
     ParentChangedSlotsNeverOverwritten, BlockingIsSticky, ParentStaysReplayable, ImportsReplayCleanly
     (an import equals re-running its tick on the parent basis; holds since /repo de1c2a1).
RP : every exported behaviour is replayed into the real WorldlineRuntime / ProvenanceService / Engine
     (harness c15): fork_strand, ingest + super_tick with a table-driven cmd/ rule, pin_support,
     SettlementService::{compare, plan_with_policy, settle_with_policy}.  The harness decides the property
     on the real outcome after every step and compares with the model's prediction.
"""
import concurrent.futures
import os
from lib import *

QUICK = ["MC_C15_quick.cfg", "MC_C15_quick_siblings.cfg"]
THOROUGH = ["MC_C15_thorough.cfg", "MC_C15_thorough_chain.cfg", "MC_C15_thorough_resettle.cfg"]
ASBUILT = "MC_C15_asbuilt.cfg"


def _run_harness(binp, name, cases, procs):
    """Runs the harness over `cases`, split into `procs` chunks; returns results in case order."""
    procs = max(1, min(procs, (len(cases) + 499) // 500))
    chunks = [cases[i::procs] for i in range(procs)]
    paths = []
    for k, ch in enumerate(chunks):
        cin = write_ndjson(os.path.join(WORK, f"c15_{name}.{k}.cases"), ch)
        paths.append((cin, os.path.join(WORK, f"c15_{name}.{k}.results")))
    with concurrent.futures.ThreadPoolExecutor(max_workers=procs) as ex:
        list(ex.map(lambda p: harness(binp, ["c15", p[0], p[1]], timeout=7200), paths))
    parts = [read_ndjson(p[1]) for p in paths]
    out = [None] * len(cases)
    for k, part in enumerate(parts):
        if len(part) != len(chunks[k]):
            raise ToolError("harness result count mismatch")
        for j, r in enumerate(part):
            out[k + j * procs] = r
    return out


def _shape(case):
    ops = [s["op"] for s in case["steps"]]
    st = [s for s in case["steps"] if s["op"] == "settle"]
    return ops, st


def run(tier, replay=None):
    ck = Check("C15", tier)
    binp = build_harness()
    cfgs = QUICK if tier == "quick" else THOROUGH
    runs = []
    if replay:
        obj = json.load(open(replay))["case"]
        if not str(obj.get("leg", "")).startswith("braid"):      # replays of the braid-shell leg belong to c15b.run_leg
            runs.append(("replay", obj["cases"]))
    else:
        for cfg in cfgs:
            res = tlc("MC_C15", cfg, workers=6, timeout=7200, tags=("CASE",), heap="6g",
                      java_opts=f"-Djava.io.tmpdir={os.path.join(WORK, 'tlc')}")
            ck.add_tlc(res)
            if res.violation:
                ck.violation(f"spec:{cfg}:{res.violation}", "TLC invariant violated on the model:\n" + res.error_text[:3000],
                             {"cfg": cfg, "invariant": res.violation, "trace": res.error_text[:20000]})
                continue
            if not res.lines:
                raise ToolError(f"{cfg}: nothing exported")
            runs.append((cfg.replace(".cfg", ""), [c for _, c in res.lines]))
        if tier != "quick":
            # documentation: with the clean-overlap test as it was before /repo de1c2a1 (AsBuiltClean = TRUE) the
            # model violates ImportsReplayCleanly (findings F8 stale read / F9 dropped write); the repaired law
            # is checked as an invariant in every other cfg
            res = tlc("MC_C15", ASBUILT, workers=4, timeout=3600, tags=("CASE",), heap="4g",
                      java_opts=f"-Djava.io.tmpdir={os.path.join(WORK, 'tlc')}")
            ck.add_tlc(res)
            ck.notes.append({"pre_repair_model": "ImportsReplayCleanly " + ("violated by the pre-de1c2a1 clean-overlap test, as documented"
                                                                           if res.violation == "ImportsReplayCleanly" else f"NOT violated ({res.violation})")})
    total = nontrivial = drift = 0
    agg = {"ticks": 0, "imports": 0, "conflicts": 0, "plurals": 0, "clean_overlap": 0, "obstructed": 0, "unlawful": 0,
           "fail_points": 0, "shell_fail": 0}
    basis = {}
    seen = {}
    for name, cases in runs:
        results = _run_harness(binp, name, cases, 6 if tier != "quick" else 4)
        for c, r in zip(cases, results):
            total += 1
            if r["verdict"] == "tool_error":
                raise ToolError(f"harness: {r.get('detail')}")
            for k in agg:
                agg[k] += r["stats"].get(k, 0)
            for b in r["stats"].get("basis", []):
                basis[b] = basis.get(b, 0) + 1
            if r["stats"].get("conflicts", 0) + r["stats"].get("plurals", 0) + r["stats"].get("clean_overlap", 0) > 0:
                nontrivial += 1
            if r.get("drift"):
                drift += 1
                if len([n for n in ck.notes if "model_drift" in n]) < 5:
                    ck.notes.append({"model_drift": r["drift"][:2]})
            for fnd in r.get("findings", []):
                seen[fnd["kind"]] = seen.get(fnd["kind"], 0) + 1
                if seen[fnd["kind"]] == 1:
                    ck.violation(fnd["kind"], fnd["detail"], {"cases": [c]})
        if cases:
            mid = cases[len(cases) // 2]
            ops, st = _shape(mid)
            ck.sample({"cfg": name, "ops": [(s["op"], s.get("w", s.get("sid", "")), s.get("pi", s.get("t", ""))) for s in mid["steps"]],
                       "settle": [{"pol": s["pol"], "basis": s["plans"][s["pol"]]["basis"],
                                   "decisions": [(d["kind"], d["reason"], d["reval"]) for d in s["plans"][s["pol"]]["dec"]]} for s in st]})
    ck.cov["traces_validated_against_impl"] = total
    ck.cov["evaluations"] = agg["ticks"] + agg["imports"] + agg["conflicts"] + agg["plurals"] + agg["fail_points"] + agg["shell_fail"]
    ck.cov["distinct_nontrivial"] = nontrivial
    ck.cov["settlement"] = agg
    ck.cov["basis_postures"] = basis
    ck.cov["finding_counts"] = seen
    ck.cov["model_drift_cases"] = drift
    ck.cov["rule"] = ("every complete behaviour of the bounded model(s) %s (distinct TLC behaviours: sequences of fork / tick / pin / settle calls); "
                      "non-trivial = the settlement met a moved parent with overlap (at least one conflict, plural or clean-overlap decision); "
                      "evaluations = real ticks + settled decisions + injected settlement failures" % (cfgs,))
    ck.cov["exhaustive"] = replay is None
    ck.assumptions += ["bounded model: constants of the cfg files (parent/strand ticks, program pools, strands, settles)",
                       "honest footprints: the harness rule declares exactly the slots it reads/writes (footprint honesty is C14)",
                       "settlement failures are injected as GlobalTickOverflow before decision k (verif_set_global_tick) and, where the plan holds a plural decision, as PluralArtifactAlreadyBound at the shell step",
                       "fingerprints are {:?} of WorldlineRuntime and ProvenanceService with the host_test scan counter masked",
                       "one writer head per lane (v1 strands carry exactly one)"]
    import c15b                                  # braid-shell leg: retained shells, audit, replay, collapse (spec/BraidShells.tla)
    c15b.run_leg(ck, binp, tier, replay)
    return ck.finish()
