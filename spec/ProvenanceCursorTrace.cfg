SPECIFICATION Spec
CONSTANTS
  Slots <- TrSlots
  U0 <- TrU0
  None = None
POSTCONDITION Accepted
CHECK_DEADLOCK FALSE
