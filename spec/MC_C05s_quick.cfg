SPECIFICATION TSpec
CONSTANTS
  Slots <- MC_Slots
  U0 <- MC_U0
  None = None
  Tier = "quick"
  WlRank <- MC_WlRank
  OtherWl <- MC_OtherWl
INVARIANTS Inv_UntamperedOutcome Inv_ExportOk Inv_ExportObstructedOnlyWithoutWitness Inv_TamperEvident Inv_DonorIsDonorHistory
  Inv_VerifiedHistoryOnly Inv_ForkLineage Inv_ShellLevel Inv_AdmittedBasisHeld Inv_IntentRuleOnlyStages Inv_BtrEvident Inv_BtrBindsEntries
  Inv_NoHashOrderNeeded Inv_XNoHashOrder ImporterVerifies Inv_ExportCases
PROPERTIES EvaluationPure ExporterUntouched ImportAppendOnly ImportIdempotent
CHECK_DEADLOCK FALSE
