SPECIFICATION Spec
CONSTANTS
  Channels = {0, 1}
  Mode = "perm"
  NTok <- MC_PermS_N
  TokAt <- MC_PermS_At
  PolSeq <- MC_Pol11x2
  RegisterFirst = FALSE
  MinN = 0
  MaxN = 3
  Export = TRUE
  CheckRekeyDirect = TRUE
  None = None
INVARIANTS Inv_TypeOK Inv_Pending Inv_Dup Inv_Oracle Inv_OracleNow Inv_Partition Inv_Rekey Inv_NoRepeatAllOk Inv_Export
PROPERTIES Prop_Rejected Prop_Accepted
CHECK_DEADLOCK FALSE
