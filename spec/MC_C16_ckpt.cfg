SPECIFICATION Spec
CONSTANTS
  MaxLen = 3
  MaxG = 3
  MaxForks = 0
  MaxCkpt = 2
  Base = {"w1"}
  Variants = {"b"}
  Cold = FALSE
  Rich = FALSE
INVARIANTS
  InvFreshness
  InvUnavailable
  InvFrontierIsTip
  InvProvRef
  InvOpticTyped
PROPERTIES
  ReadOnly
  HistoricalBound
  OpticBound
CHECK_DEADLOCK FALSE
