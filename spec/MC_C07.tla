------------------------------ MODULE MC_C07 ------------------------------
(***************************************************************************)
(* C07 model: a worldline history of N ticks (table below), every set of   *)
(* replay checkpoints, optionally a fork at every tick that then diverges, *)
(* and every sequence of MaxLen cursor actions (seek / step under every    *)
(* mode / checkpoint-here).  Invariant: the cursor's materialized state is *)
(* StateAt(tick), the fold of the worldline's entries from U0, whatever    *)
(* path produced it.  Every behaviour is exported with the predicted tick, *)
(* path, result and materialized value per step and replayed into the real *)
(* PlaybackCursor / ProvenanceService (harness/src/c07.rs).                *)
(***************************************************************************)
EXTENDS Provenance, Json

CONSTANTS N,            \* history length (<= 5)
          Hists,        \* history ids to explore
          MaxLen,       \* cursor actions per behaviour on the unforked worldline
          ForkMaxLen,   \* ... on a fork
          Forks,        \* fork ticks to explore in addition to the unforked worldline (subset of 0..N-1)
          ForkCkpts,    \* TRUE: also every checkpoint set on the fork's divergent suffix
          PinOffsets,   \* pin_max_tick = history length + offset - 1 (cfg files cannot hold negative numbers)
          Roles,        \* subset of {"Reader", "Writer"}
          SeekBeyond,   \* TRUE: also seek to N + 1
          StepModes,    \* modes offered to "set mode, then step"
          Export

VARIABLES scn,     \* the scenario: [h, C, fork, C2, pin, role]
          phase,   \* "append" | "ckpt" | "fork" | "fappend" | "fckpt" | "play"
          trace    \* play-phase actions with the model's prediction after each
vars == <<entries, ckpts, cur, last, scn, phase, trace>>

MC_Slots == {"n1", "n2", "n3"}
MC_U0 == [k \in MC_Slots |-> IF k = "n1" THEN "p0" ELSE "none"]

\* ---- history tables (interpreted identically by harness/src/c07.rs) ----------
W(a, b, c) == [k \in MC_Slots |-> IF k = "n1" THEN a ELSE IF k = "n2" THEN b ELSE c]
\* main history h: tick i (0-based) applies HistOps(h)[i + 1]
HistOps(h) ==
  CASE h = 1 -> << W("p1", Keep, Keep), W(Keep, "p0", Keep), W("p2", Keep, "p1"), W("none", "p1", Keep), W("p0", Keep, "none") >>
    [] h = 2 -> << W(Keep, "p2", Keep), W("p0", Keep, Keep), W(Keep, "none", "p2"), W("p1", "p1", "p1"), W(Keep, Keep, "p0") >>
    \* h = 3 revisits earlier states (tick 2 returns to U0, tick 4 = tick 1): equal roots at different ticks
    [] h = 3 -> << W("p1", Keep, Keep), W("p0", Keep, Keep), W("p1", Keep, Keep), W(Keep, "p2", Keep), W(Keep, "none", Keep) >>
\* divergent suffix of a fork: tick i on the fork (i > fork tick)
ForkOps(h, i) == W("p2", IF i % 2 = 0 THEN "p0" ELSE "p2", "p1")
\* which head commits tick i (two writer heads per worldline)
HeadOf(i) == IF i % 2 = 0 THEN "h0" ELSE "h1"
\* recorded outputs of tick i on worldline w (every third tick emits nothing)
Outs(w, i) == IF i % 3 = 2 THEN <<>> ELSE <<w, i>>

MAIN == "main"
FORK == "fork"

CurW(s) == IF s.fork = -1 THEN MAIN ELSE FORK

Scenarios ==
  {[h |-> h, C |-> C, fork |-> f, C2 |-> C2, pin |-> N + po - 1, role |-> r] :
     h \in Hists, C \in SUBSET (0..N), f \in {-1} \cup Forks, C2 \in SUBSET (0..N), po \in PinOffsets, r \in Roles}

ScenarioOk(s) ==
  /\ s.pin >= 0
  /\ IF s.fork = -1 THEN s.C2 = {}
     ELSE IF ForkCkpts THEN s.C2 \subseteq ((s.fork + 2)..N) ELSE s.C2 = {}

FreshCursor(w, s) == [w |-> w, tick |-> 0, role |-> s.role, mode |-> Paused, mat |-> MatU0, pin |-> s.pin]

Init ==
  /\ scn \in {s \in Scenarios : ScenarioOk(s)}
  /\ entries = [w \in {MAIN} |-> <<>>]
  /\ ckpts = [w \in {MAIN} |-> {}]
  /\ cur = FreshCursor(CurW(scn), scn)
  /\ last = NoOutcome
  /\ phase = "append"
  /\ trace = <<>>

\* ---- setup: the coordinator appends N ticks on main (alternating heads) ------------------
SetupAppend ==
  /\ phase = "append"
  /\ IF Len0(MAIN) < N
     THEN LET t == Len0(MAIN)
          IN /\ AppendEntry(CoordEntry(MAIN, HeadOf(t), t, t + 1, Tip(MAIN), StateAt(MAIN, t).st, HistOps(scn.h)[t + 1], 0, Outs(MAIN, t)))
             /\ UNCHANGED phase
     ELSE phase' = "ckpt" /\ UNCHANGED storeVars
  /\ UNCHANGED <<cur, last, scn, trace>>

\* checkpoints of the scenario, taken from the live frontier (= StateAt by C01/C04), ascending
SetupCkpt ==
  /\ phase = "ckpt"
  /\ LET todo == scn.C \ CkptTicks(MAIN)
     IN IF todo # {}
        THEN LET c == CHOOSE x \in todo : \A y \in todo : x <= y
             IN AddCheckpoint(MAIN, c, StateAt(MAIN, c)) /\ UNCHANGED phase
        ELSE phase' = (IF scn.fork = -1 THEN "play" ELSE "fork") /\ UNCHANGED storeVars
  /\ UNCHANGED <<cur, last, scn, trace>>

SetupFork ==
  /\ phase = "fork"
  /\ Fork(MAIN, scn.fork, FORK)
  /\ phase' = "fappend"
  /\ UNCHANGED <<cur, last, scn, trace>>

\* the fork diverges: the child frontier (replayed at fork tick + 1) commits different patches
SetupForkAppend ==
  /\ phase = "fappend"
  /\ IF Len0(FORK) < N
     THEN LET t == Len0(FORK)
          IN /\ AppendEntry(CoordEntry(FORK, HeadOf(t), t, t + 1, Tip(FORK), StateAt(FORK, t).st, ForkOps(scn.h, t), 0, Outs(FORK, t)))
             /\ UNCHANGED phase
     ELSE phase' = "fckpt" /\ UNCHANGED storeVars
  /\ UNCHANGED <<cur, last, scn, trace>>

SetupForkCkpt ==
  /\ phase = "fckpt"
  /\ LET todo == scn.C2 \ CkptTicks(FORK)
     IN IF todo # {}
        THEN LET c == CHOOSE x \in todo : \A y \in todo : x <= y
             IN AddCheckpoint(FORK, c, StateAt(FORK, c)) /\ UNCHANGED phase
        ELSE phase' = "play" /\ UNCHANGED storeVars
  /\ UNCHANGED <<cur, last, scn, trace>>

\* ---- play -----------------------------------------------------------------------------------
ModeJson(m) == IF m[1] = "Seek" THEN "Seek:" \o ToString(m[2]) \o ":" \o m[3] ELSE m[1]
StJson(st) == [k \in MC_Slots |-> st[k]]
Pred(c, o, ticks) ==
  [tick |-> c.tick, mode |-> ModeJson(c.mode), res |-> o.res, path |-> o.path, from |-> o.from, err |-> o.err, at |-> o.at,
   st |-> StJson(c.mat.st), hl |-> Len(c.mat.hist), lm |-> c.mat.lm, ck |-> ticks]

Bound == IF scn.fork = -1 THEN MaxLen ELSE ForkMaxLen
Record(a) == trace' = Append(trace, [a |-> a, p |-> Pred(cur', last', CkptTicks(cur.w)')])

PlaySeek(t) ==
  /\ phase = "play" /\ Len(trace) < Bound
  /\ SeekTo(t)
  /\ Record([k |-> "seek", t |-> t, m |-> ModeJson(Paused)])
  /\ UNCHANGED <<scn, phase>>

PlayStep ==
  /\ phase = "play" /\ Len(trace) < Bound
  /\ Step
  /\ Record([k |-> "step", t |-> 0, m |-> ModeJson(Paused)])
  /\ UNCHANGED <<scn, phase>>

\* cursor.mode = m; cursor.step(..)
PlayStepWith(m) ==
  /\ phase = "play" /\ Len(trace) < Bound
  /\ LET r == StepResult([cur EXCEPT !.mode = m]) IN cur' = r.cur /\ last' = r.out
  /\ UNCHANGED storeVars
  /\ Record([k |-> "modestep", t |-> 0, m |-> ModeJson(m)])
  /\ UNCHANGED <<scn, phase>>

\* provenance.add_checkpoint(w, ReplayCheckpoint::from_state(cursor.materialized_state()))
PlayCkptHere ==
  /\ phase = "play" /\ Len(trace) < Bound
  /\ cur.tick \notin CkptTicks(cur.w)
  /\ AddCheckpoint(cur.w, cur.tick, cur.mat)
  /\ last' = [NoOutcome EXCEPT !.res = "ckpt"]
  /\ UNCHANGED cur
  /\ Record([k |-> "ckpt", t |-> cur.tick, m |-> ModeJson(Paused)])
  /\ UNCHANGED <<scn, phase>>

SeekTargets == 0..(IF SeekBeyond THEN N + 1 ELSE N)
MC_StepModesQuick == {<<"Play">>, <<"StepForward">>, <<"StepBack">>, <<"Seek", N - 1, "Play">>}
MC_StepModesAll == {<<"Paused">>, <<"Play">>, <<"StepForward">>, <<"StepBack">>} \cup
                   {<<"Seek", t, th>> : t \in 0..(N + 1), th \in {"Play", "Pause"}}

Next ==
  \/ SetupAppend \/ SetupCkpt \/ SetupFork \/ SetupForkAppend \/ SetupForkCkpt
  \/ \E t \in SeekTargets : PlaySeek(t)
  \/ PlayStep
  \/ \E m \in StepModes : PlayStepWith(m)
  \/ PlayCkptHere

Spec == Init /\ [][Next]_vars

\* ---- properties ---------------------------------------------------------------------------------
Inv_C07 == phase = "play" => Inv_CursorIsStateAt
\* the store only changes in the setup phases and on "checkpoint here": the store-wide invariants
\* are evaluated exactly after those actions (they do not mention the cursor)
StoreJustChanged == phase # "play" \/ trace = <<>> \/ last.res = "ckpt"
Inv_Ckpts == StoreJustChanged => Inv_CheckpointsAreStateAt
Inv_Replay == (phase = "play" /\ StoreJustChanged) => Inv_ReplayAtIsStateAt
Inv_Chain == StoreJustChanged => Inv_ChainWellFormed
\* fork copies exactly the checkpoints at or below fork tick + 1 and the entry prefix
Inv_ForkPrefix ==
  (FORK \in Worldlines /\ phase = "fappend" /\ Len0(FORK) = scn.fork + 1) =>
     /\ \A i \in 1..(scn.fork + 1) : entries[FORK][i].cid = entries[MAIN][i].cid /\ entries[FORK][i].w = FORK
     /\ CkptTicks(FORK) = {c \in CkptTicks(MAIN) : c <= scn.fork + 1}
     /\ \A t \in 0..(scn.fork + 1) : StateAt(FORK, t) = StateAt(MAIN, t)

\* ---- export ---------------------------------------------------------------------------------------
SetSeq(S) == LET RECURSIVE F(_)
                 F(T) == IF T = {} THEN <<>> ELSE LET x == CHOOSE y \in T : \A z \in T : y <= z IN <<x>> \o F(T \ {x})
             IN F(S)
OpsJson(ops) == [k \in MC_Slots |-> ops[k]]
HistJson(h) ==
  [h |-> h, n |-> N, u0 |-> StJson(MC_U0),
   main |-> [i \in 1..N |-> [ops |-> OpsJson(HistOps(h)[i]), head |-> HeadOf(i - 1), outs |-> Outs(MAIN, i - 1)]],
   fork |-> [i \in 1..N |-> [ops |-> OpsJson(ForkOps(h, i - 1)), head |-> HeadOf(i - 1), outs |-> Outs(FORK, i - 1)]]]
ASSUME Export => \A h \in Hists : PrintT(<<"HIST", ToJson(HistJson(h))>>)

CaseJson ==
  [scn |-> [h |-> scn.h, n |-> N, C |-> SetSeq(scn.C), fork |-> scn.fork, C2 |-> SetSeq(scn.C2), pin |-> scn.pin, role |-> scn.role],
   steps |-> [i \in 1..Len(trace) |-> <<trace[i].a.k, trace[i].a.t, trace[i].a.m>>],
   pred |-> [i \in 1..Len(trace) |-> [trace[i].p EXCEPT !.ck = SetSeq(@)]]]
Inv_Export == (Export /\ phase = "play" /\ Len(trace) = Bound) => PrintT(<<"CASE", ToJson(CaseJson)>>)

\* coverage witnesses (must be reachable: the runner checks the exported paths instead of TLC coverage)
=============================================================================
