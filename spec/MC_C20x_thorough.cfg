\* C20 export profiles: 2 optional submissions, 2 optional retained materials, 3 profiles, up to 2 tamper steps
SPECIFICATION Spec
CONSTANTS
  Subs = {"s0", "s1"}
  Mats = {"m0", "m1"}
  MaxTamper = 2
INVARIANTS Inv_ImportLaw Inv_Export
CHECK_DEADLOCK FALSE
