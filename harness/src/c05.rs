//! C05 — history is hash-chained and tamper-evident.
//!
//! Real multi-worldline, multi-head histories are produced by the real runtime (see c07.rs:
//! `World`).  For every tamper case — the model's (spec/MC_C05.tla) or, on random histories,
//! the same catalogue at every position — the retained `ProvenanceEntry` sequence of one
//! worldline is altered (all fields are `pub`), a `ProvenanceService` is rebuilt from it through
//! the real append validation, and every tick is re-verified through
//! `replay_worldline_state_at`, `PlaybackCursor::seek_to` (direct and step-wise), checkpoint
//! insertion + restore, BTR validation and suffix import.  The property is decided on the real
//! outcome: a typed error, or EXACTLY the original result; anything else is reported with a
//! stable key naming the field and the entry point.  The model's prediction is compared too
//! (differences are drift, not violations).
//!
//! TV leg: every entry the runtime appended is logged (ndjson) for ProvenanceTrace.tla.

use std::collections::{BTreeMap, BTreeSet};

use rand::rngs::StdRng;
use rand::{Rng, SeedableRng};
use serde::Deserialize;
use serde_json::{json, Value};
use warp_core::materialization::make_channel_id;
use warp_core::{
    CheckpointRef, HistoryError, WarpId, export_suffix, import_suffix, make_head_id, AtomWrite, AttachmentKey, AttachmentValue, BoundaryTransitionRecord,
    CausalSuffixBundle, CursorId, CursorRole, ExportSuffixRequest, GlobalTick, Hash, ImportSuffixRequest,
    PlaybackCursor, ProvenanceEntry, ProvenanceEventKind, ProvenanceRef, ProvenanceService, ProvenanceStore,
    ReplayCheckpoint, ReplayError, SlotId, WarpOp, WitnessedSuffixAdmissionContext, WitnessedSuffixAdmissionOutcome,
    WitnessedSuffixAdmissionRequest, WitnessedSuffixExportContext, WitnessedSuffixLocalAdmissionPosture,
    WitnessedSuffixShell, WorldlineId, WorldlineState, WriterHeadKey,
};

use crate::absgraph;
use crate::c07::{self, head_ix, lm_of, micro_ops, project_full, random_ops, synth_outs, wl_id, wt, TickJ, World};
use crate::ids;
use crate::util;

// --------------------------------------------------------------------------- stores

#[derive(Deserialize, Clone, Debug)]
struct LaneJ {
    w: String,
    fork_of: String,
    fork_at: i64,
    ticks: Vec<TickJ>,
}

#[derive(Deserialize, Clone, Debug)]
pub(crate) struct StoreJ {
    u0: BTreeMap<String, String>,
    lanes: Vec<LaneJ>,
}

pub struct Lane {
    pub name: String,
    pub id: WorldlineId,
    pub fork_of: Option<(String, u64)>,
    /// the retained entries (real, with the recorded outputs of the scenario)
    pub entries: Vec<ProvenanceEntry>,
}

pub struct Store {
    pub u0: WorldlineState,
    pub lanes: Vec<Lane>,
}

impl Store {
    pub(crate) fn lane(&self, name: &str) -> Option<&Lane> {
        self.lanes.iter().find(|l| l.name == name)
    }

    /// A service holding every lane except `skip` (forks are registered as plain worldlines:
    /// their entries already carry their own ids), in which `skip` is registered and empty.
    pub(crate) fn service_without(&self, skip: &str) -> Result<ProvenanceService, String> {
        let mut svc = ProvenanceService::new();
        for l in &self.lanes {
            svc.register_worldline(l.id, &self.u0).map_err(|e| format!("register {}: {e:?}", l.name))?;
        }
        for l in &self.lanes {
            if l.name == skip {
                continue;
            }
            for e in &l.entries {
                svc.append_local_commit(e.clone()).map_err(|e| format!("append {} : {e:?}", l.name))?;
            }
        }
        Ok(svc)
    }
}

pub(crate) fn hexs(h: &Hash) -> String {
    hex::encode(&h[..12])
}

fn entry_event(names: &BTreeMap<WorldlineId, String>, e: &ProvenanceEntry) -> Value {
    let nm = |w: &WorldlineId| names.get(w).cloned().unwrap_or_else(|| hex::encode(&w.as_bytes()[..4]));
    let policy = e.patch.as_ref().map(|p| p.policy_id()).unwrap_or(0);
    let pc: Vec<String> = e.parents.iter().map(|p| hexs(&p.commit_hash)).collect();
    json!({
        "event": "append", "w": nm(&e.worldline_id), "tick": e.worldline_tick.as_u64(), "gtick": e.commit_global_tick.as_u64(),
        "head_w": e.head_key.map(|h| nm(&h.worldline_id)).unwrap_or_default(),
        "parents": e.parents.iter().map(|p| json!({"w": nm(&p.worldline_id), "tick": p.worldline_tick.as_u64(), "cid": hexs(&p.commit_hash)})).collect::<Vec<_>>(),
        "root": hexs(&e.expected.state_root), "pd": hexs(&e.expected.patch_digest), "cid": hexs(&e.expected.commit_hash),
        "inputs": format!("{}|{}|{}|{}", pc.join(","), hexs(&e.expected.state_root), hexs(&e.expected.patch_digest), policy),
        "receipt_tx": e.tick_receipt.as_ref().map(|r| r.tx().value()).unwrap_or(0),
    })
}

/// Drains the entries appended since `seen` (per worldline) into trace events.
fn log_new_entries(world: &World, names: &BTreeMap<WorldlineId, String>, seen: &mut BTreeMap<WorldlineId, u64>, trace: &mut Vec<Value>) {
    for (w, _) in names.iter() {
        let len = world.prov.len(*w).unwrap_or(0);
        let from = seen.get(w).copied().unwrap_or(0);
        for t in from..len {
            if let Ok(e) = world.prov.entry(*w, wt(t)) {
                trace.push(entry_event(names, &e));
            }
        }
        seen.insert(*w, len);
    }
}

/// What a history-producing run hands back: the retained store, the findings of the checks made on the
/// runtime's own (untampered) provenance, and how many SuperTicks committed >= 2 heads of one worldline.
pub struct Built {
    pub store: Option<Store>,
    pub findings: Vec<Value>,
    pub multi_head_superticks: u64,
}

fn multi_head(recs: &[(WorldlineId, u64)]) -> u64 {
    let mut per: BTreeMap<WorldlineId, u64> = BTreeMap::new();
    for (w, _) in recs {
        *per.entry(*w).or_default() += 1;
    }
    u64::from(per.values().any(|n| *n >= 2))
}

/// The property on material nobody touched: on the store the runtime itself appended to, every
/// worldline is a gap-free chain (parents = [the previous entry of that worldline]) and every tick
/// re-verifies through `replay_worldline_state_at` and `PlaybackCursor::seek_to` to exactly what the
/// live runtime holds (tick history prefix, roots; the whole state at the frontier).
fn check_runtime_history(world: &World, names: &BTreeMap<WorldlineId, String>) -> Vec<Value> {
    let mut findings: Vec<Value> = Vec::new();
    for (w, name) in names {
        let Ok(len) = world.prov.len(*w) else { continue };
        let mut prev: Option<ProvenanceRef> = None;
        for t in 0..len {
            match world.prov.entry(*w, wt(t)) {
                Err(e) => findings.push(json!({"key":"chain.gap:runtime_append","detail":format!("worldline {name}: no entry at tick {t}: {e:?}")})),
                Ok(e) => {
                    if e.worldline_tick.as_u64() != t || e.worldline_id != *w {
                        findings.push(json!({"key":"chain.gap:runtime_append","detail":format!("worldline {name}: entry at index {t} carries tick {} / another worldline", e.worldline_tick.as_u64())}));
                    }
                    let want: Vec<ProvenanceRef> = prev.into_iter().collect();
                    if e.parents != want {
                        findings.push(json!({"key":"chain.parent_link:runtime_append",
                            "detail":format!("worldline {name}: the entry the runtime appended at tick {t} (head {:?}, global tick {}) records parents at ticks {:?}; the previous entry of the worldline is {:?}",
                                e.head_key.map(|h| hex::encode(&h.head_id.as_bytes()[..4])), e.commit_global_tick.as_u64(),
                                e.parents.iter().map(|p| p.worldline_tick.as_u64()).collect::<Vec<_>>(), want.first().map(|p| p.worldline_tick.as_u64()))}));
                    }
                    prev = Some(e.as_ref());
                }
            }
        }
        let live = world.live(*w);
        let live_proj = project_full(live.warp_state());
        let check = |ep: &str, t: u64, got: &WorldlineState, findings: &mut Vec<Value>| {
            let mut bad: Vec<&str> = Vec::new();
            let lh = live.tick_history();
            if got.tick_history().len() as u64 != t || lh.len() < t as usize || got.tick_history() != &lh[..t as usize] {
                bad.push("tick_history");
            }
            if t > 0 && lh.len() >= t as usize && got.state_root() != lh[t as usize - 1].0.state_root {
                bad.push("state_root");
            }
            if t == len && (project_full(got.warp_state()) != live_proj || lm_of(got) != lm_of(&live) || got.state_root() != live.state_root()) {
                bad.push("frontier_state");
            }
            if !bad.is_empty() {
                findings.push(json!({"key": format!("untampered_history_does_not_verify:{ep}"),
                    "detail": format!("worldline {name} tick {t}: re-verification returns a result different from the live runtime's ({bad:?})")}));
            }
        };
        for t in 0..=len {
            match util::catch(|| world.prov.replay_worldline_state_at(*w, &world.u0, wt(t))) {
                Err(p) => findings.push(json!({"key":"untampered_history_does_not_verify:replay_worldline_state_at","detail":format!("worldline {name} tick {t}: panic {p}")})),
                Ok(Err(e)) => findings.push(json!({"key":"untampered_history_does_not_verify:replay_worldline_state_at",
                    "detail":format!("worldline {name}: the untampered history the runtime appended does not replay at tick {t}: {e:?}")})),
                Ok(Ok(s)) => check("replay_worldline_state_at", t, &s, &mut findings),
            }
            let mut c = PlaybackCursor::new(CursorId([4; 32]), *w, ids::warp("w0"), CursorRole::Reader, &world.u0, wt(len));
            match util::catch(|| c.seek_to(wt(t), &world.prov, &world.u0)) {
                Err(p) => findings.push(json!({"key":"untampered_history_does_not_verify:PlaybackCursor::seek_to","detail":format!("worldline {name} tick {t}: panic {p}")})),
                Ok(Err(e)) => findings.push(json!({"key":"untampered_history_does_not_verify:PlaybackCursor::seek_to",
                    "detail":format!("worldline {name}: seek_to({t}) on the untampered history fails: {e:?}")})),
                Ok(Ok(())) => check("PlaybackCursor::seek_to", t, c.materialized_state(), &mut findings),
            }
        }
    }
    findings
}

/// Runs the model's store through the real runtime: non-fork lanes share SuperTicks (multi-worldline,
/// alternating heads), forks continue on a real child frontier.
pub(crate) fn build_store(spec: &StoreJ, trace: &mut Vec<Value>) -> Result<Built, String> {
    let mut multi = 0u64;
    let u0 = c07::u0_state(&spec.u0);
    let mut world = World::new(&u0, 0x0100_0000)?;
    // World::new registers MAIN = wl_id(1): lane index k gets wl_id(k+1)
    let mut names: BTreeMap<WorldlineId, String> = BTreeMap::new();
    let mut ids_by_name: BTreeMap<String, WorldlineId> = BTreeMap::new();
    for (k, l) in spec.lanes.iter().enumerate() {
        let id = wl_id(k as u8 + 1);
        names.insert(id, l.w.clone());
        ids_by_name.insert(l.w.clone(), id);
        if l.fork_of.is_empty() && k > 0 {
            world.runtime.register_worldline(id, u0.clone()).map_err(|e| format!("register {}: {e:?}", l.w))?;
            c07::register_heads(&mut world.runtime, id)?;
            world.prov.register_worldline(id, &u0).map_err(|e| format!("prov register {}: {e:?}", l.w))?;
        }
        if l.fork_of.is_empty() {
            trace.push(json!({"event":"register","w":l.w}));
        }
    }
    if !spec.lanes.first().is_some_and(|l| l.fork_of.is_empty()) {
        return Err("first lane must not be a fork".into());
    }
    let mut seen = BTreeMap::new();
    let maxlen = spec.lanes.iter().filter(|l| l.fork_of.is_empty()).map(|l| l.ticks.len()).max().unwrap_or(0);
    for i in 0..maxlen {
        let mut want = 0;
        for l in spec.lanes.iter().filter(|l| l.fork_of.is_empty() && l.ticks.len() > i) {
            world.ingest(ids_by_name[&l.w], head_ix(&l.ticks[i].head), &micro_ops(&l.ticks[i].ops))?;
            want += 1;
        }
        let recs = world.super_tick()?;
        if recs.len() != want {
            return Err(format!("super tick {i}: {} commits, expected {want}", recs.len()));
        }
        multi += multi_head(&recs);
        log_new_entries(&world, &names, &mut seen, trace);
    }
    // before anything is forked or tampered with: the runtime's own store must be a chain that re-verifies
    let roots: BTreeMap<WorldlineId, String> = names.iter().filter(|(_, n)| spec.lanes.iter().any(|l| &l.w == *n && l.fork_of.is_empty())).map(|(k, v)| (*k, v.clone())).collect();
    let findings = check_runtime_history(&world, &roots);
    if !findings.is_empty() {
        return Ok(Built { store: None, findings, multi_head_superticks: multi });
    }
    for l in spec.lanes.iter().filter(|l| !l.fork_of.is_empty()) {
        let src = ids_by_name[&l.fork_of];
        let child = ids_by_name[&l.w];
        if let Err(e) = world.fork(src, l.fork_at as u64, child) {
            return Ok(Built { store: None, multi_head_superticks: multi,
                findings: vec![json!({"key":"untampered_history_does_not_verify:fork_replay","detail":format!("fork of {} at {}: {e}", l.fork_of, l.fork_at)})] });
        }
        trace.push(json!({"event":"fork","src":l.fork_of,"at":l.fork_at,"new":l.w}));
        seen.insert(child, l.fork_at as u64 + 1);
        for i in (l.fork_at as usize + 1)..l.ticks.len() {
            world.ingest(child, head_ix(&l.ticks[i].head), &micro_ops(&l.ticks[i].ops))?;
            let recs = world.super_tick()?;
            if recs.len() != 1 {
                return Err(format!("fork lane {} tick {i}: {} commits", l.w, recs.len()));
            }
            log_new_entries(&world, &names, &mut seen, trace);
        }
    }
    let mut lanes = Vec::new();
    for l in &spec.lanes {
        let id = ids_by_name[&l.w];
        let mut entries = Vec::new();
        for (i, t) in l.ticks.iter().enumerate() {
            let mut e = world.prov.entry(id, wt(i as u64)).map_err(|e| format!("entry {} {i}: {e:?}", l.w))?;
            // recorded outputs of the scenario (rules cannot emit through the bus; see c07.rs). The
            // copied prefix of a fork keeps the source's outputs, exactly as fork() copies them.
            let outs = match &l.fork_of {
                f if !f.is_empty() && (i as i64) <= l.fork_at => {
                    spec.lanes.iter().find(|s| &s.w == f).map(|s| s.ticks[i].outs.clone()).unwrap_or_default()
                }
                _ => t.outs.clone(),
            };
            e.outputs = synth_outs(&outs);
            entries.push(e);
        }
        lanes.push(Lane {
            name: l.w.clone(),
            id,
            fork_of: if l.fork_of.is_empty() { None } else { Some((l.fork_of.clone(), l.fork_at as u64)) },
            entries,
        });
    }
    let findings = check_runtime_history(&world, &names);
    Ok(Built { store: if findings.is_empty() { Some(Store { u0, lanes }) } else { None }, findings, multi_head_superticks: multi })
}

// --------------------------------------------------------------------------- tamper catalogue

#[derive(Deserialize, Clone, Debug, Default)]
pub struct CaseJ {
    pub kind: String,
    pub pos: i64,
    #[serde(default)]
    pub field: String,
    #[serde(default)]
    pub variant: String,
    #[serde(default)]
    pub rebuild: String,
    #[serde(default)]
    pub at: i64,
    #[serde(default)]
    pub ticks: Vec<String>,
    #[serde(default)]
    pub ckpt: String,
    #[serde(default)]
    pub ckticks: Vec<String>,
}

pub const ALTER_VARIANTS: &[(&str, &str)] = &[
    ("w", "other"), ("w", "unregistered"), ("tick", "plus1"), ("tick", "minus1"), ("gtick", "alter"),
    ("head", "none"), ("head", "otherhead"), ("head", "otherworldline"),
    ("parents", "drop"), ("parents", "cid_flip"), ("parents", "grandparent"), ("parents", "tick_alter"),
    ("parents", "sibling_w"), ("parents", "add_second"),
    ("kind", "alter"), ("root", "flip"), ("pd", "flip"), ("cid", "flip"),
    ("patch", "none"), ("patch.gtick", "alter"), ("patch.policy", "alter"), ("patch.pack", "alter"),
    ("patch.plan", "alter"), ("patch.decision", "alter"), ("patch.rewrites", "alter"), ("patch.warp", "alter"),
    ("patch.ops", "alter"), ("patch.ops", "drop"), ("patch.ops", "add"), ("patch.slots", "alter"), ("patch.pdigest", "flip"),
    ("patch.slots", "consistent"), ("patch.policy", "consistent"), ("patch.ops", "consistent"),
    ("receipt", "none"), ("receipt.tx", "alter"), ("receipt.digest", "alter"),
    ("outputs", "alter"), ("outputs", "drop"), ("outputs", "add"), ("atomw", "add"),
];

pub(crate) fn flip(h: &mut Hash) {
    h[0] ^= 0x55;
    h[31] ^= 0x01;
}

pub(crate) struct Ctx<'a> {
    pub(crate) target: &'a Lane,
    pub(crate) sibling: Option<&'a Lane>,
    pub(crate) independent: Option<&'a Lane>,
    /// original materializations of the target per tick (pre-state of entry t = orig[t])
    pub(crate) orig: &'a [WorldlineState],
}

/// Digest of the patch as replay recomputes it.
fn recomputed_patch_digest(p: &warp_core::WorldlineTickPatchV1) -> Hash {
    warp_core::WarpTickPatchV1::new(p.policy_id(), p.rule_pack_id(), warp_core::TickCommitStatus::Committed, p.in_slots.clone(), p.out_slots.clone(), p.ops.clone()).digest()
}

fn is_slot_att(op: &WarpOp) -> bool {
    match op {
        WarpOp::SetAttachment { key, .. } => ["n1", "n2", "n3"].iter().any(|n| *key == AttachmentKey::node_alpha(absgraph::nkey("w0", n))),
        _ => false,
    }
}

/// Applies one single-field alteration; `Err` = not applicable to this entry.
pub(crate) fn alter(ctx: &Ctx<'_>, e: &ProvenanceEntry, field: &str, variant: &str) -> Result<ProvenanceEntry, String> {
    let mut e = e.clone();
    let t = e.worldline_tick.as_u64();
    let na = |w: &str| Err(format!("not applicable: {w}"));
    match (field, variant) {
        ("w", "other") => e.worldline_id = ctx.independent.map(|l| l.id).ok_or("no independent lane")?,
        ("w", "unregistered") => e.worldline_id = wl_id(0xEE),
        ("tick", "plus1") => e.worldline_tick = wt(t + 1),
        ("tick", "minus1") => {
            if t == 0 {
                return na("tick 0");
            }
            e.worldline_tick = wt(t - 1);
        }
        ("gtick", _) => e.commit_global_tick = GlobalTick::from_raw(e.commit_global_tick.as_u64() + 7),
        ("head", "none") => e.head_key = None,
        ("head", "otherhead") => e.head_key = Some(WriterHeadKey { worldline_id: e.worldline_id, head_id: make_head_id("verif-h9") }),
        ("head", "otherworldline") => {
            let hk = e.head_key.ok_or("no head")?;
            e.head_key = Some(WriterHeadKey { worldline_id: ctx.independent.map(|l| l.id).ok_or("no independent lane")?, head_id: hk.head_id });
        }
        ("parents", v) => {
            if e.parents.is_empty() && v != "grandparent" && v != "add_second" {
                return na("no parent");
            }
            match v {
                "drop" => e.parents.clear(),
                "cid_flip" => flip(&mut e.parents[0].commit_hash),
                "tick_alter" => e.parents[0].worldline_tick = wt(e.parents[0].worldline_tick.as_u64() + 1),
                "sibling_w" => {
                    // the sibling holds the same commit at that tick only inside the copied prefix
                    let s = ctx.sibling.ok_or("no sibling")?;
                    e.parents[0].worldline_id = s.id;
                }
                "grandparent" | "add_second" => {
                    if t < 2 {
                        return na("no grandparent");
                    }
                    let g = ctx.target.entries[t as usize - 2].as_ref();
                    if v == "grandparent" {
                        e.parents = vec![g];
                    } else {
                        e.parents.push(g);
                        e.parents.sort_by(|a, b| a.commit_hash.cmp(&b.commit_hash));
                    }
                }
                _ => return Err(format!("unknown parents variant {v}")),
            }
        }
        ("kind", _) => e.event_kind = ProvenanceEventKind::ConflictArtifact { artifact_id: [3; 32] },
        ("root", _) => flip(&mut e.expected.state_root),
        ("pd", _) => flip(&mut e.expected.patch_digest),
        ("cid", _) => flip(&mut e.expected.commit_hash),
        ("patch", "none") => e.patch = None,
        ("receipt", "none") => e.tick_receipt = None,
        ("receipt.tx", _) => {
            // TickReceipt has no public constructor: a receipt of another tick of the same worldline
            let other = ctx.target.entries.iter().find(|x| x.worldline_tick != e.worldline_tick && x.tick_receipt.is_some()).ok_or("no other receipt")?;
            e.tick_receipt = other.tick_receipt.clone();
        }
        ("receipt.digest", _) => {
            // same tx (same tick), different content: the receipt another worldline produced at this tick
            let cand = [ctx.independent, ctx.sibling]
                .into_iter()
                .flatten()
                .filter_map(|l| l.entries.get(t as usize))
                .filter_map(|x| x.tick_receipt.clone())
                .find(|r| Some(r.digest()) != e.tick_receipt.as_ref().map(|x| x.digest()));
            e.tick_receipt = Some(cand.ok_or("no receipt with the same tx and another digest")?);
        }
        ("outputs", "alter") => {
            let f = e.outputs.first_mut().ok_or("no outputs")?;
            f.1[0] ^= 0x20;
        }
        ("outputs", "drop") => {
            if e.outputs.is_empty() {
                return na("no outputs");
            }
            e.outputs.clear();
        }
        ("outputs", "add") => e.outputs.push((make_channel_id("verif:c05:extra"), b"extra frame".to_vec())),
        ("atomw", _) => e.atom_writes.push(AtomWrite::new(absgraph::nkey("w0", "n1"), [9; 32], t, None, vec![1, 2, 3])),
        (f, v) if f.starts_with("patch.") => {
            let p = e.patch.as_mut().ok_or("no patch")?;
            match (f, v) {
                // the field and every digest derived from it recomputed: only the commit id can tell
                ("patch.slots", "consistent") | ("patch.policy", "consistent") | ("patch.ops", "consistent") => {
                    match f {
                        "patch.slots" => p.out_slots.push(SlotId::Node(absgraph::nkey("w0", "n3"))),
                        "patch.policy" => p.header.policy_id = p.header.policy_id.wrapping_add(1),
                        _ => {
                            let op = p.ops.iter_mut().find(|o| is_slot_att(o)).ok_or("no slot op")?;
                            if let WarpOp::SetAttachment { value, .. } = op {
                                *value = if *value == Some(AttachmentValue::Atom(ids::atom("p1"))) {
                                    Some(AttachmentValue::Atom(ids::atom("p2")))
                                } else {
                                    Some(AttachmentValue::Atom(ids::atom("p1")))
                                };
                            }
                            let mut st = ctx.orig.get(t as usize).ok_or("no pre-state")?.clone();
                            p.apply_to_worldline_state(&mut st).map_err(|e| format!("not applicable: tampered ops do not apply: {e:?}"))?;
                            e.expected.state_root = st.state_root();
                        }
                    }
                    let d = recomputed_patch_digest(p);
                    p.patch_digest = d;
                    e.expected.patch_digest = d;
                }
                ("patch.gtick", _) => p.header.commit_global_tick = GlobalTick::from_raw(p.header.commit_global_tick.as_u64() + 7),
                ("patch.policy", _) => p.header.policy_id = p.header.policy_id.wrapping_add(1),
                ("patch.pack", _) => flip(&mut p.header.rule_pack_id),
                ("patch.plan", _) => flip(&mut p.header.plan_digest),
                ("patch.decision", _) => flip(&mut p.header.decision_digest),
                ("patch.rewrites", _) => flip(&mut p.header.rewrites_digest),
                ("patch.warp", _) => p.warp_id = ids::warp("w1"),
                ("patch.pdigest", _) => flip(&mut p.patch_digest),
                ("patch.slots", _) => p.out_slots.push(SlotId::Node(absgraph::nkey("w0", "n3"))),
                ("patch.ops", "alter") => {
                    let op = p.ops.iter_mut().find(|o| is_slot_att(o)).ok_or("no slot op")?;
                    if let WarpOp::SetAttachment { value, .. } = op {
                        *value = if *value == Some(AttachmentValue::Atom(ids::atom("p1"))) {
                            Some(AttachmentValue::Atom(ids::atom("p2")))
                        } else {
                            Some(AttachmentValue::Atom(ids::atom("p1")))
                        };
                    }
                }
                ("patch.ops", "drop") => {
                    let i = p.ops.iter().position(is_slot_att).ok_or("no slot op")?;
                    p.ops.remove(i);
                }
                ("patch.ops", "add") => {
                    let written: Vec<&WarpOp> = p.ops.iter().filter(|o| is_slot_att(o)).collect();
                    let free = ["n1", "n2", "n3"].into_iter().find(|n| {
                        !written.iter().any(|o| matches!(o, WarpOp::SetAttachment { key, .. } if *key == AttachmentKey::node_alpha(absgraph::nkey("w0", n))))
                    });
                    let n = free.unwrap_or("n1");
                    p.ops.push(WarpOp::SetAttachment {
                        key: AttachmentKey::node_alpha(absgraph::nkey("w0", n)),
                        value: Some(AttachmentValue::Atom(ids::atom("p2"))),
                    });
                }
                _ => return Err(format!("unknown patch tamper {f}/{v}")),
            }
        }
        _ => return Err(format!("unknown tamper {field}/{variant}")),
    }
    Ok(e)
}

pub(crate) fn rewrite_for(mut e: ProvenanceEntry, from: WorldlineId, to: WorldlineId, claim_only: bool) -> ProvenanceEntry {
    e.worldline_id = to;
    if !claim_only {
        if let Some(h) = e.head_key.as_mut() {
            if h.worldline_id == from {
                h.worldline_id = to;
            }
        }
        for p in &mut e.parents {
            if p.worldline_id == from {
                p.worldline_id = to;
            }
        }
    }
    e
}

/// The tampered retained sequence of the target lane.
fn tampered_seq(ctx: &Ctx<'_>, c: &CaseJ) -> Result<Vec<ProvenanceEntry>, String> {
    let ea = &ctx.target.entries;
    let pos = c.pos.max(0) as usize;
    let mut v = ea.clone();
    let need = |n: usize| if n < ea.len() { Ok(()) } else { Err("not applicable: position".to_string()) };
    match c.kind.as_str() {
        "none" => {}
        "alter" => {
            need(pos)?;
            v[pos] = alter(ctx, &ea[pos], &c.field, &c.variant)?;
        }
        "swap" => {
            need(pos + 1)?;
            v.swap(pos, pos + 1);
        }
        "swap_renumbered" => {
            need(pos + 1)?;
            v.swap(pos, pos + 1);
            v[pos].worldline_tick = wt(pos as u64);
            v[pos + 1].worldline_tick = wt(pos as u64 + 1);
        }
        "duplicate" => {
            need(pos)?;
            v.insert(pos + 1, ea[pos].clone());
        }
        "truncate" => {
            need(pos)?;
            v.truncate(pos);
        }
        "drop_middle" => {
            need(pos + 1)?;
            v.remove(pos);
        }
        "transplant" | "transplant_claimed" | "transplant_rewritten" => {
            need(pos)?;
            let donor = if c.variant == "sibling" { ctx.sibling } else { ctx.independent }.ok_or("no donor lane")?;
            let d = donor.entries.get(pos).ok_or("not applicable: donor shorter")?.clone();
            v[pos] = match c.kind.as_str() {
                "transplant" => d,
                "transplant_claimed" => rewrite_for(d, donor.id, ctx.target.id, true),
                _ => rewrite_for(d, donor.id, ctx.target.id, false),
            };
        }
        other => return Err(format!("unknown case kind {other}")),
    }
    Ok(v)
}

// --------------------------------------------------------------------------- results

pub(crate) fn dbg_name<T: std::fmt::Debug>(e: &T) -> String {
    let s = format!("{e:?}");
    s.split(|c: char| !c.is_alphanumeric()).next().unwrap_or("").to_string()
}

pub(crate) fn replay_err_name(e: &ReplayError) -> String {
    match e {
        ReplayError::History(h) => dbg_name(h),
        ReplayError::Apply { .. } => "ApplyError".into(),
        other => dbg_name(other),
    }
}

/// "same" | "diff_diag" | "diff_core:<aspects>"
pub(crate) fn classify(got: &WorldlineState, orig: &WorldlineState) -> String {
    let mut core: Vec<&str> = Vec::new();
    let mut diag = false;
    if project_full(got.warp_state()) != project_full(orig.warp_state()) {
        core.push("graph_content");
    }
    if got.root() != orig.root() {
        core.push("root_key");
    }
    if got.state_root() != orig.state_root() {
        core.push("state_root");
    }
    if got.tick_history().len() != orig.tick_history().len() {
        core.push("tick_history_len");
    } else {
        for ((gs, gr, gp), (os, or, op)) in got.tick_history().iter().zip(orig.tick_history()) {
            if gs.hash != os.hash || gs.state_root != os.state_root || gs.parents != os.parents || gs.patch_digest != os.patch_digest
                || gs.policy_id != os.policy_id || gs.tx != os.tx || gs.root != os.root
            {
                core.push("tick_history.snapshot");
            }
            if gr != or {
                core.push("tick_history.receipt");
            }
            if gp != op {
                core.push("tick_history.patch");
            }
            if gs.plan_digest != os.plan_digest || gs.decision_digest != os.decision_digest || gs.rewrites_digest != os.rewrites_digest {
                diag = true;
            }
        }
    }
    if lm_of(got) != lm_of(orig) {
        core.push("last_materialization");
    }
    core.sort();
    core.dedup();
    if !core.is_empty() {
        format!("diff_core:{}", core.join("+"))
    } else if diag {
        "diff_diag".into()
    } else {
        "same".into()
    }
}

fn class_of(outcome: &str) -> &str {
    outcome.split(':').next().unwrap_or(outcome)
}

struct Verify {
    /// per entry point: outcome per tick
    by_ep: BTreeMap<&'static str, Vec<String>>,
}

/// Re-verifies every tick 0..=len of worldline `w` of `svc` against the original states.
fn verify_ticks(svc: &ProvenanceService, w: WorldlineId, u0: &WorldlineState, orig: &[WorldlineState], with_cursor: bool) -> Verify {
    let len = svc.len(w).unwrap_or(0);
    let mut by_ep: BTreeMap<&'static str, Vec<String>> = BTreeMap::new();
    let blank = WorldlineState::empty();
    let orig_at = |t: u64| orig.get(t as usize).unwrap_or(&blank);
    let mut walker = PlaybackCursor::new(CursorId([5; 32]), w, ids::warp("w0"), CursorRole::Reader, u0, wt(len));
    let mut walker_dead = false;
    for t in 0..=len {
        let r = util::catch(|| svc.replay_worldline_state_at(w, u0, wt(t)));
        by_ep.entry("replay_worldline_state_at").or_default().push(match r {
            Err(p) => format!("panic:{p}"),
            Ok(Err(e)) => format!("err:{}", replay_err_name(&e)),
            Ok(Ok(s)) => classify(&s, orig_at(t)),
        });
        if !with_cursor {
            continue;
        }
        let mut c = PlaybackCursor::new(CursorId([6; 32]), w, ids::warp("w0"), CursorRole::Reader, u0, wt(len));
        let r = util::catch(|| c.seek_to(wt(t), svc, u0));
        by_ep.entry("PlaybackCursor::seek_to").or_default().push(match r {
            Err(p) => format!("panic:{p}"),
            Ok(Err(e)) => format!("err:{}", c07::seek_err_class(&e)),
            Ok(Ok(())) => classify(c.materialized_state(), orig_at(t)),
        });
        // one cursor advancing tick by tick (the advance path); unusable after its first error
        let out = if walker_dead {
            "err:after_error".to_string()
        } else {
            match util::catch(|| walker.seek_to(wt(t), svc, u0)) {
                Err(p) => {
                    walker_dead = true;
                    format!("panic:{p}")
                }
                Ok(Err(e)) => {
                    walker_dead = true;
                    format!("err:{}", c07::seek_err_class(&e))
                }
                Ok(Ok(())) => classify(walker.materialized_state(), orig_at(t)),
            }
        };
        by_ep.entry("PlaybackCursor::seek_to(stepwise)").or_default().push(out);
    }
    Verify { by_ep }
}

pub(crate) fn field_key(c: &CaseJ) -> String {
    match c.kind.as_str() {
        "alter" => match c.field.as_str() {
            "w" => "entry.worldline_id".into(),
            "tick" => "entry.worldline_tick".into(),
            "gtick" => "entry.commit_global_tick".into(),
            "head" => "entry.head_key".into(),
            "parents" => format!("entry.parents({})", c.variant),
            "kind" => "entry.event_kind".into(),
            "root" => "entry.expected.state_root".into(),
            "pd" => "entry.expected.patch_digest".into(),
            "cid" => "entry.expected.commit_hash".into(),
            "patch" => "entry.patch(none)".into(),
            "patch.gtick" => "entry.patch.header.commit_global_tick".into(),
            "patch.policy" => "entry.patch.header.policy_id".into(),
            "patch.pack" => "entry.patch.header.rule_pack_id".into(),
            "patch.plan" => "entry.patch.header.plan_digest".into(),
            "patch.decision" => "entry.patch.header.decision_digest".into(),
            "patch.rewrites" => "entry.patch.header.rewrites_digest".into(),
            "patch.warp" => "entry.patch.warp_id".into(),
            "patch.ops" => "entry.patch.ops".into(),
            "patch.slots" => "entry.patch.out_slots".into(),
            "patch.pdigest" => "entry.patch.patch_digest".into(),
            "receipt" => "entry.tick_receipt(dropped)".into(),
            "receipt.tx" => "entry.tick_receipt.tx".into(),
            "receipt.digest" => "entry.tick_receipt.entries".into(),
            "outputs" => "entry.outputs".into(),
            "atomw" => "entry.atom_writes".into(),
            other => format!("entry.{other}"),
        },
        k => format!("{k}({})", c.variant),
    }
}

struct Prep<'a> {
    store: &'a Store,
    target: String,
    orig_svc: ProvenanceService,
    orig: Vec<WorldlineState>,
    donor_states: BTreeMap<String, Vec<WorldlineState>>,
}

fn prep<'a>(store: &'a Store, target: &str) -> Result<Prep<'a>, String> {
    let mut svc = store.service_without("");
    let svc = svc.as_mut().map_err(|e| e.clone())?.clone();
    let replay_all = |name: &str| -> Result<Vec<WorldlineState>, String> {
        let l = store.lane(name).ok_or("lane")?;
        (0..=l.entries.len() as u64)
            .map(|t| svc.replay_worldline_state_at(l.id, &store.u0, wt(t)).map_err(|e| format!("original {name} does not verify at {t}: {e:?}")))
            .collect()
    };
    let orig = replay_all(target)?;
    let mut donor_states = BTreeMap::new();
    for l in &store.lanes {
        if l.name != target {
            donor_states.insert(l.name.clone(), replay_all(&l.name)?);
        }
    }
    Ok(Prep { store, target: target.to_string(), orig_svc: svc, orig, donor_states })
}

fn pick_lanes<'a>(p: &'a Prep<'a>) -> Ctx<'a> {
    let store = p.store;
    let target = p.target.as_str();
    let t = store.lane(target).expect("target lane");
    let sibling = store.lanes.iter().find(|l| l.fork_of.as_ref().is_some_and(|(s, _)| s == target));
    let independent = store.lanes.iter().find(|l| l.name != target && l.fork_of.is_none());
    Ctx { target: t, sibling, independent, orig: &p.orig }
}

/// Runs one tamper case. Output: observed outcome + findings (violations with stable keys) + drift.
fn run_case(p: &Prep<'_>, c: &CaseJ, have_pred: bool) -> Value {
    let ctx = pick_lanes(p);
    let mut findings: Vec<Value> = Vec::new();
    let mut drift: Vec<String> = Vec::new();
    let fkey = field_key(c);
    if c.kind == "ckpt" {
        return run_ckpt_case(p, &ctx, c, have_pred);
    }
    let seq = match tampered_seq(&ctx, c) {
        Ok(s) => s,
        Err(e) if e.starts_with("not applicable") || e.starts_with("no ") => {
            if have_pred {
                return json!({"verdict":"tool_error","detail":format!("model case not applicable to the real entries: {e}")});
            }
            return json!({"verdict":"skip","detail":e});
        }
        Err(e) => return json!({"verdict":"tool_error","detail":e}),
    };
    // ---- rebuild through the real append validation
    let mut svc = match p.store.service_without(&p.target) {
        Ok(s) => s,
        Err(e) => return json!({"verdict":"tool_error","detail":e}),
    };
    let mut rebuild = "ok".to_string();
    let mut at = 0i64;
    for (i, e) in seq.iter().enumerate() {
        if e.worldline_id != ctx.target.id {
            // the verifier rebuilds worldline `target`: an entry claiming another worldline is not its history
            rebuild = "EntryWorldlineMismatch".into();
            at = i as i64;
            break;
        }
        match util::catch(|| svc.append_local_commit(e.clone())) {
            Err(pn) => {
                rebuild = format!("panic:{pn}");
                at = i as i64;
                break;
            }
            Ok(Err(he)) => {
                rebuild = dbg_name(&he);
                at = i as i64;
                break;
            }
            Ok(Ok(())) => {}
        }
    }
    if rebuild.starts_with("panic") {
        findings.push(json!({"key": format!("{fkey}:append_local_commit(panic)"), "detail": rebuild.clone()}));
    }
    let n = svc.len(ctx.target.id).unwrap_or(0);
    // ---- the chain clause on whatever the store retained: gap-free ticks, worldline binding, every parent
    // ref resolves to a retained entry with that commit id (a store never holds a broken link)
    for t in 0..n {
        match svc.entry(ctx.target.id, wt(t)) {
            Err(e) => findings.push(json!({"key": format!("store_chain.gap:{fkey}"), "detail": format!("retained worldline has no entry at tick {t}: {e:?}")})),
            Ok(e) => {
                if e.worldline_tick.as_u64() != t {
                    findings.push(json!({"key": "store_chain.gap:append_local_commit", "detail": format!("{} {} {} at position {}: the store retained an entry with worldline_tick {} at index {t}", c.kind, c.field, c.variant, c.pos, e.worldline_tick.as_u64())}));
                }
                if e.worldline_id != ctx.target.id {
                    findings.push(json!({"key": "store_chain.worldline_binding:append_local_commit", "detail": format!("{} {} {} at position {}: foreign entry retained at index {t}", c.kind, c.field, c.variant, c.pos)}));
                }
                for pr in &e.parents {
                    let ok = svc.entry(pr.worldline_id, pr.worldline_tick).map(|x| x.expected.commit_hash == pr.commit_hash).unwrap_or(false);
                    if !ok {
                        findings.push(json!({"key": "store_chain.parent_link:append_local_commit", "detail": format!("{} {} {} at position {}: the store retained an entry at tick {t} whose parent ref does not resolve to a retained commit", c.kind, c.field, c.variant, c.pos)}));
                    }
                }
            }
        }
    }
    // ---- every tick through every entry point
    let ver = verify_ticks(&svc, ctx.target.id, &p.store.u0, &p.orig, true);
    let donor = if c.kind == "transplant_rewritten" {
        let dn = if c.variant == "sibling" { ctx.sibling } else { ctx.independent };
        dn.and_then(|l| p.donor_states.get(&l.name))
    } else {
        None
    };
    for (ep_full, outs) in &ver.by_ep {
        let ep = ep_full.split('(').next().unwrap_or(ep_full);
        for (t, o) in outs.iter().enumerate() {
            let cls = class_of(o);
            if cls == "panic" {
                findings.push(json!({"key": format!("{fkey}:{ep}(panic)"), "detail": format!("tick {t}: {o}")}));
            } else if cls == "diff_core" || cls == "diff_diag" {
                // a consistently rewritten transplant is a valid alternative branch: accepted only as the donor's own history
                if let Some(ds) = donor {
                    let got = svc.replay_worldline_state_at(ctx.target.id, &p.store.u0, wt(t as u64));
                    if let (Ok(g), Some(d)) = (got, ds.get(t)) {
                        if classify(&g, d) == "same" {
                            continue;
                        }
                    }
                }
                let pre = if cls == "diff_diag" { "diag:" } else { "" };
                findings.push(json!({"key": format!("{pre}{fkey}:{ep}"),
                    "detail": format!("{} {} {} at position {}: accepted, {ep_full} at tick {t} verifies to a different result ({o})", c.kind, c.field, c.variant, c.pos)}));
            }
        }
    }
    // ---- a checkpoint of the ORIGINAL state right after the tampered entry, offered to the rebuilt store
    let ct = if c.kind == "none" { 1 } else { c.pos.max(0) as u64 + 1 };
    let mut ckpt = "HistoryUnavailable".to_string();
    let mut ckticks: Vec<String> = Vec::new();
    if (ct as usize) < p.orig.len() {
        let mut svc2 = svc.clone();
        let r = util::catch(|| svc2.add_checkpoint(ctx.target.id, ReplayCheckpoint::from_state(&p.orig[ct as usize])));
        ckpt = match r {
            Err(pn) => format!("panic:{pn}"),
            Ok(Err(e)) => dbg_name(&e),
            Ok(Ok(())) => "ok".into(),
        };
        let v2 = verify_ticks(&svc2, ctx.target.id, &p.store.u0, &p.orig, true);
        for (ep_full, outs) in &v2.by_ep {
            let ep = ep_full.split('(').next().unwrap_or(ep_full);
            for (t, o) in outs.iter().enumerate() {
                let cls = class_of(o);
                if cls == "diff_core" || cls == "diff_diag" || cls == "panic" {
                    // without an accepted checkpoint this is the plain replay already reported above
                    if donor.is_some() || ckpt != "ok" {
                        continue;
                    }
                    let pre = if cls == "diff_diag" { "diag:" } else { "" };
                    findings.push(json!({"key": format!("{pre}{fkey}:checkpoint_restore+{ep}"),
                        "detail": format!("{} {} {} at position {}: checkpoint at {ct} {ckpt}; tick {t}: {o}", c.kind, c.field, c.variant, c.pos)}));
                }
            }
        }
        ckticks = v2.by_ep.get("replay_worldline_state_at").cloned().unwrap_or_default();
    } else {
        ckticks = ver.by_ep.get("replay_worldline_state_at").cloned().unwrap_or_default();
    }
    // ---- BTR: a record cut from the rebuilt store must not validate against the original store unless identical
    if n > 0 {
        if let Ok(btr) = svc.build_btr(ctx.target.id, wt(0), wt(n), 1, Vec::new()) {
            let same_entries = (0..n as usize).all(|i| p.store.lane(&p.target).and_then(|l| l.entries.get(i)) == btr.payload.entries.get(i));
            match p.orig_svc.validate_btr(&btr) {
                Ok(()) if !same_entries => findings.push(json!({"key": format!("{fkey}:validate_btr"),
                    "detail": format!("BTR over the tampered history validates against the original store ({} {} {})", c.kind, c.field, c.variant)})),
                _ => {}
            }
        }
    }
    // ---- prediction
    let ticks = ver.by_ep.get("replay_worldline_state_at").cloned().unwrap_or_default();
    if have_pred {
        if rebuild != c.rebuild || (rebuild != "ok" && at != c.at) {
            drift.push(format!("rebuild {rebuild}@{at}, model {}@{}", c.rebuild, c.at));
        }
        let norm = |v: &[String]| v.iter().map(|s| if s.starts_with("diff_core") { "diff_core".to_string() } else { s.clone() }).collect::<Vec<_>>();
        let (got, want) = (norm(&ticks), norm(&c.ticks));
        if got.len() != want.len() || got.iter().zip(&want).any(|(g, w)| class_of(g) != class_of(w)) {
            drift.push(format!("ticks {got:?}, model {want:?}"));
        } else if got != want {
            drift.push(format!("error names differ: {got:?}, model {want:?}"));
        }
        if ckpt != c.ckpt {
            drift.push(format!("checkpoint verdict {ckpt}, model {}", c.ckpt));
        }
        let (got, want) = (norm(&ckticks), norm(&c.ckticks));
        if got.len() != want.len() || got.iter().zip(&want).any(|(g, w)| class_of(g) != class_of(w)) {
            drift.push(format!("ticks with checkpoint {got:?}, model {want:?}"));
        }
    }
    json!({"verdict": if findings.is_empty() {"ok"} else {"violation"}, "findings": findings, "drift": drift,
           "observed": {"rebuild": rebuild, "at": at, "ticks": ticks, "ckpt": ckpt, "ckticks": ckticks,
                        "eps": ver.by_ep.iter().map(|(k, v)| (k.to_string(), json!(v))).collect::<serde_json::Map<_, _>>()}})
}

/// A `ProvenanceStore` that serves one checkpoint it never validated (transported / foreign store):
/// everything else is the intact service.
struct ServedCheckpoint<'a> {
    inner: &'a ProvenanceService,
    w: WorldlineId,
    ck: ReplayCheckpoint,
}

impl ServedCheckpoint<'_> {
    fn serves(&self, w: WorldlineId, tick: warp_core::WorldlineTick) -> bool {
        w == self.w && self.ck.checkpoint.worldline_tick < tick
    }
}

impl ProvenanceStore for ServedCheckpoint<'_> {
    fn u0(&self, w: WorldlineId) -> Result<WarpId, HistoryError> {
        self.inner.u0(w)
    }
    fn initial_boundary_hash(&self, w: WorldlineId) -> Result<Hash, HistoryError> {
        ProvenanceStore::initial_boundary_hash(self.inner, w)
    }
    fn len(&self, w: WorldlineId) -> Result<u64, HistoryError> {
        self.inner.len(w)
    }
    fn entry(&self, w: WorldlineId, tick: warp_core::WorldlineTick) -> Result<ProvenanceEntry, HistoryError> {
        self.inner.entry(w, tick)
    }
    fn parents(&self, w: WorldlineId, tick: warp_core::WorldlineTick) -> Result<Vec<ProvenanceRef>, HistoryError> {
        self.inner.parents(w, tick)
    }
    fn append_local_commit(&mut self, _entry: ProvenanceEntry) -> Result<(), HistoryError> {
        unreachable!("read-only")
    }
    fn append_recorded_event(&mut self, _entry: ProvenanceEntry) -> Result<(), HistoryError> {
        unreachable!("read-only")
    }
    fn checkpoint_before(&self, w: WorldlineId, tick: warp_core::WorldlineTick) -> Option<CheckpointRef> {
        self.serves(w, tick).then_some(self.ck.checkpoint)
    }
    fn checkpoint_state_before(&self, w: WorldlineId, tick: warp_core::WorldlineTick) -> Option<ReplayCheckpoint> {
        self.serves(w, tick).then(|| self.ck.clone())
    }
}

/// A checkpoint with honest metadata (tick, state hash of the chain) whose materialized state was swapped,
/// served by a store that never validated it; every tick is re-verified through `PlaybackCursor::seek_to`
/// (the generic entry point), in particular the seek exactly to the checkpoint tick.
fn run_served_ckpt_case(p: &Prep<'_>, ctx: &Ctx<'_>, c: &CaseJ, have_pred: bool) -> Value {
    let t = c.pos.max(0) as u64 + 1;
    let u0 = &p.store.u0;
    let Some(honest) = p.orig.get(t as usize) else { return json!({"verdict":"skip","detail":"no such tick"}) };
    let other: Option<&WorldlineState> = match c.variant.as_str() {
        "served_state_sibling" => ctx.sibling.and_then(|l| p.donor_states.get(&l.name)).and_then(|s| s.get(t as usize)),
        _ => p.orig.get(t as usize - 1),
    };
    let Some(other) = other else { return json!({"verdict": if have_pred {"tool_error"} else {"skip"}, "detail": "no state to swap in"}) };
    if !have_pred && other.state_root() == honest.state_root() {
        // a swapped state with the same root differs at most in replay metadata, which a foreign store is trusted for
        return json!({"verdict":"skip","detail":"swapped state has the same root"});
    }
    let mut ck = ReplayCheckpoint::from_state(other);
    ck.checkpoint = CheckpointRef { worldline_tick: wt(t), state_hash: honest.state_root() };
    let store = ServedCheckpoint { inner: &p.orig_svc, w: ctx.target.id, ck };
    let len = ctx.target.entries.len() as u64;
    let mut findings: Vec<Value> = Vec::new();
    let mut ticks: Vec<String> = Vec::new();
    for tt in 0..=len {
        let mut cur = PlaybackCursor::new(CursorId([8; 32]), ctx.target.id, ids::warp("w0"), CursorRole::Reader, u0, wt(len));
        let o = match util::catch(|| cur.seek_to(wt(tt), &store, u0)) {
            Err(pn) => format!("panic:{pn}"),
            Ok(Err(e)) => format!("err:{}", c07::seek_err_class(&e)),
            Ok(Ok(())) => classify(cur.materialized_state(), &p.orig[tt as usize]),
        };
        let cls = class_of(&o).to_string();
        if cls == "diff_core" || cls == "diff_diag" || cls == "panic" {
            findings.push(json!({"key": format!("checkpoint({}):PlaybackCursor::seek_to", c.variant),
                "detail": format!("a store serves a checkpoint at tick {t} with the honest state hash but the materialized state of {}; seek_to({tt}) on a fresh cursor: {o}",
                    if c.variant == "served_state_sibling" { "the sibling worldline" } else { "the previous tick" })}));
        }
        ticks.push(o);
    }
    let mut drift: Vec<String> = Vec::new();
    if have_pred && ticks.iter().map(|s| class_of(s)).collect::<Vec<_>>() != c.ticks.iter().map(|s| class_of(s)).collect::<Vec<_>>() {
        drift.push(format!("ticks {ticks:?}, model {:?}", c.ticks));
    }
    json!({"verdict": if findings.is_empty() {"ok"} else {"violation"}, "findings": findings, "drift": drift,
           "observed": {"rebuild": "served", "at": t, "ticks": ticks, "ckpt": "", "ckticks": []}})
}

/// Tampered checkpoints offered to the intact store.
fn run_ckpt_case(p: &Prep<'_>, ctx: &Ctx<'_>, c: &CaseJ, have_pred: bool) -> Value {
    if c.variant.starts_with("served_") {
        return run_served_ckpt_case(p, ctx, c, have_pred);
    }
    let t = c.pos.max(0) as u64 + 1; // the model's checkpoint tick
    let u0 = &p.store.u0;
    let mut findings: Vec<Value> = Vec::new();
    let mut drift: Vec<String> = Vec::new();
    let honest = match p.orig.get(t as usize) {
        Some(s) => ReplayCheckpoint::from_state(s),
        None => return json!({"verdict":"skip","detail":"no such tick"}),
    };
    let twin = |field: &str, variant: &str| -> Result<WorldlineState, String> {
        let mut svc = p.store.service_without(&p.target)?;
        for e in &ctx.target.entries {
            svc.append_local_commit(alter(ctx, e, field, variant)?).map_err(|e| format!("twin append: {e:?}"))?;
        }
        svc.replay_worldline_state_at(ctx.target.id, u0, wt(t)).map_err(|e| format!("twin replay: {e:?}"))
    };
    let ck = match c.variant.as_str() {
        "honest" => Ok(honest),
        "hash_flip" => {
            let mut k = honest;
            flip(&mut k.checkpoint.state_hash);
            Ok(k)
        }
        "tick_plus1" => {
            let mut k = honest;
            k.checkpoint.worldline_tick = wt(t + 1);
            Ok(k)
        }
        "tick_minus1" => {
            let mut k = honest;
            k.checkpoint.worldline_tick = wt(t - 1);
            Ok(k)
        }
        "state_sibling" => match ctx.sibling.and_then(|l| p.donor_states.get(&l.name)).and_then(|s| s.get(t as usize)) {
            Some(s) => Ok(ReplayCheckpoint::from_state(s)),
            None => Err("no sibling state".to_string()),
        },
        "state_lm_twin" => twin("outputs", "add").map(|s| ReplayCheckpoint::from_state(&s)),
        "state_plan_twin" => twin("patch.plan", "alter").map(|s| ReplayCheckpoint::from_state(&s)),
        other => Err(format!("unknown checkpoint variant {other}")),
    };
    let ck = match ck {
        Ok(k) => k,
        Err(e) => return json!({"verdict": if have_pred {"tool_error"} else {"skip"}, "detail": e}),
    };
    let claimed = ck.checkpoint.worldline_tick.as_u64();
    let mut svc = p.orig_svc.clone();
    let verdict = match util::catch(|| svc.add_checkpoint(ctx.target.id, ck)) {
        Err(pn) => format!("panic:{pn}"),
        Ok(Err(e)) => dbg_name(&e),
        Ok(Ok(())) => "ok".into(),
    };
    let ver = verify_ticks(&svc, ctx.target.id, u0, &p.orig, true);
    for (ep_full, outs) in &ver.by_ep {
        let ep = ep_full.split('(').next().unwrap_or(ep_full);
        for (tt, o) in outs.iter().enumerate() {
            let cls = class_of(o);
            if cls == "diff_core" || cls == "diff_diag" || cls == "panic" {
                findings.push(json!({"key": format!("checkpoint({}):{ep}", c.variant),
                    "detail": format!("tampered checkpoint {} claiming tick {claimed}: add_checkpoint {verdict}; tick {tt}: {o}", c.variant)}));
            }
        }
    }
    let ticks = ver.by_ep.get("replay_worldline_state_at").cloned().unwrap_or_default();
    if have_pred {
        if verdict != c.rebuild {
            drift.push(format!("add_checkpoint {verdict}, model {}", c.rebuild));
        }
        if ticks.iter().map(|s| class_of(s)).collect::<Vec<_>>() != c.ticks.iter().map(|s| class_of(s)).collect::<Vec<_>>() {
            drift.push(format!("ticks {ticks:?}, model {:?}", c.ticks));
        }
    }
    json!({"verdict": if findings.is_empty() {"ok"} else {"violation"}, "findings": findings, "drift": drift,
           "observed": {"rebuild": verdict, "at": claimed, "ticks": ticks, "ckpt": "", "ckticks": []}})
}

// --------------------------------------------------------------------------- BTR and suffix transport

/// Field alterations of a BTR cut from the original store, validated against the original store.
fn run_btr(p: &Prep<'_>) -> Value {
    let ctx = pick_lanes(p);
    let n = ctx.target.entries.len() as u64;
    let mut findings: Vec<Value> = Vec::new();
    let mut count = 0u64;
    let mut accepted_unbound: Vec<String> = Vec::new();
    for (a, b) in [(0u64, n), (1, n), (0, n - 1), (1, 2)] {
        if a >= b || b > n {
            continue;
        }
        let base = match p.orig_svc.build_btr(ctx.target.id, wt(a), wt(b), 7, vec![1, 2, 3]) {
            Ok(r) => r,
            Err(e) => {
                findings.push(json!({"key":"btr.untampered:build_btr","detail":format!("[{a},{b}): {e:?}")}));
                continue;
            }
        };
        if let Err(e) = p.orig_svc.validate_btr(&base) {
            findings.push(json!({"key":"btr.untampered:validate_btr","detail":format!("{e:?}")}));
        }
        let mut variants: Vec<(String, BoundaryTransitionRecord, bool)> = Vec::new();
        let mut push = |name: &str, f: &dyn Fn(&mut BoundaryTransitionRecord), must_reject: bool| {
            let mut r = base.clone();
            f(&mut r);
            variants.push((name.to_string(), r, must_reject));
        };
        let other = ctx.independent.map(|l| l.id).unwrap_or(wl_id(0xEE));
        push("worldline_id", &|r| r.worldline_id = other, true);
        push("u0_ref", &|r| r.u0_ref = ids::warp("w1"), true);
        push("input_boundary_hash", &|r| flip(&mut r.input_boundary_hash), true);
        push("output_boundary_hash", &|r| flip(&mut r.output_boundary_hash), true);
        push("payload.worldline_id", &|r| r.payload.worldline_id = other, true);
        push("payload.start_worldline_tick", &|r| r.payload.start_worldline_tick = wt(r.payload.start_worldline_tick.as_u64() + 1), true);
        push("payload.entries(drop_last)", &|r| { r.payload.entries.pop(); }, true);
        push("payload.entries(drop_first)", &|r| { r.payload.entries.remove(0); }, true);
        push("payload.entries(duplicate)", &|r| { let e = r.payload.entries[0].clone(); r.payload.entries.insert(0, e); }, true);
        if base.payload.entries.len() >= 2 {
            push("payload.entries(swap)", &|r| r.payload.entries.swap(0, 1), true);
        }
        // not bound by validation and no state is derived from them
        push("logical_counter", &|r| r.logical_counter += 1, false);
        push("auth_tag", &|r| r.auth_tag.push(9), false);
        for (i, e) in base.payload.entries.iter().enumerate() {
            for (f, v) in ALTER_VARIANTS {
                if let Ok(e2) = alter(&ctx, e, f, v) {
                    if &e2 != e {
                        let mut r = base.clone();
                        r.payload.entries[i] = e2;
                        variants.push((format!("payload.entries[{i}].{f}({v})"), r, true));
                    }
                }
            }
        }
        for (name, rec, must_reject) in variants {
            // a record equal to the honest record of the shorter range is not a tampered record
            // (consecutive ticks with equal state roots make "drop the last entry" such a case)
            if name == "payload.entries(drop_last)" && b - a >= 2 && p.orig_svc.build_btr(ctx.target.id, wt(a), wt(b - 1), 7, vec![1, 2, 3]).ok().as_ref() == Some(&rec) {
                continue;
            }
            count += 1;
            match util::catch(|| p.orig_svc.validate_btr(&rec)) {
                Err(pn) => findings.push(json!({"key": format!("btr.{name}:validate_btr(panic)"), "detail": pn})),
                Ok(Ok(())) if must_reject => findings.push(json!({"key": format!("btr.{}:validate_btr", name.split('[').next().unwrap_or(&name)),
                    "detail": format!("BTR [{a},{b}) with altered {name} validates against the registered history")})),
                Ok(Ok(())) => accepted_unbound.push(name),
                Ok(Err(_)) => {}
            }
        }
    }
    accepted_unbound.sort();
    accepted_unbound.dedup();
    json!({"verdict": if findings.is_empty() {"ok"} else {"violation"}, "findings": findings, "evaluations": count, "accepted_unbound": accepted_unbound})
}

struct SuffixCtx<'a> {
    svc: &'a ProvenanceService,
    source: WorldlineId,
}

impl SuffixCtx<'_> {
    fn known(&self, r: &ProvenanceRef) -> bool {
        self.svc.entry(r.worldline_id, r.worldline_tick).map(|e| e.expected.commit_hash == r.commit_hash).unwrap_or(false)
    }
}

impl WitnessedSuffixExportContext for SuffixCtx<'_> {
    fn source_entries(&self, request: &ExportSuffixRequest) -> Option<Vec<ProvenanceRef>> {
        let len = self.svc.len(request.source_worldline_id).ok()?;
        let from = request.base_frontier.worldline_tick.as_u64() + 1;
        let to = request.target_frontier.map(|t| t.worldline_tick.as_u64() + 1).unwrap_or(len).min(len);
        (from..to).map(|t| self.svc.entry(request.source_worldline_id, wt(t)).ok().map(|e| e.as_ref())).collect()
    }
    fn boundary_witness(&self, _request: &ExportSuffixRequest) -> Option<ProvenanceRef> {
        None
    }
}

impl WitnessedSuffixAdmissionContext for SuffixCtx<'_> {
    fn source_shell_digest(&self, shell: &WitnessedSuffixShell) -> Option<Hash> {
        Some(warp_core::derive_witnessed_suffix_shell_digest(shell))
    }
    fn resolve_target_basis(&self, target_basis: ProvenanceRef) -> Option<ProvenanceRef> {
        self.known(&target_basis).then_some(target_basis)
    }
    fn local_admission_posture(&self, request: &WitnessedSuffixAdmissionRequest) -> WitnessedSuffixLocalAdmissionPosture {
        // the local evidence is the provenance store: admissible iff every source coordinate is a known commit
        let refs = request.source_suffix.source_entries.clone();
        if refs.iter().all(|r| r.worldline_id == self.source && self.known(r)) {
            WitnessedSuffixLocalAdmissionPosture::admissible(refs.clone()).unwrap_or(WitnessedSuffixLocalAdmissionPosture::Staged { staged_refs: refs })
        } else {
            WitnessedSuffixLocalAdmissionPosture::Staged { staged_refs: refs }
        }
    }
}

/// Exports the suffix of the target lane, alters every field of the bundle, imports it.
fn run_suffix(p: &Prep<'_>) -> Value {
    let ctx = pick_lanes(p);
    let ea = &ctx.target.entries;
    let mut findings: Vec<Value> = Vec::new();
    if ea.len() < 2 {
        return json!({"verdict":"skip"});
    }
    let sctx = SuffixCtx { svc: &p.orig_svc, source: ctx.target.id };
    let req = ExportSuffixRequest { source_worldline_id: ctx.target.id, base_frontier: ea[0].as_ref(), target_frontier: Some(ea[ea.len() - 1].as_ref()), basis_report: None };
    let bundle = match export_suffix(&req, &sctx) {
        Ok(b) => b,
        Err(e) => return json!({"verdict":"violation","findings":[{"key":"suffix.untampered:export_suffix","detail":format!("{e:?}")}]}),
    };
    let target_lane = ctx.independent.unwrap_or(ctx.target);
    let basis = target_lane.entries.last().map(|e| e.as_ref()).unwrap_or(ea[0].as_ref());
    let import = |b: &CausalSuffixBundle| {
        import_suffix(&ImportSuffixRequest { bundle: b.clone(), target_worldline_id: target_lane.id, target_basis: basis, basis_report: None }, &sctx)
    };
    let r0 = import(&bundle);
    if !matches!(r0.admission.outcome, WitnessedSuffixAdmissionOutcome::Admitted { .. }) {
        findings.push(json!({"key":"suffix.untampered:import_suffix","detail":format!("untampered bundle not admitted: {:?}", r0.admission.outcome)}));
    }
    let mut variants: Vec<(String, CausalSuffixBundle)> = Vec::new();
    let mut push = |name: &str, f: &dyn Fn(&mut CausalSuffixBundle)| {
        let mut b = bundle.clone();
        f(&mut b);
        variants.push((name.to_string(), b));
    };
    let other = ctx.independent.map(|l| l.id).unwrap_or(wl_id(0xEE));
    push("base_frontier.worldline_id", &|b| b.base_frontier.worldline_id = other);
    push("base_frontier.worldline_tick", &|b| b.base_frontier.worldline_tick = wt(b.base_frontier.worldline_tick.as_u64() + 1));
    push("base_frontier.commit_hash", &|b| flip(&mut b.base_frontier.commit_hash));
    push("target_frontier.worldline_id", &|b| b.target_frontier.worldline_id = other);
    push("target_frontier.worldline_tick", &|b| b.target_frontier.worldline_tick = wt(b.target_frontier.worldline_tick.as_u64() + 1));
    push("target_frontier.commit_hash", &|b| flip(&mut b.target_frontier.commit_hash));
    push("source_suffix.source_worldline_id", &|b| b.source_suffix.source_worldline_id = other);
    push("source_suffix.source_suffix_start_tick", &|b| b.source_suffix.source_suffix_start_tick = wt(b.source_suffix.source_suffix_start_tick.as_u64() + 1));
    push("source_suffix.source_suffix_end_tick(none)", &|b| b.source_suffix.source_suffix_end_tick = None);
    push("source_suffix.source_suffix_end_tick", &|b| b.source_suffix.source_suffix_end_tick = b.source_suffix.source_suffix_end_tick.map(|t| wt(t.as_u64() + 1)));
    push("source_suffix.boundary_witness", &|b| b.source_suffix.boundary_witness = Some(b.base_frontier));
    push("source_suffix.witness_digest", &|b| flip(&mut b.source_suffix.witness_digest));
    push("bundle_digest", &|b| flip(&mut b.bundle_digest));
    push("source_suffix.source_entries(drop)", &|b| { b.source_suffix.source_entries.pop(); });
    push("source_suffix.source_entries(duplicate)", &|b| { let e = b.source_suffix.source_entries[0]; b.source_suffix.source_entries.push(e); });
    push("source_suffix.source_entries(swap)", &|b| { let n = b.source_suffix.source_entries.len(); if n >= 2 { b.source_suffix.source_entries.swap(0, n - 1); } else { b.source_suffix.source_entries.clear(); } });
    for i in 0..bundle.source_suffix.source_entries.len() {
        push(&format!("source_suffix.source_entries[{i}].worldline_id"), &|b| b.source_suffix.source_entries[i].worldline_id = other);
        push(&format!("source_suffix.source_entries[{i}].worldline_tick"), &|b| b.source_suffix.source_entries[i].worldline_tick = wt(b.source_suffix.source_entries[i].worldline_tick.as_u64() + 1));
        push(&format!("source_suffix.source_entries[{i}].commit_hash"), &|b| flip(&mut b.source_suffix.source_entries[i].commit_hash));
        // a coordinate of the sibling / another lane with a real commit hash (transplant)
        if let Some(s) = ctx.sibling.and_then(|l| l.entries.get(i + 1)) {
            let r = s.as_ref();
            push(&format!("source_suffix.source_entries[{i}](transplant)"), &move |b| b.source_suffix.source_entries[i] = r);
        }
    }
    let mut count = 0u64;
    for (name, b) in variants {
        if b == bundle {
            continue;
        }
        count += 1;
        match util::catch(|| import(&b)) {
            Err(pn) => findings.push(json!({"key": format!("suffix.{name}:import_suffix(panic)"), "detail": pn})),
            Ok(r) => {
                let obstructed = matches!(r.admission.outcome, WitnessedSuffixAdmissionOutcome::Obstructed { .. });
                if !obstructed && r != r0 {
                    let short = name.split('[').next().unwrap_or(&name).to_string();
                    findings.push(json!({"key": format!("suffix.{short}:import_suffix"),
                        "detail": format!("bundle with altered {name} is classified {:?} instead of obstructed / the original result", dbg_name(&r.admission.outcome))}));
                }
            }
        }
    }
    json!({"verdict": if findings.is_empty() {"ok"} else {"violation"}, "findings": findings, "evaluations": count})
}

// --------------------------------------------------------------------------- random multi-head multi-worldline runs

#[derive(Deserialize, Clone, Debug)]
struct RandomJ {
    seed: u64,
    worldlines: usize,
    ticks: u64,
}

fn build_random(spec: &RandomJ, trace: &mut Vec<Value>) -> Result<Built, String> {
    let mut multi = 0u64;
    let mut rng = StdRng::seed_from_u64(spec.seed);
    let mut slots = BTreeMap::new();
    slots.insert("n1".to_string(), "p0".to_string());
    let u0 = c07::u0_state(&slots);
    let mut world = World::new(&u0, 0x0200_0000)?;
    let k = spec.worldlines.clamp(2, 4);
    let mut names: BTreeMap<WorldlineId, String> = BTreeMap::new();
    let lane_names: Vec<String> = (0..k).map(|i| format!("r{i}")).collect();
    trace.push(json!({"event":"reset"}));
    for (i, nme) in lane_names.iter().enumerate() {
        let id = wl_id(i as u8 + 1);
        names.insert(id, nme.clone());
        if i > 0 {
            world.runtime.register_worldline(id, u0.clone()).map_err(|e| format!("{e:?}"))?;
            c07::register_heads(&mut world.runtime, id)?;
            world.prov.register_worldline(id, &u0).map_err(|e| format!("{e:?}"))?;
        }
        trace.push(json!({"event":"register","w":nme}));
    }
    let mut seen = BTreeMap::new();
    let target = wl_id(1);
    // the first two worldlines start with the same semantic write: equal parents (none), equal state root,
    // equal policy, different patch digest (the ingress event differs) -- a pair that differs ONLY in the
    // patch digest for the hash relation of the trace specification
    let same = random_ops(&mut rng);
    world.ingest(wl_id(1), 0, &same)?;
    world.ingest(wl_id(2), 0, &same)?;
    world.super_tick()?;
    log_new_entries(&world, &names, &mut seen, trace);
    // always: one SuperTick in which BOTH writer heads of the target worldline (and of the second one) commit,
    // so the second head's entry must chain to the first head's commit of the same SuperTick
    for w in [wl_id(1), wl_id(2)] {
        for h in 0..2usize {
            world.ingest(w, h, &random_ops(&mut rng))?;
        }
    }
    let recs = world.super_tick()?;
    if recs.len() != 4 {
        return Err(format!("two-head SuperTick committed {} heads, expected 4", recs.len()));
    }
    multi += multi_head(&recs);
    log_new_entries(&world, &names, &mut seen, trace);
    // interleaved multi-head multi-worldline SuperTicks until the first lane has `ticks` entries
    while world.prov.len(target).unwrap_or(0) < spec.ticks {
        for (id, _) in names.clone() {
            if id != target && !rng.gen_bool(0.6) {
                continue;
            }
            for h in 0..2usize {
                if rng.gen_bool(if h == 0 { 0.8 } else { 0.5 }) {
                    for _ in 0..rng.gen_range(1..=2) {
                        world.ingest(id, h, &random_ops(&mut rng))?;
                    }
                }
            }
        }
        let recs = world.super_tick()?;
        multi += multi_head(&recs);
        log_new_entries(&world, &names, &mut seen, trace);
    }
    // before anything is forked or tampered with: the runtime's own store must be a chain that re-verifies
    let findings = check_runtime_history(&world, &names);
    if !findings.is_empty() {
        return Ok(Built { store: None, findings, multi_head_superticks: multi });
    }
    // a sibling: fork of the target somewhere in the middle, continuing for a few ticks
    let tlen = world.prov.len(target).unwrap_or(0);
    let ft = rng.gen_range(0..tlen.saturating_sub(1).max(1));
    let child = wl_id(k as u8 + 1);
    if let Err(e) = world.fork(target, ft, child) {
        return Ok(Built { store: None, multi_head_superticks: multi,
            findings: vec![json!({"key":"untampered_history_does_not_verify:fork_replay","detail":format!("fork of r0 at {ft}: {e}")})] });
    }
    names.insert(child, "rf".into());
    trace.push(json!({"event":"fork","src":"r0","at":ft,"new":"rf"}));
    seen.insert(child, ft + 1);
    for round in 0..rng.gen_range(2..=4) {
        world.ingest(child, rng.gen_range(0..2), &random_ops(&mut rng))?;
        if round == 0 {
            // both heads of the child commit in its first SuperTick
            world.ingest(child, 0, &random_ops(&mut rng))?;
            world.ingest(child, 1, &random_ops(&mut rng))?;
        }
        let recs = world.super_tick()?;
        multi += multi_head(&recs);
        log_new_entries(&world, &names, &mut seen, trace);
    }
    let mut lanes = Vec::new();
    for (id, nme) in &names {
        let len = world.prov.len(*id).unwrap_or(0);
        let mut entries = Vec::new();
        for t in 0..len {
            let mut e = world.prov.entry(*id, wt(t)).map_err(|e| format!("{e:?}"))?;
            // recorded outputs on two thirds of the ticks (the fork's copied prefix keeps the source's)
            let (ow, ot) = if nme == "rf" && t <= ft { ("r0".to_string(), t) } else { (nme.clone(), t) };
            if ot % 3 != 2 {
                e.outputs = synth_outs(&[json!(ow), json!(ot)]);
            }
            entries.push(e);
        }
        lanes.push(Lane { name: nme.clone(), id: *id, fork_of: if nme == "rf" { Some(("r0".into(), ft)) } else { None }, entries });
    }
    let findings = check_runtime_history(&world, &names);
    Ok(Built { store: if findings.is_empty() { Some(Store { u0, lanes }) } else { None }, findings, multi_head_superticks: multi })
}

fn all_cases(n: usize) -> Vec<CaseJ> {
    let mut v = vec![CaseJ { kind: "none".into(), pos: -1, ..Default::default() }];
    let mk = |kind: &str, pos: usize, field: &str, variant: &str| CaseJ { kind: kind.into(), pos: pos as i64, field: field.into(), variant: variant.into(), ..Default::default() };
    for pos in 0..n {
        for (f, va) in ALTER_VARIANTS {
            v.push(mk("alter", pos, f, va));
        }
        for k in ["swap", "swap_renumbered", "duplicate", "truncate", "drop_middle"] {
            v.push(mk(k, pos, "", ""));
        }
        for k in ["transplant", "transplant_claimed", "transplant_rewritten"] {
            for d in ["sibling", "independent"] {
                v.push(mk(k, pos, "", d));
            }
        }
        for cv in ["honest", "hash_flip", "tick_plus1", "tick_minus1", "state_sibling", "state_lm_twin", "state_plan_twin", "served_state_sibling", "served_state_prev_tick"] {
            v.push(mk("ckpt", pos, "", cv));
        }
    }
    v
}

// --------------------------------------------------------------------------- driver

pub fn run(args: &[String]) -> i32 {
    if args.len() < 2 {
        eprintln!("usage: echo-verif c05 <in.ndjson> <out.ndjson> [trace.ndjson]");
        return 2;
    }
    let mut out = util::Out::create(&args[1]);
    let mut trace_out = args.get(2).map(|p| util::Out::create(p));
    let mut store: Option<Store> = None;
    let mut store_refuted = false; // the runtime's own history did not verify: dependent lines are skipped, not tool errors
    let (mut n, mut viol, mut tool) = (0u64, 0u64, 0u64);
    let mut emit = |out: &mut util::Out, mut r: Value, i: usize, n: &mut u64, viol: &mut u64, tool: &mut u64| {
        r["i"] = json!(i);
        *n += 1;
        match r["verdict"].as_str() {
            Some("violation") => *viol += 1,
            Some("tool_error") => *tool += 1,
            _ => {}
        }
        out.line(&r);
    };
    for (i, v) in util::read_lines(&args[0]) {
        let kind = v["kind"].as_str().unwrap_or("").to_string();
        match kind.as_str() {
            "store" => {
                let mut trace = vec![json!({"event":"reset"})];
                let r = match serde_json::from_value::<StoreJ>(v.clone()).map_err(|e| e.to_string()).and_then(|s| build_store(&s, &mut trace)) {
                    Ok(b) => {
                        let r = json!({"verdict": if b.findings.is_empty() {"ok"} else {"violation"}, "kind":"store", "findings": b.findings,
                            "multi_head_superticks": b.multi_head_superticks,
                            "lanes": b.store.iter().flat_map(|s| s.lanes.iter()).map(|l| json!({"w": l.name, "len": l.entries.len()})).collect::<Vec<_>>()});
                        store_refuted = b.store.is_none();
                        store = b.store;
                        r
                    }
                    Err(e) => json!({"verdict":"tool_error","kind":"store","detail":e}),
                };
                if let Some(t) = trace_out.as_mut() {
                    for e in &trace {
                        t.line(e);
                    }
                }
                emit(&mut out, r, i, &mut n, &mut viol, &mut tool);
            }
            "random" => {
                let mut trace = Vec::new();
                let spec: RandomJ = match serde_json::from_value(v.clone()) {
                    Ok(s) => s,
                    Err(e) => {
                        emit(&mut out, json!({"verdict":"tool_error","detail":format!("random spec: {e}")}), i, &mut n, &mut viol, &mut tool);
                        continue;
                    }
                };
                let st = build_random(&spec, &mut trace);
                if let Some(t) = trace_out.as_mut() {
                    for e in &trace {
                        t.line(e);
                    }
                }
                let built = match st {
                    Ok(s) => s,
                    Err(e) => {
                        emit(&mut out, json!({"verdict":"tool_error","detail":e}), i, &mut n, &mut viol, &mut tool);
                        continue;
                    }
                };
                let multi_heads = built.multi_head_superticks;
                let Some(st) = built.store else {
                    // the runtime's own history is not a verifying chain: nothing to tamper with
                    emit(&mut out, json!({"verdict":"violation","kind":"random","seed":spec.seed,"findings":built.findings,"multi_head_superticks":multi_heads,
                        "cases":0,"classes":{}}), i, &mut n, &mut viol, &mut tool);
                    continue;
                };
                match prep(&st, "r0") {
                    Err(e) => emit(&mut out, json!({"verdict":"violation","kind":"random","seed":spec.seed,"cases":0,"classes":{},"multi_head_superticks":multi_heads,
                        "findings":[{"key":"untampered_history_does_not_verify:replay_worldline_state_at","detail":e}]}), i, &mut n, &mut viol, &mut tool),
                    Ok(p) => {
                        let len = st.lane("r0").map(|l| l.entries.len()).unwrap_or(0);
                        let mut findings: Vec<Value> = Vec::new();
                        let mut classes: BTreeMap<String, BTreeSet<String>> = BTreeMap::new();
                        let (mut ran, mut skipped) = (0u64, 0u64);
                        for c in all_cases(len) {
                            let r = run_case(&p, &c, false);
                            match r["verdict"].as_str() {
                                Some("skip") => {
                                    skipped += 1;
                                    continue;
                                }
                                Some("tool_error") => {
                                    emit(&mut out, r, i, &mut n, &mut viol, &mut tool);
                                    continue;
                                }
                                _ => {}
                            }
                            ran += 1;
                            if let Some(f) = r["findings"].as_array() {
                                for x in f {
                                    let mut x = x.clone();
                                    x["case"] = json!({"kind": c.kind, "pos": c.pos, "field": c.field, "variant": c.variant, "seed": spec.seed});
                                    findings.push(x);
                                }
                            }
                            // observed outcome classes per catalogue item, for the comparison with the model's table
                            let key = format!("{}|{}|{}", c.kind, c.field, c.variant);
                            let set = classes.entry(key).or_default();
                            let rb = r["observed"]["rebuild"].as_str().unwrap_or("");
                            if rb != "ok" {
                                set.insert("rejected_at_rebuild".into());
                            }
                            for t in r["observed"]["ticks"].as_array().into_iter().flatten() {
                                set.insert(class_of(t.as_str().unwrap_or("")).to_string());
                            }
                        }
                        let btr = run_btr(&p);
                        let sfx = run_suffix(&p);
                        for extra in [&btr, &sfx] {
                            if let Some(f) = extra["findings"].as_array() {
                                findings.extend(f.iter().cloned());
                            }
                        }
                        let r = json!({"verdict": if findings.is_empty() {"ok"} else {"violation"}, "kind":"random", "seed": spec.seed,
                            "len": len, "cases": ran, "skipped": skipped, "findings": findings, "classes": classes, "multi_head_superticks": multi_heads,
                            "btr_evaluations": btr["evaluations"], "suffix_evaluations": sfx["evaluations"], "btr_accepted_unbound": btr["accepted_unbound"]});
                        emit(&mut out, r, i, &mut n, &mut viol, &mut tool);
                    }
                }
            }
            "btr" | "suffix" => {
                let r = match store.as_ref().map(|s| prep(s, "a")) {
                    Some(Ok(p)) => {
                        if kind == "btr" { run_btr(&p) } else { run_suffix(&p) }
                    }
                    Some(Err(e)) => json!({"verdict":"tool_error","detail":e}),
                    None if store_refuted => json!({"verdict":"skip","detail":"the untampered store did not verify"}),
                    None => json!({"verdict":"tool_error","detail":"no store"}),
                };
                emit(&mut out, r, i, &mut n, &mut viol, &mut tool);
            }
            _ => {
                let r = match (store.as_ref(), serde_json::from_value::<CaseJ>(v.clone())) {
                    (None, _) if store_refuted => json!({"verdict":"skip","detail":"the untampered store did not verify"}),
                    (None, _) => json!({"verdict":"tool_error","detail":"no store"}),
                    (_, Err(e)) => json!({"verdict":"tool_error","detail":format!("case parse: {e}")}),
                    (Some(s), Ok(c)) => match prep(s, "a") {
                        Ok(p) => run_case(&p, &c, true),
                        Err(e) => json!({"verdict":"violation","findings":[{"key":"untampered_history_does_not_verify:replay_worldline_state_at","detail":e}]}),
                    },
                };
                emit(&mut out, r, i, &mut n, &mut viol, &mut tool);
            }
        }
    }
    out.finish();
    if let Some(t) = trace_out {
        t.finish();
    }
    println!("{}", json!({"cases":n,"violations":viol,"tool_errors":tool}));
    if tool > 0 { 2 } else { 0 }
}
