------------------------------ MODULE ExtAction ------------------------------
(***************************************************************************)
(* C17 - external actions move once through request, claim and settlement  *)
(* - durably.                                                              *)
(*                                                                         *)
(* Transcribed from /repo/crates/warp-core/src/external_action.rs          *)
(*   record_external_action_request, claim_external_action,                *)
(*   admit_external_action_settlement,                                     *)
(*   reconcile_external_action_settlement_retry,                           *)
(*   ExternalActionCoordinatorV1::{recover, append_transaction,            *)
(*   recorded_request, claim_grant, admitted_settlement},                  *)
(*   observe_external_actions / apply_recovered_settlement,                *)
(*   validate_settlement_candidate                                         *)
(* and the store port in causal_wal.rs (WalStorePort::append_frame,        *)
(* flush_external_action_commit, recover_in_memory_store,                  *)
(* recover_from_frames_and_commits).                                       *)
(*                                                                         *)
(* One action per critical section of the code:                            *)
(*   Call        validation of one API call up to (excluding) the first    *)
(*               store call; a rejected call completes here                *)
(*   AppendFrame store.append_frame of the single lifecycle frame          *)
(*   FlushCommit store.flush_external_action_commit (= sync point)         *)
(*   Return      coordinator continuation + index mutation + Ok(grant)     *)
(*   StoreFault  the store call fails (before or after taking effect)      *)
(*   Crash       the process stops; volatile state is lost, the unsynced   *)
(*               tail of the log may or may not survive                    *)
(*   Recover     ordinary WAL recovery (tail truncation) followed by       *)
(*               ExternalActionCoordinatorV1::recover                      *)
(*                                                                         *)
(* Hashes are abstract: a commit digest is the transaction serial `tx`, the *)
(* lifecycle-index root is the function r |-> Leaf(entry) (the leaf commits *)
(* to request, claim and settlement payloads, NOT to commit digests).      *)
(***************************************************************************)
EXTENDS Naturals, Sequences, FiniteSets, TLC

CONSTANTS Reqs,        \* request ids
          None,        \* model value
          RecordVs,    \* enabled argument variants of Record
          ClaimVs,     \* ... of Claim
          SettleVs,    \* ... of Settle
          RetryVs,     \* ... of Retry
          Fates,       \* enabled fault/crash points of a durable step
          KeepHist     \* TRUE: op-level history (export / bounds); FALSE for long traces

VARIABLES seg,      \* durable log: Seq of frame / commit records
          synced,   \* length of the prefix of seg known durable (last flush)
          co,       \* volatile coordinator
          pend,     \* in-flight lifecycle transaction of the live coordinator, or None
          nextTx,   \* serial of the next transaction (stands for transaction id / commit digest)
          issued,   \* history: authorities returned to callers [kind, r, tx]
          hist      \* history: completed op-level steps with the predicted outcome
vars == <<seg, synced, co, pend, nextTx, issued, hist>>

Bound == 8          \* request.budget.max_settlement_bytes used by every request of the model.
                    \* Sizes only matter relative to Bound; the harness replays the behaviours under two readings of it:
                    \* 8 bytes, and the protocol ceiling MAX_EXTERNAL_ACTION_SETTLEMENT_BYTES_V1 (runner/c17.py ceiling_leg)

Range(s) == {s[i] : i \in DOMAIN s}

(* ---------------------------------------------------------------- index *)
EmptyEntry == [post |-> "none", cl |-> None, st |-> None, rtx |-> 0, ctx |-> 0, stx |-> 0]
EmptyIdx   == [r \in Reqs |-> EmptyEntry]
\* external_action_index_leaf: request payload, claim payload, settlement payload
Leaf(e)    == <<e.post # "none", e.cl, e.st>>
RootOf(ix) == [r \in Reqs |-> Leaf(ix[r])]

(* ------------------------------------------------------------ arguments *)
\* Claim variants that pass validation and the claim content they produce
\* (adapter, lease evidence) - the attempt id is a function of it.
GoodClaims == {"ok", "ok2"}
\* Settlement candidates: attributes checked by validate_settlement_candidate.
\* size is the canonical result length; Bound is the request budget.
GoodStl == {"s1", "s2", "rej", "fail", "unk"}
CandAttr(v) ==
  LET base == [req |-> TRUE, att |-> TRUE, ad |-> TRUE, basis |-> TRUE, schema |-> TRUE,
               sev |-> TRUE, xev |-> TRUE, size |-> 2, digest |-> TRUE]
  IN CASE v = "s2"                 -> [base EXCEPT !.size = Bound]       \* exactly at the bound
       [] v = "unk"                -> [base EXCEPT !.size = 0]
       [] v = "cand_other_request" -> [base EXCEPT !.req = FALSE]
       [] v = "cand_wrong_attempt" -> [base EXCEPT !.att = FALSE]
       [] v = "cand_wrong_adapter" -> [base EXCEPT !.ad = FALSE]
       [] v = "cand_wrong_basis"   -> [base EXCEPT !.basis = FALSE]
       [] v = "wrong_schema"       -> [base EXCEPT !.schema = FALSE]
       [] v = "zero_schema_ev"     -> [base EXCEPT !.sev = FALSE]
       [] v = "zero_ext_ev"        -> [base EXCEPT !.xev = FALSE]
       [] v = "oversized"          -> [base EXCEPT !.size = Bound + 1]
       [] v = "bad_digest"         -> [base EXCEPT !.digest = FALSE]
       [] OTHER                    -> base
\* validate_settlement_candidate, in code order
CandErr(v) ==
  LET a == CandAttr(v)
  IN IF ~(a.req /\ a.att /\ a.ad /\ a.basis) THEN "SettlementClaimMismatch"
     ELSE IF ~a.schema THEN "SettlementSchemaMismatch"
     ELSE IF ~a.sev THEN "MissingSchemaAdmissionEvidence"
     ELSE IF ~a.xev THEN "MissingExternalEvidence"
     ELSE IF a.size > Bound THEN "SettlementBudgetExceeded"
     ELSE IF ~a.digest THEN "SettlementResultDigestMismatch"
     ELSE "valid"

(* ------------------------------------------------------------------ log *)
Frame(p)  == [t |-> "frame", tx |-> p.tx, lsn |-> p.lsn, kind |-> p.kind, r |-> p.r, body |-> p.body]
Commit(p) == [t |-> "commit", tx |-> p.tx, fr |-> p.fr, prev |-> p.prev, last |-> p.lsn]

CommitTxs(s)   == {x.tx : x \in {y \in Range(s) : y.t = "commit"}}
Commits(s)     == SelectSeq(s, LAMBDA x : x.t = "commit")
Frames(s)      == SelectSeq(s, LAMBDA x : x.t = "frame")
FrameOf(s, tx) == CHOOSE x \in Range(s) : x.t = "frame" /\ x.tx = tx
\* recover_from_frames_and_commits: a frame beyond the last commit is the tail
HasTail(s)     == LET ct == CommitTxs(s) IN \E x \in Range(s) : x.t = "frame" /\ x.tx \notin ct
\* recover_in_memory_store(Writable): truncate_tail_after(last committed lsn) / clear
Truncate(s)    == LET ct == CommitTxs(s) IN SelectSeq(s, LAMBDA x : x.t = "commit" \/ x.tx \in ct)

\* observe_external_actions: one committed transaction applied to the rebuilt index
ApplyTx(acc, c, f) ==
  IF ~acc.ok THEN acc
  ELSE
    LET e      == acc.idx[f.r]
        before == RootOf(acc.idx)
        step   ==
          CASE f.kind = "req" ->
                 IF e.post # "none" THEN [ok |-> FALSE, err |-> "DuplicateRequest"]
                 ELSE [ok |-> TRUE, e |-> [e EXCEPT !.post = "requested", !.rtx = c.tx]]
            [] f.kind = "claim" ->
                 IF e.post = "none" THEN [ok |-> FALSE, err |-> "MissingRequest"]
                 ELSE IF e.cl # None THEN [ok |-> FALSE, err |-> "DuplicateClaim"]
                 ELSE IF f.body \notin GoodClaims THEN [ok |-> FALSE, err |-> "ClaimBindingMismatch"]
                 ELSE [ok |-> TRUE, e |-> [e EXCEPT !.post = "claimed", !.cl = f.body, !.ctx = c.tx]]
            [] f.kind = "settle" ->
                 IF e.post = "none" THEN [ok |-> FALSE, err |-> "MissingRequest"]
                 ELSE IF e.cl = None THEN [ok |-> FALSE, err |-> "MissingClaim"]
                 ELSE IF CandErr(f.body.sv) # "valid" \/ f.body.att # e.cl
                        THEN [ok |-> FALSE, err |-> "SettlementInvalid"]
                 ELSE IF e.st # None THEN [ok |-> FALSE, err |-> "ConflictingSettlement"]
                 ELSE [ok |-> TRUE, e |-> [e EXCEPT !.post = "settled", !.st = f.body.sv, !.stx = c.tx]]
    IN IF ~step.ok THEN [ok |-> FALSE, idx |-> acc.idx, err |-> step.err, lsn |-> acc.lsn, last |-> acc.last]
       ELSE LET ix2 == [acc.idx EXCEPT ![f.r] = step.e]
            IN IF c.fr # <<before, RootOf(ix2)>>
                 THEN [ok |-> FALSE, idx |-> acc.idx, err |-> "ExternalActionFrontierMismatch", lsn |-> acc.lsn, last |-> acc.last]
               ELSE [ok |-> TRUE, idx |-> ix2, err |-> "", lsn |-> c.last + 1, last |-> c.tx]

RECURSIVE FoldTx(_, _, _)
FoldTx(s, cs, acc) == IF cs = <<>> THEN acc
                      ELSE FoldTx(s, Tail(cs), ApplyTx(acc, Head(cs), FrameOf(s, Head(cs).tx)))
\* ExternalActionCoordinatorV1::recover on a clean log: index + WAL continuation
Rebuild(s) == FoldTx(s, Commits(s), [ok |-> TRUE, idx |-> EmptyIdx, err |-> "", lsn |-> 0, last |-> 0])

(* ------------------------------------------------------------- postures *)
PostStr(e) == CASE e.post = "none"      -> "none"
                [] e.post = "requested" -> "requested"
                [] e.post = "claimed"   -> "claimed:" \o e.cl
                [] e.post = "settled"   -> "settled:" \o e.cl \o ":" \o e.st
Posts(ix)  == [r \in Reqs |-> PostStr(ix[r])]
\* outstanding authority reconstructible from an index: T = request token
\* (recorded_request), G = claim grant (claim_grant), S = resumable settlement
GrantStr(e) == CASE e.post = "none" -> "-" [] e.post = "requested" -> "T"
                 [] e.post = "claimed" -> "G" [] e.post = "settled" -> "S"
Grants(ix)  == [r \in Reqs |-> GrantStr(ix[r])]

\* accessor result classes (recorded_request, claim_grant, admitted_settlement)
Accessors(c, r) ==
  IF ~c.ready THEN <<"CoordinatorRecoveryRequired", "CoordinatorRecoveryRequired", "CoordinatorRecoveryRequired">>
  ELSE CASE c.idx[r].post = "none"      -> <<"MissingRequest", "MissingRequest", "MissingRequest">>
         [] c.idx[r].post = "requested" -> <<"Ok", "MissingClaim", "MissingSettlement">>
         [] c.idx[r].post = "claimed"   -> <<"DuplicateClaim", "Ok", "MissingSettlement">>
         [] c.idx[r].post = "settled"   -> <<"DuplicateClaim", "DuplicateSettlement", "Ok">>

(* -------------------------------------------------------------- history *)
\* One op-level entry: what was asked, where it was interrupted, the predicted result
\* class, and the predicted live / durable state afterwards.
Entry(o, r, v, f, res, c2, seg2) ==
  LET rb == Rebuild(Truncate(seg2))
  IN [o |-> o, r |-> r, v |-> v, f |-> f, res |-> res,
      alive |-> c2.alive, rdy |-> c2.alive /\ c2.ready,
      lp |-> Posts(c2.idx),              \* live index (meaningful when alive)
      dp |-> Posts(rb.idx),              \* index a recovery of the durable log yields
      gr |-> Grants(rb.idx),             \* outstanding grants after recovery
      tail |-> HasTail(seg2),            \* bare coordinator recovery refuses (WalTailNotClean)
      ncommit |-> Len(Commits(seg2))]
Log(e) == IF KeepHist THEN Append(hist, e) ELSE hist

(* ----------------------------------------------------------- validation *)
Post(r) == co.idx[r].post

RecordDecide(r, v) ==
  CASE v \in {"zero_bytes", "zero_attempts"} -> "EmptyBudget"            \* ExternalActionRequestV1::new
    [] v = "two_attempts" -> "UnsupportedAttemptBudget"
    [] v = "over_limit"   -> "RequestBudgetLimitExceeded"
    [] OTHER ->
       IF ~co.ready THEN "CoordinatorRecoveryRequired"
       ELSE IF Post(r) # "none" THEN "DuplicateRequest"
       ELSE IF v = "tampered" THEN "RequestIdentityMismatch"            \* validate_identity in the tx builder
       ELSE "DURABLE"

ClaimDecide(r, v) ==
  IF v = "wrong_adapter" THEN "UnauthorizedAdapter"                      \* registry.authorize, before the coordinator
  ELSE IF ~co.ready THEN "CoordinatorRecoveryRequired"
  ELSE IF Post(r) = "none" THEN "MissingRequest"
  ELSE IF Post(r) # "requested" THEN "DuplicateClaim"
  ELSE CASE v = "auth_other_scope"   -> "UnauthorizedAdapter"
         [] v = "auth_other_request" -> "AuthorizationBindingMismatch"
         [] v = "stale_basis"        -> "StaleBasis"
         [] v = "ordinal1"           -> "AttemptBudgetExhausted"
         [] v = "zero_lease"         -> "MissingLeaseEvidence"
         [] OTHER                    -> "DURABLE"

SettleDecide(r, v) ==
  IF ~co.ready THEN "CoordinatorRecoveryRequired"
  ELSE IF Post(r) = "none" THEN "MissingRequest"
  ELSE IF Post(r) = "requested" THEN "MissingClaim"
  ELSE IF v = "foreign_grant" THEN "SettlementClaimMismatch"             \* grant != recovered (request, claim, commit)
  ELSE IF Post(r) = "settled" THEN "DuplicateSettlement"
  ELSE IF CandErr(v) # "valid" THEN CandErr(v)
  ELSE "DURABLE"

RetryDecide(r, v) ==
  IF ~co.ready THEN "CoordinatorRecoveryRequired"
  ELSE IF Post(r) = "none" THEN "MissingRequest"
  ELSE IF Post(r) = "requested" THEN "MissingClaim"
  ELSE IF CandErr(v) # "valid" THEN CandErr(v)
  ELSE IF Post(r) = "claimed" THEN "MissingSettlement"
  ELSE IF co.idx[r].st # v THEN "ConflictingSettlement"
  ELSE "Ok"

Decide(o, r, v) == CASE o = "record" -> RecordDecide(r, v) [] o = "claim" -> ClaimDecide(r, v)
                     [] o = "settle" -> SettleDecide(r, v) [] o = "retry" -> RetryDecide(r, v)

KindOf(o) == CASE o = "record" -> "req" [] o = "claim" -> "claim" [] o = "settle" -> "settle"
\* the entry the coordinator plans (plan_entry) before appending
Planned(o, r, v, tx) ==
  LET e == co.idx[r]
  IN CASE o = "record" -> [e EXCEPT !.post = "requested", !.rtx = tx]
       [] o = "claim"  -> [e EXCEPT !.post = "claimed", !.cl = v, !.ctx = tx]
       [] o = "settle" -> [e EXCEPT !.post = "settled", !.st = v, !.stx = tx]
BodyOf(o, r, v) == CASE o = "record" -> "req" [] o = "claim" -> v
                     [] o = "settle" -> [sv |-> v, att |-> co.idx[r].cl]

Ops == ({"record"} \X Reqs \X RecordVs) \cup ({"claim"} \X Reqs \X ClaimVs)
       \cup ({"settle"} \X Reqs \X SettleVs) \cup ({"retry"} \X Reqs \X RetryVs)

(* -------------------------------------------------------------- actions *)
Init ==
  /\ seg = <<>> /\ synced = 0
  /\ co = [alive |-> TRUE, ready |-> TRUE, idx |-> EmptyIdx, root |-> RootOf(EmptyIdx), lsn |-> 0, last |-> 0]
  /\ pend = None /\ nextTx = 1 /\ issued = {} /\ hist = <<>>

\* One API call, up to the first store call.
Call(o, r, v) ==
  /\ co.alive /\ pend = None
  /\ LET d == Decide(o, r, v)
     IN IF d = "DURABLE"
        THEN LET pl == Planned(o, r, v, nextTx)
             IN /\ pend' = [o |-> o, r |-> r, v |-> v, tx |-> nextTx, phase |-> "frame", kind |-> KindOf(o),
                            lsn |-> co.lsn, prev |-> co.last, body |-> BodyOf(o, r, v), plan |-> pl,
                            fr |-> <<co.root, [co.root EXCEPT ![r] = Leaf(pl)]>>]
                /\ nextTx' = nextTx + 1
                /\ co' = [co EXCEPT !.ready = FALSE]          \* append_transaction: self.ready = false
                /\ UNCHANGED <<seg, synced, issued, hist>>
        ELSE /\ hist' = Log(Entry(o, r, v, "-", d, co, seg))
             /\ issued' = IF o = "retry" /\ d = "Ok"
                            THEN issued \cup {[kind |-> "fact", r |-> r, tx |-> co.idx[r].stx, val |-> co.idx[r].st]}
                            ELSE issued
             /\ UNCHANGED <<seg, synced, co, pend, nextTx>>

\* accessor queries for every request id: no state change
Observe ==
  /\ co.alive /\ pend = None
  /\ hist' = Log([acc |-> [r \in Reqs |-> Accessors(co, r)]] @@ Entry("observe", "-", "-", "-", "Ok", co, seg))
  /\ UNCHANGED <<seg, synced, co, pend, nextTx, issued>>

AppendFrame ==
  /\ pend # None /\ pend.phase = "frame"
  /\ seg' = Append(seg, Frame(pend))
  /\ pend' = [pend EXCEPT !.phase = "commit"]
  /\ UNCHANGED <<synced, co, nextTx, issued, hist>>

FlushCommit ==
  /\ pend # None /\ pend.phase = "commit"
  /\ seg' = Append(seg, Commit(pend))
  /\ synced' = Len(seg')
  /\ pend' = [pend EXCEPT !.phase = "ack"]
  /\ UNCHANGED <<co, nextTx, issued, hist>>

AuthKind(o) == CASE o = "record" -> "token" [] o = "claim" -> "grant" [] o = "settle" -> "fact"
Return ==
  /\ pend # None /\ pend.phase = "ack" /\ "ok" \in Fates
  /\ LET c2 == [co EXCEPT !.ready = TRUE, !.idx[pend.r] = pend.plan, !.root = pend.fr[2],
                          !.lsn = pend.lsn + 1, !.last = pend.tx]
     IN /\ co' = c2
        /\ issued' = issued \cup {[kind |-> AuthKind(pend.o), r |-> pend.r, tx |-> pend.tx,
                                   val |-> IF pend.o = "record" THEN "req" ELSE pend.v]}
        /\ hist' = Log(Entry(pend.o, pend.r, pend.v, "ok", "Ok", c2, seg))
  /\ pend' = None
  /\ UNCHANGED <<seg, synced, nextTx>>

\* The store call of the current phase returns an error, before ("pre") or after
\* ("post") taking effect. The coordinator stays poisoned (ready = FALSE).
StoreFault(mode) ==
  /\ pend # None /\ pend.phase \in {"frame", "commit"}
  /\ LET fate == "fault_" \o pend.phase \o "_" \o mode
         seg2 == IF mode = "pre" THEN seg
                 ELSE IF pend.phase = "frame" THEN Append(seg, Frame(pend)) ELSE Append(seg, Commit(pend))
     IN /\ fate \in Fates
        /\ seg' = seg2
        /\ synced' = IF mode = "post" /\ pend.phase = "commit" THEN Len(seg2) ELSE synced
        /\ hist' = Log(Entry(pend.o, pend.r, pend.v, fate, "WalStore", co, seg2))
  /\ pend' = None
  /\ UNCHANGED <<co, nextTx, issued>>

\* The process stops inside a durable step. keep = the unsynced tail survives.
Crash(keep) ==
  /\ pend # None /\ co.alive
  /\ (pend.phase # "commit") => keep            \* only after the frame is there an unsynced tail to lose
  /\ LET fate == "crash_" \o pend.phase \o (IF pend.phase = "commit" THEN (IF keep THEN "_keep" ELSE "_lose") ELSE "")
         seg2 == IF keep THEN seg ELSE SubSeq(seg, 1, synced)
         c2   == [co EXCEPT !.alive = FALSE, !.ready = FALSE]
     IN /\ fate \in Fates
        /\ seg' = seg2
        /\ co' = c2
        /\ hist' = Log(Entry(pend.o, pend.r, pend.v, fate, "Crashed", c2, seg2))
  /\ pend' = None
  /\ UNCHANGED <<synced, nextTx, issued>>

\* Drop whatever coordinator exists (a stop between two operations), run ordinary WAL
\* recovery (tail truncation) and ExternalActionCoordinatorV1::recover. `res` is the
\* outcome of the bare coordinator recovery BEFORE the tail is resolved.
Recover ==
  /\ pend = None
  /\ LET dirty == HasTail(seg)
         seg2  == Truncate(seg)
         rb    == Rebuild(seg2)
         c2    == [alive |-> rb.ok, ready |-> rb.ok, idx |-> rb.idx, root |-> RootOf(rb.idx), lsn |-> rb.lsn, last |-> rb.last]
     IN /\ seg' = seg2
        /\ synced' = Len(seg2)
        /\ co' = c2
        /\ hist' = Log(Entry("recover", "-", "-", "-",
                             IF ~rb.ok THEN rb.err ELSE IF dirty THEN "WalTailNotClean" ELSE "Ok", c2, seg2))
  /\ UNCHANGED <<pend, nextTx, issued>>

Next == \/ \E op \in Ops : Call(op[1], op[2], op[3])
        \/ Observe \/ AppendFrame \/ FlushCommit \/ Return
        \/ \E m \in {"pre", "post"} : StoreFault(m)
        \/ \E k \in BOOLEAN : Crash(k)
        \/ Recover
Spec == Init /\ [][Next]_vars

(* ----------------------------------------------------------- invariants *)
CommittedFrames(s) == LET ct == CommitTxs(s) IN SelectSeq(Frames(s), LAMBDA f : f.tx \in ct)
KindsOf(s, r)      == LET fs == SelectSeq(CommittedFrames(s), LAMBDA f : f.r = r)
                      IN [i \in 1..Len(fs) |-> fs[i].kind]
IsPrefix(a, b)     == Len(a) <= Len(b) /\ \A i \in 1..Len(a) : a[i] = b[i]
Lifecycle          == <<"req", "claim", "settle">>

\* the recorded lifecycle of every request id is a prefix of requested, claimed, settled
Inv_LifecyclePrefix == \A r \in Reqs : IsPrefix(KindsOf(seg, r), Lifecycle)
\* ... and the live index never shows anything else
Inv_LiveShape == \A r \in Reqs :
   LET e == co.idx[r]
   IN /\ (e.post = "none")      => (e.cl = None /\ e.st = None)
      /\ (e.post = "requested") => (e.cl = None /\ e.st = None)
      /\ (e.post = "claimed")   => (e.cl \in GoodClaims /\ e.st = None)
      /\ (e.post = "settled")   => (e.cl \in GoodClaims /\ e.st \in GoodStl)
\* at most one claim grant is ever issued per request (and one token / one fact)
Inv_OneGrant == \A g1 \in issued, g2 \in issued :
   (g1.kind = g2.kind /\ g1.r = g2.r) => (g1.tx = g2.tx /\ g1.val = g2.val)
\* a settlement is admitted only for the exact claimed attempt and within the bounds
Inv_SettlementExact ==
   LET ct == CommitTxs(seg)
   IN \A i \in DOMAIN seg :
   (seg[i].t = "frame" /\ seg[i].kind = "settle") =>
      LET a == CandAttr(seg[i].body.sv)
      IN /\ a.req /\ a.att /\ a.ad /\ a.basis /\ a.schema /\ a.sev /\ a.xev /\ a.digest /\ a.size <= Bound
         /\ \E j \in 1..(i - 1) : /\ seg[j].t = "frame" /\ seg[j].kind = "claim" /\ seg[j].r = seg[i].r
                                  /\ seg[j].body = seg[i].body.att /\ seg[j].tx \in ct
\* each step is in the durable (synced) log before its grant is returned
Inv_DurableBeforeReturn == \A g \in issued :
   \E i \in 1..synced : seg[i].t = "commit" /\ seg[i].tx = g.tx
\* recovery of any reachable log succeeds (never obstructed by the coordinator's own history)
Inv_RecoveryNeverObstructed == Rebuild(Truncate(seg)).ok
\* RecoveredIndex = LiveIndex, RecoveredRoot = IncrementalRoot, same WAL continuation
Inv_RecoveredEqLive ==
   (co.alive /\ co.ready /\ pend = None) =>
      LET rb == Rebuild(Truncate(seg))
      IN rb.idx = co.idx /\ RootOf(rb.idx) = co.root /\ rb.lsn = co.lsn /\ rb.last = co.last /\ ~HasTail(seg)
\* a poisoned coordinator lags the durable log by at most the transaction it was appending
Inv_PoisonedLagsByOne ==
   (co.alive /\ ~co.ready /\ pend = None) =>
      LET rb == Rebuild(Truncate(seg))
      IN \/ rb.idx = co.idx
         \/ \E r \in Reqs : /\ \A q \in Reqs \ {r} : rb.idx[q] = co.idx[q]
                            /\ rb.last # co.last
\* the incrementally maintained root always equals the root of the live index
Inv_IncrementalRoot == co.root = RootOf(co.idx)
\* whatever was returned is what a recovery reconstructs: outstanding grants survive
Inv_IssuedSurvive ==
   LET rbi == Rebuild(Truncate(seg)).idx
   IN \A g \in issued :
   LET e == rbi[g.r]
   IN CASE g.kind = "token" -> e.rtx = g.tx
        [] g.kind = "grant" -> e.ctx = g.tx /\ e.cl = g.val
        [] g.kind = "fact"  -> e.stx = g.tx /\ e.st = g.val
\* retries are answered from the retained result (checked against the log)
Inv_RetryFromRetained == \A i \in DOMAIN hist :
   (hist[i].o = "retry" /\ hist[i].res = "Ok") =>
      \E f \in Range(CommittedFrames(seg)) : f.kind = "settle" /\ f.r = hist[i].r /\ f.body.sv = hist[i].v
\* no step is repeated: at most one committed record per (request, kind); serials unique
Inv_NoStepRepeated ==
   /\ LET ct == CommitTxs(seg)
      IN \A r \in Reqs : \A k \in {"req", "claim", "settle"} :
         Cardinality({i \in DOMAIN seg : seg[i].t = "frame" /\ seg[i].r = r /\ seg[i].kind = k /\ seg[i].tx \in ct}) <= 1
   /\ \A i \in DOMAIN seg, j \in DOMAIN seg : (i # j /\ seg[i].t = seg[j].t) => seg[i].tx # seg[j].tx
\* LSNs of the frames are contiguous from 0 (validate_recovery_frame_order)
Inv_LsnContiguous == LET fs == Frames(seg) IN \A i \in DOMAIN fs : fs[i].lsn = i - 1
\* every frame is immediately followed by its commit marker, except possibly the last
\* record of the log (the uncommitted tail); everything up to the last commit is synced
Inv_TailShape ==
   /\ synced <= Len(seg)
   /\ \A i \in DOMAIN seg : (seg[i].t = "frame" /\ i < Len(seg)) => (seg[i + 1].t = "commit" /\ seg[i + 1].tx = seg[i].tx)
   /\ \A i \in DOMAIN seg : seg[i].t = "commit" => (i <= synced /\ i > 1 /\ seg[i - 1].t = "frame" /\ seg[i - 1].tx = seg[i].tx)
=============================================================================
