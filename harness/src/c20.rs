//! C20: retained content is returned intact or not at all (echo-cas half).
//!
//! Input (ndjson), one case per line:
//!  * `{"tier","budget","steps":[{op,h,b,c,res,obs}]}` - a behaviour exported by TLC from
//!    spec/MC_C20.tla: every call with the model's predicted result and the predicted observable
//!    state after it.  The harness drives the real `MemoryTier` (+ `RetainedBlobIndex`) or
//!    `DiskTier` through the same calls under several byte tables / coordinate tables, compares
//!    the result of EVERY call and the full observable state after every call with the
//!    prediction, and decides the property itself on the real results (never trusting the model):
//!      P1 every `Ok(bytes)` returned for hash h satisfies blake3(bytes) = h (get, load, observation)
//!      P2 a verified put whose bytes do not hash to the declared hash is an error and the
//!         observable state is unchanged
//!      P3 a successful put of content that was readable before leaves the observable state
//!         unchanged (content lost after a put is *absence*, which the property allows: drift)
//!      P4 pin / unpin change nothing but the pin bit of that hash
//!      P5 get / has / load change nothing
//!      P6 a file whose raw bytes do not hash to its name is never answered with Ok(bytes)
//!      P7 a coordinate never changes the content it names; a conflicting retain is refused
//!         with everything unchanged; loads answer with the bound content or a typed error
//!    Real behaviour that differs from the prediction while P1..P7 hold is reported as drift.
//!  * `{"kind":"sweep","seed":n,"lens":[..]}` - harness-driven fault sweep of a populated disk
//!    tier: every stored file is bit-flipped (every bit of small files), truncated at every
//!    length, extended, replaced by another blob's bytes, deleted and restored; stray temp files
//!    are planted; after each single fault every hash is queried.
//!
//! Output: one line per case that is not ok `{"i","v":"violation"|"drift",...}` and a final summary line with the counts.

use std::collections::{BTreeMap, BTreeSet};
use std::path::{Path, PathBuf};
use std::sync::atomic::{AtomicU64, Ordering};

use echo_cas::{
    blob_hash, BlobHash, BlobStore, CasError, DiskTier, DiskTierError, MemoryTier, RetainedBlobIndex,
    RetainedBlobRole, RetentionError, SemanticBlobCoordinate,
};
use serde::{Deserialize, Serialize};
use serde_json::{json, Value};

use crate::util;

// ---------------------------------------------------------------------------- input

#[derive(Deserialize, Serialize, Clone, PartialEq, Eq, Debug, Default)]
struct Obs {
    g: BTreeMap<String, String>,
    s: Vec<String>,
    p: Vec<String>,
    l: String,
    n: u64,
    y: u64,
    o: bool,
    x: BTreeMap<String, String>,
    ld: BTreeMap<String, String>,
}

#[derive(Deserialize, Clone)]
struct Step {
    op: String,
    h: String,
    b: String,
    c: String,
    res: String,
    obs: Obs,
}

#[derive(Deserialize)]
struct SeqCase {
    tier: String,
    budget: u64,
    steps: Vec<Step>,
}

// ---------------------------------------------------------------------------- tables

/// Byte table: blob label -> bytes.
///
/// Variants 0..2: label "a","b","c" has length rank(label) * unit, so the model's unit sizes
/// (Size in MC_C20.tla) scale to real byte counts and the advisory budget can be compared.
/// Variants 3..6: ALL blobs have the SAME length and differ only in content, so nothing in the
/// code under test can tell two contents apart by length:
///   3 = 64 random bytes each; 4 = 64 bytes differing only in the LAST byte;
///   5 = 4096 bytes sharing a 4000-byte common prefix; 6 = one byte each ("A","B","C").
struct Table {
    unit: usize,
    equal_len: bool,
    bytes: BTreeMap<String, Vec<u8>>,
    hash: BTreeMap<String, BlobHash>,
}

const TABLE_VARIANTS: usize = 7;

fn rank(label: &str) -> usize {
    match label {
        "a" => 1,
        "b" => 2,
        "c" => 3,
        _ => 1,
    }
}

fn gen_bytes(tag: &str, seed: u64, len: usize) -> Vec<u8> {
    let mut hasher = blake3::Hasher::new();
    hasher.update(b"echo-verif/c20/");
    hasher.update(tag.as_bytes());
    hasher.update(&seed.to_le_bytes());
    let mut out = vec![0u8; len];
    hasher.finalize_xof().fill(&mut out);
    out
}

fn table(labels: &[String], variant: usize, seed: u64) -> Table {
    let unit = match variant {
        0 | 6 => 1,
        1 | 3 | 4 => 64,
        _ => 4096,
    };
    let equal_len = variant >= 3;
    let mut bytes = BTreeMap::new();
    let mut hash = BTreeMap::new();
    for l in labels {
        let r = rank(l) as u8;
        let v = match variant {
            // tiny printable blobs: "A", "BB", "CCC"
            0 => vec![b'A' + (r - 1); rank(l) * unit],
            1 | 2 => gen_bytes(l, seed, rank(l) * unit),
            3 => gen_bytes(l, seed, unit),
            4 => {
                let mut v = gen_bytes("common", seed, unit);
                v[unit - 1] = r;
                v
            }
            5 => {
                let mut v = gen_bytes("common", seed, 4000);
                v.extend(gen_bytes(l, seed, unit - 4000));
                v
            }
            _ => vec![b'A' + (r - 1)],
        };
        hash.insert(l.clone(), blob_hash(&v));
        bytes.insert(l.clone(), v);
    }
    Table { unit, equal_len, bytes, hash }
}

impl Table {
    fn label_of_hash(&self, h: &BlobHash) -> String {
        for (l, x) in &self.hash {
            if x == h {
                return l.clone();
            }
        }
        format!("?{}", &util::hex32(h.as_bytes())[..12])
    }
    fn label_of_bytes(&self, b: &[u8]) -> String {
        for (l, x) in &self.bytes {
            if x.as_slice() == b {
                return l.clone();
            }
        }
        format!("?len{}:{}", b.len(), hex::encode(&b[..b.len().min(6)]))
    }
}

const COORD_VARIANTS: usize = 6;

/// Coordinate table: label k<i> -> coordinate.  k0 is the base; k<i> differs from it in exactly
/// one field selected by `variant` (so aliasing through any ignored field shows up), variant 5
/// moves a character between adjacent string fields (concatenation aliasing).
fn coord(label: &str, variant: usize) -> SemanticBlobCoordinate {
    let i: usize = label.trim_start_matches('k').parse().unwrap_or(0);
    let mut c = SemanticBlobCoordinate {
        namespace: "echo.verif".to_string(),
        schema_hash_hex: "ab".repeat(32),
        artifact_hash_hex: "cd".repeat(32),
        role: RetainedBlobRole::Witness,
        semantic_digest: [7u8; 32],
    };
    if i == 0 {
        return c;
    }
    match variant {
        0 => c.namespace = format!("echo.verif{i}"),
        1 => c.schema_hash_hex = format!("{}{:02x}", "ab".repeat(31), i),
        2 => c.artifact_hash_hex = format!("{}{:02x}", "cd".repeat(31), i),
        3 => {
            c.role = match i {
                1 => RetainedBlobRole::ReadingPayload,
                2 => RetainedBlobRole::ReadingEnvelope,
                _ => RetainedBlobRole::ContractReceipt,
            }
        }
        4 => c.semantic_digest[31] = 7 ^ (i as u8),
        _ => {
            // "echo.verifa" + "b.." vs "echo.verif" + "ab.."
            if i == 1 {
                c.namespace = "echo.verifa".to_string();
                c.schema_hash_hex = format!("b{}", "ab".repeat(31));
            } else {
                c.namespace = "echo.veri".to_string();
                c.schema_hash_hex = format!("f{}", "ab".repeat(32));
            }
        }
    }
    c
}

// ---------------------------------------------------------------------------- real store

static SCRATCH_N: AtomicU64 = AtomicU64::new(0);

fn scratch_base() -> PathBuf {
    PathBuf::from(
        std::env::var("VERIF_C20_SCRATCH").unwrap_or_else(|_| "/verif/work/agent_c20/scratch".to_string()),
    )
}

fn fresh_dir() -> PathBuf {
    let n = SCRATCH_N.fetch_add(1, Ordering::Relaxed);
    let p = scratch_base().join(format!("c20_{}_{}", std::process::id(), n));
    let _ = std::fs::remove_dir_all(&p);
    std::fs::create_dir_all(&p).unwrap_or_else(|e| {
        eprintln!("cannot create scratch dir {}: {e}", p.display());
        std::process::exit(2)
    });
    p
}

enum Store {
    Mem(MemoryTier),
    Disk(DiskTier, PathBuf),
}

fn disk_err(e: &DiskTierError) -> String {
    match e {
        DiskTierError::Cas(CasError::HashMismatch { .. }) => "err:mismatch".to_string(),
        DiskTierError::Io { .. } => "err:io".to_string(),
        DiskTierError::InvalidBlobPath { .. } => "err:invalid_path".to_string(),
    }
}

fn hexname(h: &BlobHash) -> String {
    util::hex32(h.as_bytes())
}

fn blob_file(root: &Path, h: &BlobHash) -> PathBuf {
    let hx = hexname(h);
    root.join("blobs").join(&hx[..2]).join(hx)
}

/// Everything a run needs to decide the property without the model.
struct World<'t> {
    t: &'t Table,
    cv: usize,
    budget: usize,
    budget_units: u64,
    store: Store,
    index: RetainedBlobIndex,
    labels: Vec<String>,
    coords: Vec<String>,
    /// reference: first content bound to each coordinate by a successful retain
    bound: BTreeMap<String, BlobHash>,
    viol: Vec<(String, String)>,
    gets_checked: u64,
    tmp_planted: u64,
}

impl<'t> World<'t> {
    fn open_store(tier: &str, budget: usize, root: Option<&Path>) -> Store {
        if tier == "mem" {
            Store::Mem(MemoryTier::with_limits(budget))
        } else {
            let root = root.map(Path::to_path_buf).unwrap_or_else(fresh_dir);
            match DiskTier::open(&root) {
                Ok(d) => Store::Disk(d, root),
                Err(e) => {
                    eprintln!("DiskTier::open failed on scratch dir: {e}");
                    std::process::exit(2)
                }
            }
        }
    }

    fn v(&mut self, kind: &str, detail: String) {
        if self.viol.len() < 8 {
            self.viol.push((kind.to_string(), detail));
        }
    }

    fn tier(&self) -> &'static str {
        match self.store {
            Store::Mem(_) => "memory",
            Store::Disk(..) => "disk",
        }
    }

    /// get with P1 decided on the spot.
    fn get(&mut self, label: &str) -> String {
        let h = self.t.hash[label];
        let r: Result<Option<std::sync::Arc<[u8]>>, String> = match &self.store {
            Store::Mem(m) => Ok(m.get(&h)),
            Store::Disk(d, _) => d.get(&h).map_err(|e| disk_err(&e)),
        };
        match r {
            Ok(None) => "none".to_string(),
            Ok(Some(bytes)) => {
                self.gets_checked += 1;
                if blob_hash(&bytes) != h {
                    let k = format!("{}_get_returned_wrong_bytes", self.tier());
                    self.v(&k, format!("get({label}) returned Ok with bytes {} that do not hash to the requested hash", self.t.label_of_bytes(&bytes)));
                }
                // P6: the raw file must hold exactly these bytes
                let file = match &self.store {
                    Store::Disk(_, root) => Some(blob_file(root, &h)),
                    Store::Mem(_) => None,
                };
                if let Some(file) = file {
                    let raw = std::fs::read(file).ok();
                    if raw.as_deref() != Some(&bytes[..]) {
                        self.v("disk_get_not_from_file", format!("get({label}) returned Ok but the blob file does not hold these bytes"));
                    }
                }
                format!("ok:{}", self.t.label_of_bytes(&bytes))
            }
            Err(e) => e,
        }
    }

    fn has(&self, label: &str) -> String {
        let h = self.t.hash[label];
        match &self.store {
            Store::Mem(m) => m.has(&h).to_string(),
            Store::Disk(d, _) => match d.has(&h) {
                Ok(b) => b.to_string(),
                Err(e) => disk_err(&e),
            },
        }
    }

    fn load(&mut self, cl: &str) -> String {
        let c = coord(cl, self.cv);
        let Store::Mem(m) = &self.store else { return "-".to_string() };
        match self.index.load(m, &c) {
            Ok(blob) => {
                self.gets_checked += 1;
                let mut bad = Vec::new();
                if blob_hash(&blob.bytes) != blob.descriptor.content_hash {
                    bad.push("bytes do not hash to descriptor.content_hash");
                }
                if blob.descriptor.coordinate != c {
                    bad.push("descriptor names another coordinate");
                }
                if blob.descriptor.byte_len != blob.bytes.len() as u64 {
                    bad.push("byte_len differs from the bytes returned");
                }
                if let Some(first) = self.bound.get(cl) {
                    if *first != blob.descriptor.content_hash {
                        bad.push("coordinate answers with content other than what was bound to it");
                    }
                } else {
                    bad.push("coordinate answers although nothing was ever retained under it");
                }
                if !bad.is_empty() {
                    self.v("retention_load_wrong_content", format!("load({cl}): {}", bad.join("; ")));
                }
                format!("ok:{}", self.t.label_of_bytes(&blob.bytes))
            }
            Err(RetentionError::MissingSemanticCoordinate { .. }) => "err:missing_coord".to_string(),
            Err(RetentionError::MissingBlob { .. }) => "err:missing_blob".to_string(),
            Err(e) => format!("err:other:{e}"),
        }
    }

    fn observe(&mut self) -> Obs {
        let labels = self.labels.clone();
        let coords = self.coords.clone();
        let mut o = Obs::default();
        for l in &labels {
            let g = self.get(l);
            o.g.insert(l.clone(), g);
            if self.has(l) == "true" {
                o.s.push(l.clone());
            }
            let pinned = match &self.store {
                Store::Mem(m) => m.is_pinned(&self.t.hash[l]),
                Store::Disk(d, _) => d.is_pinned(&self.t.hash[l]),
            };
            if pinned {
                o.p.push(l.clone());
            }
        }
        let pinned_count = match &self.store {
            Store::Mem(m) => m.pinned_count(),
            Store::Disk(d, _) => d.pinned_count(),
        };
        if pinned_count != o.p.len() {
            o.p.push(format!("?pinned_count={pinned_count}"));
        }
        match &self.store {
            Store::Mem(m) => {
                o.l = "-".to_string();
                o.n = m.len() as u64;
                // byte_count must be the sum of the stored lengths; it is reported in the model's
                // units (sum of the ranks of the present blobs) so that equal-length tables compare too
                let bc = m.byte_count();
                let want_bytes: usize = o.s.iter().map(|l| self.t.bytes[l].len()).sum();
                let units: u64 = o.s.iter().map(|l| rank(l) as u64).sum();
                o.y = if bc == want_bytes { units } else { 1_000_000 + bc as u64 };
                // is_over_budget must be (byte_count > budget); reported as the model's predicate
                let over_units = units > self.budget_units;
                o.o = if m.is_over_budget() == (bc > self.budget) { over_units } else { !over_units };
                if m.is_empty() != (m.len() == 0) {
                    o.l = "?is_empty".to_string();
                }
            }
            Store::Disk(d, _) => match d.list() {
                Ok(hs) => {
                    let mut sorted = hs.clone();
                    sorted.sort();
                    sorted.dedup();
                    let want: Vec<BlobHash> = {
                        let mut w: Vec<BlobHash> = o.s.iter().map(|l| self.t.hash[l]).collect();
                        w.sort();
                        w
                    };
                    o.l = if sorted != hs {
                        "?unsorted".to_string()
                    } else if hs != want {
                        format!("?list={:?}", hs.iter().map(|h| self.t.label_of_hash(h)).collect::<Vec<_>>())
                    } else {
                        "ok".to_string()
                    };
                    o.n = hs.len() as u64;
                }
                Err(e) => {
                    o.l = disk_err(&e);
                    o.n = o.s.len() as u64;
                }
            },
        }
        for c in &coords {
            let d = self.index.descriptor(&coord(c, self.cv)).map(|d| d.content_hash);
            o.x.insert(c.clone(), d.map(|h| self.t.label_of_hash(&h)).unwrap_or_else(|| "-".to_string()));
            let ld = self.load(c);
            o.ld.insert(c.clone(), ld);
        }
        o
    }

    /// Number of dot-files in all shard directories (temp files the tier left behind + planted ones).
    fn dot_files(&self) -> u64 {
        let Store::Disk(_, root) = &self.store else { return 0 };
        let mut n = 0;
        if let Ok(shards) = std::fs::read_dir(root.join("blobs")) {
            for s in shards.flatten() {
                if let Ok(files) = std::fs::read_dir(s.path()) {
                    for f in files.flatten() {
                        if f.file_name().to_string_lossy().starts_with('.') {
                            n += 1;
                        }
                    }
                }
            }
        }
        n
    }

    fn fault(&mut self, op: &str, hl: &str, bl: &str) -> String {
        let Store::Disk(_, root) = &self.store else { return "err:not_disk".to_string() };
        let root = root.clone();
        let h = self.t.hash[hl];
        let path = blob_file(&root, &h);
        let shard = path.parent().map(Path::to_path_buf).unwrap_or_default();
        let r: std::io::Result<()> = (|| {
            match op {
                "f_flip" => {
                    let mut b = std::fs::read(&path)?;
                    let pos = b.len() / 2;
                    b[pos] ^= 1 << (pos % 8);
                    std::fs::write(&path, b)
                }
                "f_trunc" => {
                    let b = std::fs::read(&path)?;
                    std::fs::write(&path, &b[..b.len() / 2])
                }
                "f_swap" => {
                    std::fs::create_dir_all(&shard)?;
                    std::fs::write(&path, &self.t.bytes[bl])
                }
                "f_delete" => {
                    if path.is_dir() {
                        std::fs::remove_dir(&path)
                    } else {
                        std::fs::remove_file(&path)
                    }
                }
                "f_tmp" => {
                    // a complete, valid temp file that was never renamed into place
                    std::fs::create_dir_all(&shard)?;
                    self.tmp_planted += 1;
                    std::fs::write(shard.join(format!(".{}.{}.tmp", hexname(&h), u64::MAX - self.tmp_planted)), &self.t.bytes[hl])
                }
                "f_junk" => {
                    std::fs::create_dir_all(&shard)?;
                    std::fs::write(shard.join("README.txt"), b"not a blob")
                }
                "f_dir" => {
                    std::fs::create_dir_all(&shard)?;
                    if path.is_file() {
                        std::fs::remove_file(&path)?;
                    }
                    std::fs::create_dir(&path)
                }
                _ => Err(std::io::Error::new(std::io::ErrorKind::Other, "unknown fault")),
            }
        })();
        match r {
            Ok(()) => "ok".to_string(),
            Err(e) => format!("harness-io:{e}"),
        }
    }

    /// Performs one model step on the real objects; returns the result string.
    fn call(&mut self, st: &Step) -> String {
        let t = self.t;
        match st.op.as_str() {
            "put" => {
                let bytes = &t.bytes[&st.b];
                match &mut self.store {
                    Store::Mem(m) => format!("ok:{}", t.label_of_hash(&m.put(bytes))),
                    Store::Disk(d, _) => match d.put(bytes) {
                        Ok(h) => format!("ok:{}", t.label_of_hash(&h)),
                        Err(e) => disk_err(&e),
                    },
                }
            }
            "pv" => {
                let bytes = &t.bytes[&st.b];
                let expected = t.hash[&st.h];
                match &mut self.store {
                    Store::Mem(m) => match m.put_verified(expected, bytes) {
                        Ok(()) => "ok".to_string(),
                        Err(CasError::HashMismatch { expected: e, computed: c }) => {
                            if e != expected || c != blob_hash(bytes) {
                                "err:mismatch?fields".to_string()
                            } else {
                                "err:mismatch".to_string()
                            }
                        }
                    },
                    Store::Disk(d, _) => match d.put_verified(expected, bytes) {
                        Ok(()) => "ok".to_string(),
                        Err(DiskTierError::Cas(CasError::HashMismatch { expected: e, computed: c })) => {
                            if e != expected || c != blob_hash(bytes) {
                                "err:mismatch?fields".to_string()
                            } else {
                                "err:mismatch".to_string()
                            }
                        }
                        Err(e) => disk_err(&e),
                    },
                }
            }
            "get" => self.get(&st.h),
            "has" => self.has(&st.h),
            "pin" => {
                let h = t.hash[&st.h];
                match &mut self.store {
                    Store::Mem(m) => m.pin(&h),
                    Store::Disk(d, _) => d.pin(&h),
                }
                "ok".to_string()
            }
            "unpin" => {
                let h = t.hash[&st.h];
                match &mut self.store {
                    Store::Mem(m) => m.unpin(&h),
                    Store::Disk(d, _) => d.unpin(&h),
                }
                "ok".to_string()
            }
            "reopen" => {
                let root = match &self.store {
                    Store::Mem(_) => None,
                    Store::Disk(_, r) => Some(r.clone()),
                };
                let tier = if root.is_some() { "disk" } else { "mem" };
                // drop the old handle first (process reconstruction)
                let old = std::mem::replace(&mut self.store, Store::Mem(MemoryTier::new()));
                drop(old);
                self.store = Self::open_store(tier, self.budget, root.as_deref());
                "ok".to_string()
            }
            "retain" => {
                let c = coord(&st.c, self.cv);
                let bytes = &t.bytes[&st.b];
                let Store::Mem(m) = &mut self.store else { return "err:not_mem".to_string() };
                match self.index.retain(m, c.clone(), bytes) {
                    Ok(d) => {
                        if d.coordinate != c || d.byte_len != bytes.len() as u64 || d.content_hash != blob_hash(bytes) {
                            self.v("retention_descriptor_wrong", format!("retain({},{}) returned a descriptor for other content/coordinate", st.c, st.b));
                        }
                        self.bound.entry(st.c.clone()).or_insert(d.content_hash);
                        format!("ok:{}", t.label_of_hash(&d.content_hash))
                    }
                    Err(RetentionError::SemanticCoordinateConflict { .. }) => "err:conflict".to_string(),
                    Err(e) => format!("err:other:{e}"),
                }
            }
            "load" => self.load(&st.c),
            f if f.starts_with("f_") => self.fault(f, &st.h, &st.b),
            other => format!("harness-unknown-op:{other}"),
        }
    }
}

fn content_part(o: &Obs) -> Obs {
    let mut c = o.clone();
    c.p.clear();
    c
}

struct SeqOutcome {
    viol: Vec<(String, String)>,
    drift: Vec<String>,
    calls: u64,
    gets: u64,
    /// conflicting retains (coordinate bound to other content) whose two contents have EQUAL length
    eq_len_conflicts: u64,
    /// mismatching verified puts whose bytes have the same length as the declared blob
    eq_len_pv: u64,
}

/// Replays one behaviour under one (byte table, coordinate table) choice.
fn replay_seq(case: &SeqCase, t: &Table, cv: usize) -> SeqOutcome {
    let labels: Vec<String> = case.steps.first().map(|s| s.obs.g.keys().cloned().collect()).unwrap_or_default();
    let coords: Vec<String> = case.steps.first().map(|s| s.obs.x.keys().cloned().collect()).unwrap_or_default();
    let budget = if t.equal_len { case.budget as usize * t.unit + t.unit / 2 } else { case.budget as usize * t.unit };
    let mut w = World {
        t,
        cv,
        budget,
        budget_units: case.budget,
        store: World::open_store(&case.tier, budget, None),
        index: RetainedBlobIndex::default(),
        labels,
        coords,
        bound: BTreeMap::new(),
        viol: Vec::new(),
        gets_checked: 0,
        tmp_planted: 0,
    };
    let root = match &w.store {
        Store::Disk(_, r) => Some(r.clone()),
        Store::Mem(_) => None,
    };
    let mut drift: Vec<String> = Vec::new();
    let mut calls = 0u64;
    let mut eq_len_conflicts = 0u64;
    let mut eq_len_pv = 0u64;
    let mut before = w.observe();
    for (i, st) in case.steps.iter().enumerate() {
        let is_fault = st.op.starts_with("f_");
        let res = w.call(st);
        calls += 1;
        if res.starts_with("harness-") {
            drift.push(format!("step {i} {}: harness could not perform the step: {res}", st.op));
            break;
        }
        let after = w.observe();
        let tier = w.tier();
        // ---- the property, decided on the real results only
        match st.op.as_str() {
            "pv" => {
                let mismatching = blob_hash(&t.bytes[&st.b]) != t.hash[&st.h];
                if mismatching {
                    if t.bytes[&st.b].len() == t.bytes[&st.h].len() {
                        eq_len_pv += 1;
                    }
                    if !res.starts_with("err:mismatch") {
                        let present = before.s.contains(&st.h);
                        let k = if tier == "memory" && present && res == "ok" {
                            "memory_put_verified_mismatch_when_present".to_string()
                        } else {
                            format!("{tier}_put_verified_mismatch_not_refused")
                        };
                        w.v(&k, format!("step {i}: put_verified(H({}), bytes of {}) returned {res} (declared hash {}present before the call); the mismatching write was not refused", st.h, st.b, if present { "" } else { "not " }));
                    } else if res != "err:mismatch" {
                        w.v(&format!("{tier}_hash_mismatch_error_fields"), format!("step {i}: HashMismatch carries wrong expected/computed"));
                    }
                    if after != before {
                        w.v(&format!("{tier}_mismatching_put_changed_store"), format!("step {i}: put_verified(H({}), bytes of {}) -> {res} changed the observable state: {} -> {}", st.h, st.b, json!(before), json!(after)));
                    }
                }
            }
            "pin" | "unpin" => {
                if content_part(&after) != content_part(&before) {
                    w.v(&format!("{tier}_pin_changed_content"), format!("step {i}: {}({}) changed content: {} -> {}", st.op, st.h, json!(before), json!(after)));
                }
                let mut want: BTreeSet<String> = before.p.iter().cloned().collect();
                if st.op == "pin" {
                    want.insert(st.h.clone());
                } else {
                    want.remove(&st.h);
                }
                if want != after.p.iter().cloned().collect::<BTreeSet<String>>() {
                    w.v(&format!("{tier}_pin_set_wrong"), format!("step {i}: {}({}) pins {:?} -> {:?}", st.op, st.h, before.p, after.p));
                }
            }
            "get" | "has" | "load" => {
                if after != before {
                    w.v(&format!("{tier}_read_changed_store"), format!("step {i}: {}({}{}) changed the observable state: {} -> {}", st.op, st.h, st.c, json!(before), json!(after)));
                }
            }
            "retain" => {
                let prev = before.x.get(&st.c).cloned().unwrap_or_default();
                if prev != "-" && prev != st.b {
                    if t.bytes.get(&prev).map(Vec::len) == Some(t.bytes[&st.b].len()) {
                        eq_len_conflicts += 1;
                    }
                    if res != "err:conflict" {
                        w.v("retention_conflict_not_refused", format!("step {i}: retain({}, {}) on a coordinate bound to {prev} returned {res}", st.c, st.b));
                    }
                    if after != before {
                        w.v("retention_conflict_changed_state", format!("step {i}: refused retain changed state: {} -> {}", json!(before), json!(after)));
                    }
                }
                for (c, v) in &before.x {
                    if c != &st.c && after.x.get(c) != Some(v) {
                        w.v("retention_coordinate_alias", format!("step {i}: retain({}, {}) changed coordinate {c}: {v} -> {:?}", st.c, st.b, after.x.get(c)));
                    }
                }
            }
            _ => {}
        }
        if (st.op == "put" || st.op == "pv") && res.starts_with("ok") && blob_hash(&t.bytes[&st.b]) == t.hash[&st.h] {
            let want = format!("ok:{}", st.h);
            if before.g.get(&st.h) == Some(&want) && after != before {
                w.v(&format!("{tier}_put_not_idempotent"), format!("step {i}: {}({}) of content already readable changed the observable state: {} -> {}", st.op, st.b, json!(before), json!(after)));
            }
        }
        // a bound coordinate never changes what it names (any op)
        for (c, v) in &before.x {
            if v != "-" && after.x.get(c) != Some(v) {
                w.v("retention_coordinate_rebound", format!("step {i}: {} changed what coordinate {c} names: {v} -> {:?}", st.op, after.x.get(c)));
            }
        }
        // ---- conformance with the model's prediction
        if !is_fault && res != st.res {
            drift.push(format!("step {i}: {}({},{},{}) returned {res}, model predicted {}", st.op, st.h, st.b, st.c, st.res));
        }
        if after != st.obs {
            drift.push(format!("step {i}: after {}({},{},{}) observable state is {}, model predicted {}", st.op, st.h, st.b, st.c, json!(after), json!(st.obs)));
        }
        let dots = if root.is_some() && (st.op == "put" || st.op == "pv" || st.op == "reopen") { w.dot_files() } else { w.tmp_planted };
        if dots != w.tmp_planted {
            drift.push(format!("step {i}: {dots} dot-files in shard directories, {} planted (temp file leaked or removed)", w.tmp_planted));
        }
        before = after;
        if drift.len() > 4 {
            break;
        }
    }
    let gets = w.gets_checked;
    let viol = std::mem::take(&mut w.viol);
    drop(w);
    if let Some(r) = root {
        let _ = std::fs::remove_dir_all(r);
    }
    SeqOutcome { viol, drift, calls, gets, eq_len_conflicts, eq_len_pv }
}

/// A behaviour counts as non-trivial when it exercises a clause of the property beyond plain
/// put/get: a mismatching verified put, a file fault followed by a later call, a repeated write of
/// the same content, a refused (conflicting) retain, or a reopen over stored content.
fn nontrivial(case: &SeqCase) -> bool {
    let mut seen: BTreeSet<&str> = BTreeSet::new();
    for (i, s) in case.steps.iter().enumerate() {
        if s.op == "pv" && s.h != s.b {
            return true;
        }
        if s.op.starts_with("f_") && i + 1 < case.steps.len() {
            return true;
        }
        if (s.op == "put" || s.op == "pv") && s.res.starts_with("ok") && !seen.insert(s.h.as_str()) {
            return true;
        }
        if s.op == "retain" && s.res == "err:conflict" {
            return true;
        }
        if s.op == "reopen" && i > 0 && !case.steps[i - 1].obs.s.is_empty() {
            return true;
        }
    }
    false
}

fn run_seq(i: usize, v: &Value, seed: u64, stats: &mut Stats) -> Value {
    let case: SeqCase = match serde_json::from_value(v.clone()) {
        Ok(c) => c,
        Err(e) => {
            eprintln!("case {i}: cannot decode: {e}");
            std::process::exit(2)
        }
    };
    let labels: Vec<String> = case.steps.first().map(|s| s.obs.g.keys().cloned().collect()).unwrap_or_default();
    let has_retain = case.steps.iter().any(|s| s.op == "retain");
    stats.seq += 1;
    if nontrivial(&case) {
        stats.nontrivial += 1;
    }
    // memory: every byte table (the rank-length ones and the equal-length ones); disk: one table
    // chosen by case number (file-system calls dominate), cycling through all of them
    let tvs: Vec<usize> = if case.tier == "mem" { (0..TABLE_VARIANTS).collect() } else { vec![[0, 3, 1, 4, 6, 5, 0, 3, 2, 4][i % 10]] };
    let cvs: Vec<usize> = if has_retain { (0..COORD_VARIANTS).collect() } else { vec![0] };
    for tv in &tvs {
        let t = table(&labels, *tv, seed);
        for cv in &cvs {
            // coordinate tables only matter with the first byte table
            if *cv != 0 && *tv != tvs[0] {
                continue;
            }
            let out = match util::catch(|| replay_seq(&case, &t, *cv)) {
                Ok(o) => o,
                Err(p) => {
                    return json!({"i": i, "v": "violation", "kind": format!("{}_panic", case.tier), "detail": format!("panic in code under test: {p}"), "table": tv, "coords": cv});
                }
            };
            stats.replays += 1;
            stats.calls += out.calls;
            stats.gets += out.gets;
            stats.eq_len_conflicts += out.eq_len_conflicts;
            stats.eq_len_pv += out.eq_len_pv;
            if let Some((k, d)) = out.viol.first() {
                return json!({"i": i, "v": "violation", "kind": k, "detail": d, "all": out.viol.iter().map(|x| x.0.clone()).collect::<Vec<_>>(), "drift": out.drift, "table": tv, "coords": cv});
            }
            if !out.drift.is_empty() {
                return json!({"i": i, "v": "drift", "detail": out.drift, "table": tv, "coords": cv});
            }
        }
    }
    json!({"i": i, "v": "ok"})
}

// ---------------------------------------------------------------------------- fault sweep (disk tier)

#[derive(Default, Clone)]
struct Stats {
    eq_len_conflicts: u64,
    eq_len_pv: u64,
    sweep_same_len_faults: u64,
    sweep_len_changing_faults: u64,
    export: u64,
    export_attempts: u64,
    envelope_evals: u64,
    seq: u64,
    sweep: u64,
    ok: u64,
    violation: u64,
    drift: u64,
    nontrivial: u64,
    replays: u64,
    calls: u64,
    gets: u64,
    sweep_faults: u64,
    sweep_queries: u64,
}

struct Sweep {
    tier: DiskTier,
    root: PathBuf,
    blobs: Vec<(BlobHash, Vec<u8>)>,
    viol: Vec<(String, String)>,
    drift: Vec<String>,
    faults: u64,
    queries: u64,
    /// corruptions that keep the file length (bit flips, same-length foreign bytes) / change it
    same_len_faults: u64,
    len_changing_faults: u64,
}

impl Sweep {
    fn v(&mut self, k: &str, d: String) {
        if self.viol.len() < 8 {
            self.viol.push((k.to_string(), d));
        }
    }

    /// Queries every stored hash after a single fault on blob `victim`.
    /// `expect`: what get(victim) must be: "err" (typed mismatch), "none", "ok".
    fn check_all(&mut self, victim: usize, what: &str, expect: &str) {
        self.faults += 1;
        let blobs = self.blobs.clone();
        if expect == "err" {
            let raw_len = std::fs::metadata(blob_file(&self.root, &blobs[victim].0)).map(|m| m.len()).unwrap_or(u64::MAX);
            if raw_len == blobs[victim].1.len() as u64 {
                self.same_len_faults += 1;
            } else {
                self.len_changing_faults += 1;
            }
        }
        for (j, (h, bytes)) in blobs.iter().enumerate() {
            self.queries += 1;
            let r = self.tier.get(h);
            match &r {
                Ok(Some(got)) => {
                    if blob_hash(got) != *h {
                        self.v("disk_get_returned_wrong_bytes", format!("{what} on blob #{victim} (len {}): get(#{j}) returned Ok with {} bytes that do not hash to the requested hash", blobs[victim].1.len(), got.len()));
                    } else if got[..] != bytes[..] {
                        self.v("disk_get_returned_wrong_bytes", format!("{what}: get(#{j}) returned bytes different from what was put"));
                    }
                    if j == victim && expect != "ok" {
                        self.v("disk_corruption_not_detected", format!("{what} on blob #{victim} (len {}): get answered Ok", blobs[victim].1.len()));
                    }
                }
                Ok(None) => {
                    if j != victim {
                        self.drift.push(format!("{what} on #{victim}: get(#{j}) of an untouched blob answered None"));
                    } else if expect == "ok" {
                        self.drift.push(format!("{what} on #{victim}: get answered None, expected the content"));
                    } else if expect == "err" {
                        self.drift.push(format!("{what} on #{victim}: get answered None (absence), model expects a typed HashMismatch"));
                    }
                }
                Err(DiskTierError::Cas(CasError::HashMismatch { expected, computed })) => {
                    if j != victim || expect != "err" {
                        self.drift.push(format!("{what} on #{victim}: get(#{j}) answered HashMismatch, expected {expect}"));
                    }
                    if expected != h {
                        self.v("disk_hash_mismatch_error_fields", format!("{what}: HashMismatch.expected is not the requested hash"));
                    }
                    if let Ok(raw) = std::fs::read(blob_file(&self.root, h)) {
                        if blob_hash(&raw) != *computed {
                            self.v("disk_hash_mismatch_error_fields", format!("{what}: HashMismatch.computed is not the hash of the file"));
                        }
                    }
                }
                Err(e) => {
                    self.drift.push(format!("{what} on #{victim}: get(#{j}) answered {}", disk_err(e)));
                }
            }
            match self.tier.has(h) {
                Ok(b) => {
                    let want = !(j == victim && expect == "none");
                    if b != want {
                        self.drift.push(format!("{what} on #{victim}: has(#{j}) = {b}, expected {want}"));
                    }
                }
                Err(e) => self.drift.push(format!("{what} on #{victim}: has(#{j}) answered {}", disk_err(&e))),
            }
        }
        match self.tier.list() {
            Ok(hs) => {
                let mut want: Vec<BlobHash> = blobs.iter().enumerate().filter(|(j, _)| !(*j == victim && expect == "none")).map(|(_, b)| b.0).collect();
                want.sort();
                want.dedup();
                if hs != want {
                    self.drift.push(format!("{what} on #{victim}: list() has {} entries, expected {} (sorted, stored hashes only)", hs.len(), want.len()));
                }
            }
            Err(e) => self.drift.push(format!("{what} on #{victim}: list() answered {}", disk_err(&e))),
        }
        if self.drift.len() > 6 {
            self.drift.truncate(6);
        }
    }
}

fn run_sweep(i: usize, v: &Value, stats: &mut Stats) -> Value {
    stats.sweep += 1;
    let seed = v["seed"].as_u64().unwrap_or(1);
    let lens: Vec<usize> = v["lens"].as_array().map(|a| a.iter().filter_map(|x| x.as_u64()).map(|x| x as usize).collect()).unwrap_or_default();
    let root = fresh_dir();
    let tier = match DiskTier::open(&root) {
        Ok(t) => t,
        Err(e) => {
            eprintln!("DiskTier::open: {e}");
            std::process::exit(2)
        }
    };
    let mut sw = Sweep { tier, root: root.clone(), blobs: Vec::new(), viol: Vec::new(), drift: Vec::new(), faults: 0, queries: 0, same_len_faults: 0, len_changing_faults: 0 };
    let r = util::catch(|| {
        let mut seen = BTreeSet::new();
        for (k, len) in lens.iter().enumerate() {
            let bytes = gen_bytes(&format!("sweep{k}"), seed, *len);
            let h = blob_hash(&bytes);
            if !seen.insert(h) {
                continue;
            }
            match sw.tier.put(&bytes) {
                Ok(got) if got == h => {}
                Ok(_) => sw.v("disk_put_wrong_hash", format!("put of {len} bytes returned a hash that is not BLAKE3(bytes)")),
                Err(e) => sw.drift.push(format!("put of {len} bytes failed: {}", disk_err(&e))),
            }
            if k % 2 == 0 {
                sw.tier.pin(&h);
            }
            sw.blobs.push((h, bytes));
        }
        sw.check_all(0, "no fault", "ok");
        let n = sw.blobs.len();
        for vi in 0..n {
            let (h, orig) = sw.blobs[vi].clone();
            let path = blob_file(&sw.root, &h);
            let len = orig.len();
            let restore = |p: &Path| {
                let _ = std::fs::write(p, &orig);
            };
            // bit flips: every bit of small files, one seeded bit at sampled positions of large ones
            let positions: Vec<usize> = if len <= 48 {
                (0..len).collect()
            } else {
                let mut p: BTreeSet<usize> = [0, 1, len / 2, len - 2, len - 1].into_iter().collect();
                let r = gen_bytes("pos", seed ^ vi as u64, 8 * 24);
                for c in r.chunks(8) {
                    p.insert(u64::from_le_bytes([c[0], c[1], c[2], c[3], c[4], c[5], c[6], c[7]]) as usize % len);
                }
                p.into_iter().collect()
            };
            for pos in positions {
                let bits: Vec<u8> = if len <= 48 { (0..8).collect() } else { vec![(pos % 8) as u8] };
                for bit in bits {
                    let mut b = orig.clone();
                    b[pos] ^= 1 << bit;
                    let _ = std::fs::write(&path, &b);
                    sw.check_all(vi, &format!("flip byte {pos} bit {bit}"), "err");
                }
            }
            // truncation at every length (sampled for large files), and extension
            let cuts: Vec<usize> = if len <= 80 { (0..len).collect() } else { vec![0, 1, len / 3, len / 2, len - 1] };
            for cut in cuts {
                let _ = std::fs::write(&path, &orig[..cut]);
                sw.check_all(vi, &format!("truncate to {cut}"), "err");
            }
            let mut ext = orig.clone();
            ext.push(0);
            let _ = std::fs::write(&path, &ext);
            sw.check_all(vi, "append one zero byte", "err");
            // the bytes of every other stored blob
            for oj in 0..n {
                if oj != vi {
                    let other = sw.blobs[oj].1.clone();
                    let _ = std::fs::write(&path, &other);
                    sw.check_all(vi, &format!("overwrite with the bytes of blob #{oj}"), "err");
                }
            }
            // deletion, then repair by writing the same content again
            let _ = std::fs::remove_file(&path);
            sw.check_all(vi, "delete", "none");
            // a complete temp file for the deleted blob must not make it appear
            let tmp = path.parent().map(|p| p.join(format!(".{}.{}.tmp", hexname(&h), u64::MAX))).unwrap_or_default();
            let _ = std::fs::write(&tmp, &orig);
            sw.check_all(vi, "delete + stray complete temp file", "none");
            // mismatching verified put must be refused and must not resurrect / alter anything
            let wrong = sw.blobs[(vi + 1) % n].1.clone();
            if n > 1 {
                match sw.tier.put_verified(h, &wrong) {
                    Err(DiskTierError::Cas(CasError::HashMismatch { .. })) => {}
                    Ok(()) => sw.v("disk_put_verified_mismatch_not_refused", format!("put_verified(hash of #{vi}, bytes of another blob) returned Ok")),
                    Err(e) => sw.drift.push(format!("mismatching put_verified answered {}", disk_err(&e))),
                }
                sw.check_all(vi, "delete + temp + refused mismatching put", "none");
            }
            match sw.tier.put_verified(h, &orig) {
                Ok(()) => {}
                Err(e) => sw.drift.push(format!("re-put after delete failed: {}", disk_err(&e))),
            }
            sw.check_all(vi, "re-put after delete (stray temp still present)", "ok");
            let _ = std::fs::remove_file(&tmp);
            // garbage written over a stored blob is repaired by an idempotent put
            let _ = std::fs::write(&path, b"garbage");
            sw.check_all(vi, "overwrite with garbage", "err");
            let _ = sw.tier.put(&orig);
            sw.check_all(vi, "put over garbage", "ok");
            // mismatching verified put on an intact, present blob
            if n > 1 {
                match sw.tier.put_verified(h, &wrong) {
                    Err(DiskTierError::Cas(CasError::HashMismatch { .. })) => {}
                    Ok(()) => sw.v("disk_put_verified_mismatch_not_refused", format!("put_verified(hash of present #{vi}, bytes of another blob) returned Ok")),
                    Err(e) => sw.drift.push(format!("mismatching put_verified answered {}", disk_err(&e))),
                }
                sw.check_all(vi, "refused mismatching put on present blob", "ok");
            }
            restore(&path);
        }
        // reopen: files persist, pins do not
        let pinned_before = sw.tier.pinned_count();
        match DiskTier::open(&sw.root) {
            Ok(t) => sw.tier = t,
            Err(e) => sw.drift.push(format!("reopen failed: {}", disk_err(&e))),
        }
        if sw.tier.pinned_count() != 0 || pinned_before == 0 {
            sw.drift.push(format!("pins before reopen {pinned_before}, after {}", sw.tier.pinned_count()));
        }
        sw.check_all(0, "reopen", "ok");
    });
    let _ = std::fs::remove_dir_all(&root);
    stats.sweep_faults += sw.faults;
    stats.sweep_same_len_faults += sw.same_len_faults;
    stats.sweep_len_changing_faults += sw.len_changing_faults;
    stats.sweep_queries += sw.queries;
    if let Err(p) = r {
        return json!({"i": i, "v": "violation", "kind": "disk_panic", "detail": format!("panic in code under test: {p}")});
    }
    if let Some((k, d)) = sw.viol.first() {
        return json!({"i": i, "v": "violation", "kind": k, "detail": d, "all": sw.viol.iter().map(|x| x.0.clone()).collect::<Vec<_>>(), "drift": sw.drift});
    }
    if !sw.drift.is_empty() {
        return json!({"i": i, "v": "drift", "detail": sw.drift, "faults": sw.faults});
    }
    json!({"i": i, "v": "ok", "faults": sw.faults, "queries": sw.queries})
}

// ---------------------------------------------------------------------------- driver

pub fn run(args: &[String]) -> i32 {
    if args.len() < 2 {
        eprintln!("usage: echo-verif c20 <cases.ndjson> <results.ndjson>");
        return 2;
    }
    let seed: u64 = std::env::var("VERIF_SEED").ok().and_then(|s| s.parse().ok()).unwrap_or(1);
    let threads: usize = std::env::var("VERIF_THREADS").ok().and_then(|s| s.parse().ok()).unwrap_or(6).max(1);
    let _ = std::fs::create_dir_all(scratch_base());
    let mut out = util::Out::create(&args[1]);
    let mut total = Stats::default();
    let mut n_cases = 0usize;
    let mut chunk: Vec<(usize, Value)> = Vec::new();
    let flush = |chunk: &mut Vec<(usize, Value)>, out: &mut util::Out, total: &mut Stats| {
        if chunk.is_empty() {
            return;
        }
        let per = chunk.len().div_ceil(threads);
        let results: Vec<(Vec<Value>, Stats)> = std::thread::scope(|sc| {
            let handles: Vec<_> = chunk
                .chunks(per)
                .map(|part| {
                    sc.spawn(move || {
                        let mut st = Stats::default();
                        let mut res = Vec::with_capacity(part.len());
                        for (i, v) in part {
                            let r = if v.get("kind").and_then(Value::as_str) == Some("sweep") {
                                run_sweep(*i, v, &mut st)
                            } else {
                                run_seq(*i, v, seed, &mut st)
                            };
                            res.push(r);
                        }
                        (res, st)
                    })
                })
                .collect();
            handles.into_iter().map(|h| h.join().unwrap_or_else(|_| (vec![json!({"v": "harness-panic"})], Stats::default()))).collect()
        });
        for (res, st) in results {
            for r in res {
                match r.get("v").and_then(Value::as_str) {
                    Some("ok") => total.ok += 1,
                    Some("violation") => {
                        total.violation += 1;
                        out.line(&r);
                    }
                    Some("drift") => {
                        total.drift += 1;
                        out.line(&r);
                    }
                    _ => out.line(&r),
                }
            }
            total.seq += st.seq;
            total.eq_len_conflicts += st.eq_len_conflicts;
            total.eq_len_pv += st.eq_len_pv;
            total.sweep_same_len_faults += st.sweep_same_len_faults;
            total.sweep_len_changing_faults += st.sweep_len_changing_faults;
            total.sweep += st.sweep;
            total.nontrivial += st.nontrivial;
            total.replays += st.replays;
            total.calls += st.calls;
            total.gets += st.gets;
            total.sweep_faults += st.sweep_faults;
            total.sweep_queries += st.sweep_queries;
        }
        chunk.clear();
    };
    let mut sources = crate::c20x::Sources::new();
    let mut export_errors: BTreeMap<String, u64> = BTreeMap::new();
    for (_, v) in util::read_lines(&args[0]) {
        if v.get("kind").and_then(Value::as_str) == Some("export") {
            // export-profile cases share WAL fixtures: sequential, on this thread
            let mut xs = crate::c20x::XStats { attempts: 0, envelope_evals: 0 };
            let r = crate::c20x::run_case(n_cases, &v, seed, &mut sources, &mut xs);
            n_cases += 1;
            total.export += 1;
            total.export_attempts += xs.attempts;
            total.envelope_evals += xs.envelope_evals;
            for e in r.get("errors").and_then(Value::as_array).into_iter().flatten() {
                // "<profile>/<port>@<pos>:<stage>:<variant>" -> "<profile>:<stage>:<variant>"
                if let Some(e) = e.as_str() {
                    let mut parts = e.split(':');
                    let head = parts.next().unwrap_or("");
                    let profile = head.split(|c| c == '/' || c == '@').next().unwrap_or("");
                    let rest: Vec<&str> = parts.collect();
                    *export_errors.entry(format!("{profile}:{}", rest.join(":"))).or_insert(0) += 1;
                }
            }
            match r.get("v").and_then(Value::as_str) {
                Some("ok") => total.ok += 1,
                Some("violation") => {
                    total.violation += 1;
                    out.line(&r);
                }
                _ => {
                    total.drift += 1;
                    out.line(&r);
                }
            }
            continue;
        }
        chunk.push((n_cases, v));
        n_cases += 1;
        if chunk.len() >= 12_000 {
            flush(&mut chunk, &mut out, &mut total);
        }
    }
    flush(&mut chunk, &mut out, &mut total);
    out.line(&json!({"summary": true, "cases": n_cases, "seq": total.seq, "sweep": total.sweep, "export": total.export,
        "export_attempts": total.export_attempts, "envelope_evals": total.envelope_evals, "export_errors": export_errors, "ok": total.ok,
        "violation": total.violation, "drift": total.drift, "nontrivial": total.nontrivial,
        "eq_len_retain_conflicts": total.eq_len_conflicts, "eq_len_pv_mismatches": total.eq_len_pv,
        "sweep_same_len_faults": total.sweep_same_len_faults, "sweep_len_changing_faults": total.sweep_len_changing_faults,
        "replays": total.replays, "calls": total.calls,
        "ok_reads_hash_checked": total.gets, "sweep_faults": total.sweep_faults, "sweep_queries": total.sweep_queries}));
    out.finish();
    0
}
