------------------------------ MODULE MC_C20 ------------------------------
(***************************************************************************)
(* C20 model-checking / behaviour-export wrapper around Cas.tla.           *)
(*                                                                         *)
(* Export = FALSE: plain exhaustive exploration of the store state space   *)
(*   (hist stays empty), all invariants and action properties of Cas.tla.  *)
(* Export = TRUE : hist records every call with the model's predicted      *)
(*   result and the predicted observable state after it; exploration is    *)
(*   cut at MaxLen calls and every behaviour of exactly MaxLen calls is    *)
(*   printed as one CASE line for the harness (all shorter behaviours are  *)
(*   prefixes of these).  With -simulate the same config exports random    *)
(*   behaviours of length MaxLen.                                          *)
(***************************************************************************)
EXTENDS Cas, Json

CONSTANTS Export, MaxLen

VARIABLES hist
vars == <<tier, blobs, pins, bytes, tmp, junk, index, nf, last, hist>>

MC_Size == [b \in Blobs |-> CASE b = "a" -> 1 [] b = "b" -> 2 [] b = "c" -> 3 [] OTHER -> 1]

\* the observable state: what the public API answers for every hash / coordinate
Obs ==
  [g  |-> [h \in Hashes |-> GetRes(h)],
   s  |-> {h \in Hashes : HasRes(h)},
   p  |-> pins,
   l  |-> IF tier = "mem" THEN "-" ELSE IF ListOk THEN "ok" ELSE "err:invalid_path",
   n  |-> IF tier = "mem" THEN Cardinality(Present(blobs)) ELSE Cardinality(ListSet),
   y  |-> bytes,
   o  |-> (tier = "mem" /\ bytes > MaxBytes),
   x  |-> [c \in Coords |-> index[c]],
   ld |-> [c \in Coords |-> IF tier = "mem" THEN LoadRes(c) ELSE "-"]]

StepRec == [op |-> last.op, h |-> last.h, b |-> last.b, c |-> last.c, res |-> last.res, obs |-> Obs]

Init == CasInit /\ hist = <<>>
Next == /\ (Export => Len(hist) < MaxLen)
        /\ CasNext
        /\ hist' = IF Export THEN Append(hist, StepRec') ELSE hist
Spec == Init /\ [][Next]_vars

DepthBound == Len(hist) <= MaxLen

Inv_Export == (Export /\ Len(hist) = MaxLen) =>
                 PrintT(<<"CASE", ToJson([tier |-> tier, budget |-> MaxBytes, steps |-> hist])>>)
=============================================================================
