//! C07 — replay is path-independent.
//!
//! Real histories are produced by running table-driven intents through the real
//! `WorldlineRuntime` + `SchedulerCoordinator::super_tick` + `ProvenanceService` + `Engine`
//! (one `cmd/` rule interpreting the intent bytes), with the live `WorldlineState` recorded
//! at every tick.  Each model behaviour (spec/MC_C07.tla) is then replayed into the real
//! `PlaybackCursor` / `ProvenanceService::replay_worldline_state_at` with real checkpoints
//! placed as the scenario says, and after every action the materialized state is compared
//! with (a) the live record at that tick, (b) a checkpoint-free replay from U0, and (c) the
//! model's prediction (tick, mode, result, slot values, history length, last materialization,
//! and the path taken, observed through a recording `ProvenanceStore` wrapper).
//!
//! Compared: graph content (full projection), root key, state root, the whole tick history
//! (snapshots incl. commit ids, receipts, replay patches), last snapshot, tx counter, last
//! materialization.  Not compared: `committed_ingress`, `last_materialization_errors`
//! (reset by replay by contract).

use std::collections::BTreeMap;
use std::sync::Mutex;

use rand::rngs::StdRng;
use rand::{Rng, SeedableRng};
use serde::Deserialize;
use serde_json::{json, Value};
use warp_core::materialization::{make_channel_id, ChannelId};
use warp_core::{
    make_head_id, make_intent_kind, AttachmentKey, AttachmentValue, CheckpointRef, ConflictPolicy, CursorId,
    CursorRole, EdgeKey, EdgeRecord, Engine, EngineBuilder, Footprint, GraphView, Hash, HistoryError, InboxAddress,
    InboxPolicy, IngressDisposition, IngressEnvelope, IngressTarget, NodeId, NodeKey, NodeRecord, PatternGraph,
    PlaybackCursor, PlaybackMode, ProvenanceEntry, ProvenanceRef, ProvenanceService, ProvenanceStore,
    ReplayCheckpoint, RewriteRule, SchedulerCoordinator, SchedulerKind, SeekThen, StepResult, TickDelta, WarpId,
    WarpOp, WarpState, WorldlineId, WorldlineRuntime, WorldlineState, WorldlineTick, WriterHead, WriterHeadKey,
};

use crate::absgraph::{self, AttJ, EdgeJ, InstJ, KeyJ, NodeJ, StateJ};
use crate::ids::{self, Inverse};
use crate::util;

// --------------------------------------------------------------------------- the rule

pub const RULE_NAME: &str = "cmd/verif-prov";
const MAGIC: &[u8] = b"VP";

/// One micro operation of an intent: kind 0 set/clear attachment of slot a to value b;
/// 1 link n0 -> n_a (edge e_{a-1}, type b); 2 unlink; 3 upsert node n_a with type b.
#[derive(Clone, Copy, Debug, PartialEq, Eq)]
pub struct MicroOp {
    pub kind: u8,
    pub a: u8,
    pub b: u8,
}

pub fn encode_intent(nonce: u32, ops: &[MicroOp]) -> Vec<u8> {
    let mut v = MAGIC.to_vec();
    v.extend_from_slice(&nonce.to_le_bytes());
    for o in ops {
        v.extend_from_slice(&[o.kind, o.a, o.b]);
    }
    v
}

fn decode_bytes(b: &[u8]) -> Option<Vec<MicroOp>> {
    if b.len() < 6 || &b[..2] != MAGIC || (b.len() - 6) % 3 != 0 {
        return None;
    }
    Some(b[6..].chunks(3).map(|c| MicroOp { kind: c[0], a: c[1], b: c[2] }).collect())
}

fn decode(view: GraphView<'_>, scope: &NodeId) -> Option<Vec<MicroOp>> {
    match view.node_attachment(scope) {
        Some(AttachmentValue::Atom(p)) => decode_bytes(p.bytes.as_ref()),
        _ => None,
    }
}

fn slot_node(a: u8) -> NodeId {
    ids::node(&format!("n{}", a.clamp(1, 3)))
}
fn slot_edge(a: u8) -> warp_core::EdgeId {
    ids::edge(&format!("e{}", a.clamp(1, 3) - 1))
}
fn val_att(b: u8) -> Option<AttachmentValue> {
    match b % 4 {
        0 => None,
        1 => Some(AttachmentValue::Atom(ids::atom("p0"))),
        2 => Some(AttachmentValue::Atom(ids::atom("p1"))),
        _ => Some(AttachmentValue::Atom(ids::atom("p2"))),
    }
}
fn val_ty(b: u8) -> warp_core::TypeId {
    ids::ty(if b % 2 == 0 { "tA" } else { "tB" })
}

fn rule_match(view: GraphView<'_>, scope: &NodeId) -> bool {
    decode(view, scope).is_some()
}

fn rule_exec(view: GraphView<'_>, scope: &NodeId, delta: &mut TickDelta) {
    let Some(ops) = decode(view, scope) else { return };
    let warp = view.warp_id();
    let n0 = ids::node("n0");
    let nk = |n: NodeId| NodeKey { warp_id: warp, local_id: n };
    for o in ops {
        let n = slot_node(o.a);
        let e = slot_edge(o.a);
        match o.kind {
            0 => {
                if view.node(&n).is_some() {
                    delta.push(WarpOp::SetAttachment { key: AttachmentKey::node_alpha(nk(n)), value: val_att(o.b) });
                }
            }
            1 => {
                if view.node(&n0).is_some() && view.node(&n).is_some() {
                    delta.push(WarpOp::UpsertEdge {
                        warp_id: warp,
                        record: EdgeRecord { id: e, from: n0, to: n, ty: val_ty(o.b) },
                    });
                }
            }
            2 => {
                if view.edges_from(&n0).any(|r| r.id == e) {
                    delta.push(WarpOp::DeleteEdge { warp_id: warp, from: n0, edge_id: e });
                }
            }
            _ => {
                delta.push(WarpOp::UpsertNode { node: nk(n), record: NodeRecord { ty: val_ty(o.b) } });
            }
        }
    }
}

fn rule_fp(view: GraphView<'_>, scope: &NodeId) -> Footprint {
    let warp = view.warp_id();
    let nk = |n: NodeId| NodeKey { warp_id: warp, local_id: n };
    let mut fp = Footprint { factor_mask: 1, ..Footprint::default() };
    fp.n_read.insert(nk(*scope));
    fp.a_read.insert(AttachmentKey::node_alpha(nk(*scope)));
    let n0 = ids::node("n0");
    if let Some(ops) = decode(view, scope) {
        for o in ops {
            let n = slot_node(o.a);
            let e = EdgeKey { warp_id: warp, local_id: slot_edge(o.a) };
            match o.kind {
                0 => {
                    fp.n_read.insert(nk(n));
                    fp.a_read.insert(AttachmentKey::node_alpha(nk(n)));
                    fp.a_write.insert(AttachmentKey::node_alpha(nk(n)));
                }
                1 => {
                    fp.n_read.insert(nk(n0));
                    fp.n_read.insert(nk(n));
                    fp.n_write.insert(nk(n0));
                    fp.e_write.insert(e);
                }
                2 => {
                    fp.n_read.insert(nk(n0));
                    fp.n_write.insert(nk(n0));
                    fp.e_write.insert(e);
                    fp.a_read.insert(AttachmentKey::edge_beta(e));
                    fp.a_write.insert(AttachmentKey::edge_beta(e));
                }
                _ => {
                    fp.n_write.insert(nk(n));
                }
            }
        }
    }
    fp
}

pub fn rule() -> RewriteRule {
    RewriteRule {
        id: *blake3::hash(format!("rule:{RULE_NAME}").as_bytes()).as_bytes(),
        name: RULE_NAME,
        left: PatternGraph { nodes: vec![] },
        matcher: rule_match,
        executor: rule_exec,
        compute_footprint: rule_fp,
        factor_mask: 1,
        conflict_policy: ConflictPolicy::Abort,
        join_fn: None,
    }
}

// --------------------------------------------------------------------------- world

pub fn wl_id(k: u8) -> WorldlineId {
    WorldlineId::from_bytes([k; 32])
}
pub const MAIN: u8 = 1;
pub const FORK: u8 = 2;

pub fn wt(t: u64) -> WorldlineTick {
    WorldlineTick::from_raw(t)
}

pub fn root_key() -> NodeKey {
    absgraph::nkey("w0", "n0")
}

/// U0: root n0 with n1..n3 linked (e0..e2), slot values as given ("none" / "p0".."p2").
pub fn u0_state(slots: &BTreeMap<String, String>) -> WorldlineState {
    let att = |n: &str| match slots.get(n).map(String::as_str) {
        Some(p) if p != "none" => AttJ { k: "atom".into(), p: p.into(), ..Default::default() },
        _ => AttJ { k: "none".into(), ..Default::default() },
    };
    let none = AttJ { k: "none".into(), ..Default::default() };
    let s = StateJ {
        inst: vec![InstJ { w: "w0".into(), root: "n0".into(), parent: KeyJ { o: "none".into(), ..Default::default() } }],
        node: ["n0", "n1", "n2", "n3"]
            .iter()
            .map(|n| NodeJ { w: "w0".into(), n: (*n).into(), ty: "tA".into(), att: att(n) })
            .collect(),
        edge: (1..=3)
            .map(|k| EdgeJ {
                w: "w0".into(),
                e: format!("e{}", k - 1),
                from: "n0".into(),
                to: format!("n{k}"),
                ty: "tA".into(),
                att: none.clone(),
            })
            .collect(),
    };
    WorldlineState::new(absgraph::build_state(&s), root_key()).expect("U0 must be a valid worldline state")
}

pub fn new_engine(u0: &WorldlineState) -> Engine {
    let mut engine = EngineBuilder::from_state(u0.warp_state().clone(), *u0.root())
        .scheduler(SchedulerKind::Radix)
        .workers(1)
        .build()
        .expect("engine build");
    engine.register_rule(rule()).expect("register cmd rule");
    engine
}

pub fn head_key(w: WorldlineId, h: usize) -> WriterHeadKey {
    WriterHeadKey { worldline_id: w, head_id: make_head_id(&format!("verif-h{h}")) }
}

pub fn register_heads(runtime: &mut WorldlineRuntime, w: WorldlineId) -> Result<(), String> {
    for h in 0..2usize {
        runtime
            .register_writer_head(WriterHead::with_routing(
                head_key(w, h),
                PlaybackMode::Play,
                InboxPolicy::AcceptAll,
                Some(InboxAddress(format!("inbox-h{h}"))),
                h == 0,
            ))
            .map_err(|e| format!("register head: {e:?}"))?;
    }
    Ok(())
}

pub struct World {
    pub runtime: WorldlineRuntime,
    pub engine: Engine,
    pub prov: ProvenanceService,
    pub u0: WorldlineState,
    pub nonce: u32,
}

impl World {
    pub fn new(u0: &WorldlineState, nonce_base: u32) -> Result<Self, String> {
        let mut runtime = WorldlineRuntime::new();
        runtime.register_worldline(wl_id(MAIN), u0.clone()).map_err(|e| format!("register worldline: {e:?}"))?;
        register_heads(&mut runtime, wl_id(MAIN))?;
        let mut prov = ProvenanceService::new();
        prov.register_worldline(wl_id(MAIN), u0).map_err(|e| format!("prov register: {e:?}"))?;
        Ok(Self { runtime, engine: new_engine(u0), prov, u0: u0.clone(), nonce: nonce_base })
    }

    pub fn ingest(&mut self, w: WorldlineId, head: usize, ops: &[MicroOp]) -> Result<(), String> {
        self.nonce += 1;
        let env = IngressEnvelope::local_intent(
            IngressTarget::InboxAddress { worldline_id: w, inbox: InboxAddress(format!("inbox-h{head}")) },
            make_intent_kind("verif/prov"),
            encode_intent(self.nonce, ops),
        );
        match self.runtime.ingest(env).map_err(|e| format!("ingest: {e:?}"))? {
            IngressDisposition::Accepted { head_key: hk, .. } if hk == head_key(w, head) => Ok(()),
            other => Err(format!("ingest not accepted by the intended head: {other:?}")),
        }
    }

    /// One SuperTick; returns (worldline, tick after) per committed head.
    pub fn super_tick(&mut self) -> Result<Vec<(WorldlineId, u64)>, String> {
        let recs = util::catch(|| SchedulerCoordinator::super_tick(&mut self.runtime, &mut self.prov, &mut self.engine))
            .map_err(|p| format!("super_tick panicked: {p}"))?
            .map_err(|e| format!("super_tick: {e:?}"))?;
        Ok(recs.iter().map(|r| (r.head_key.worldline_id, r.worldline_tick_after.as_u64())).collect())
    }

    pub fn live(&self, w: WorldlineId) -> WorldlineState {
        self.runtime.worldlines().get(&w).expect("worldline registered").state().clone()
    }

    /// The real fork path of `fork_strand` without the strand bookkeeping: provenance fork,
    /// child frontier replayed at fork tick + 1, child worldline + heads registered.
    pub fn fork(&mut self, src: WorldlineId, fork_tick: u64, child: WorldlineId) -> Result<(), String> {
        self.prov.fork(src, wt(fork_tick), child).map_err(|e| format!("fork: {e:?}"))?;
        let child_state = self
            .prov
            .replay_worldline_state_at(child, &self.u0, wt(fork_tick + 1))
            .map_err(|e| format!("fork child replay: {e:?}"))?;
        self.runtime.register_worldline(child, child_state).map_err(|e| format!("register child: {e:?}"))?;
        register_heads(&mut self.runtime, child)
    }
}

// --------------------------------------------------------------------------- projection / comparison

fn hx(h: &[u8; 32]) -> String {
    hex::encode(&h[..8])
}

/// Canonical rendering of the whole `WarpState` (every instance, node, edge, attachment;
/// reachable or not; ids the model does not know are rendered as hex).
pub fn project_full(state: &WarpState) -> String {
    let mut out = String::new();
    for wid in warp_core::verif::warp_ids(state) {
        let inst = state.instance(&wid);
        out.push_str(&format!("W {} inst={:?}\n", hx(&wid.0), inst.map(|i| (hx(&i.root_node.0), i.parent))));
        let Some(store) = state.store(&wid) else {
            out.push_str(" <no store>\n");
            continue;
        };
        let mut nodes: Vec<String> = store
            .iter_nodes()
            .map(|(id, rec)| format!(" N {} ty={} att={:?}\n", hx(&id.0), hx(&rec.ty.0), store.node_attachment(id)))
            .collect();
        nodes.sort();
        let mut edges: Vec<String> = Vec::new();
        for (from, es) in store.iter_edges() {
            for e in es {
                edges.push(format!(
                    " E {} {}->{} (bucket {}) ty={} att={:?}\n",
                    hx(&e.id.0),
                    hx(&e.from.0),
                    hx(&e.to.0),
                    hx(&from.0),
                    hx(&e.ty.0),
                    store.edge_attachment(&e.id)
                ));
            }
        }
        edges.sort();
        out.push_str(&format!(
            " counts n={} e={} na={} ea={}\n",
            nodes.len(),
            edges.len(),
            store.iter_node_attachments().count(),
            store.iter_edge_attachments().count()
        ));
        for s in nodes.into_iter().chain(edges) {
            out.push_str(&s);
        }
    }
    out
}

/// Slot values n1..n3 in the model's vocabulary.
pub fn project_slots(inv: &Inverse, state: &WarpState) -> BTreeMap<String, String> {
    let mut m = BTreeMap::new();
    let store = state.store(&ids::warp("w0"));
    for n in ["n1", "n2", "n3"] {
        let v = match store.and_then(|s| s.node_attachment(&ids::node(n))) {
            None => "none".to_string(),
            Some(AttachmentValue::Atom(p)) => inv.atom(p).map(str::to_string).unwrap_or_else(|e| e),
            Some(other) => format!("{other:?}"),
        };
        m.insert(n.to_string(), v);
    }
    m
}

pub fn lm_of(state: &WorldlineState) -> Vec<(ChannelId, Vec<u8>)> {
    state.last_materialization().iter().map(|c| (c.channel, c.data.clone())).collect()
}

/// Everything C07 compares between two materializations of the same tick.
pub struct Expect {
    pub state: WorldlineState,
    pub proj: String,
    pub init_proj: String,
    pub root: Hash,
}

impl Expect {
    pub fn of(state: WorldlineState) -> Self {
        let proj = project_full(state.warp_state());
        let init_proj = project_full(state.initial_state());
        let root = state.state_root();
        Self { state, proj, init_proj, root }
    }
}

/// Returns the list of aspects in which `got` differs from `want`.
pub fn diff_states(got: &WorldlineState, got_proj: &str, want: &Expect, compare_lm: bool) -> Vec<&'static str> {
    let mut d = Vec::new();
    if got_proj != want.proj {
        d.push("graph_content");
    }
    if got.root() != want.state.root() {
        d.push("root_key");
    }
    if got.state_root() != want.root {
        d.push("state_root");
    }
    if got.tick_history().len() != want.state.tick_history().len() {
        d.push("tick_history_len");
    } else {
        for ((gs, gr, gp), (ws, wr, wp)) in got.tick_history().iter().zip(want.state.tick_history()) {
            if gs.hash != ws.hash || gs.state_root != ws.state_root || gs.patch_digest != ws.patch_digest {
                d.push("tick_history.hashes");
                break;
            }
            if gs != ws {
                d.push("tick_history.snapshot");
                break;
            }
            if gr != wr {
                d.push("tick_history.receipt");
                break;
            }
            if gp != wp {
                d.push("tick_history.patch");
                break;
            }
        }
    }
    if got.last_snapshot() != want.state.last_snapshot() {
        d.push("last_snapshot");
    }
    if got.current_tick() != want.state.current_tick() {
        d.push("current_tick");
    }
    if project_full(got.initial_state()) != want.init_proj {
        d.push("initial_state");
    }
    if compare_lm && lm_of(got) != lm_of(&want.state) {
        d.push("last_materialization");
    }
    d
}

// --------------------------------------------------------------------------- recording store (path observation)

#[derive(Default, Debug, Clone)]
pub struct SpyLog {
    /// result of `checkpoint_state_before` calls: Some(tick) / None
    pub restore: Vec<Option<u64>>,
    pub entries: Vec<u64>,
}

pub struct Spy<'a> {
    pub inner: &'a ProvenanceService,
    pub log: Mutex<SpyLog>,
}

impl<'a> Spy<'a> {
    pub fn new(inner: &'a ProvenanceService) -> Self {
        Self { inner, log: Mutex::new(SpyLog::default()) }
    }
    pub fn take(&self) -> SpyLog {
        std::mem::take(&mut *self.log.lock().unwrap_or_else(|p| p.into_inner()))
    }
}

impl ProvenanceStore for Spy<'_> {
    fn u0(&self, w: WorldlineId) -> Result<WarpId, HistoryError> {
        self.inner.u0(w)
    }
    fn initial_boundary_hash(&self, w: WorldlineId) -> Result<Hash, HistoryError> {
        ProvenanceStore::initial_boundary_hash(self.inner, w)
    }
    fn len(&self, w: WorldlineId) -> Result<u64, HistoryError> {
        self.inner.len(w)
    }
    fn entry(&self, w: WorldlineId, tick: WorldlineTick) -> Result<ProvenanceEntry, HistoryError> {
        self.log.lock().unwrap_or_else(|p| p.into_inner()).entries.push(tick.as_u64());
        self.inner.entry(w, tick)
    }
    fn parents(&self, w: WorldlineId, tick: WorldlineTick) -> Result<Vec<ProvenanceRef>, HistoryError> {
        self.inner.parents(w, tick)
    }
    fn append_local_commit(&mut self, _entry: ProvenanceEntry) -> Result<(), HistoryError> {
        unreachable!("the recording store is read-only")
    }
    fn append_recorded_event(&mut self, _entry: ProvenanceEntry) -> Result<(), HistoryError> {
        unreachable!("the recording store is read-only")
    }
    fn checkpoint_before(&self, w: WorldlineId, tick: WorldlineTick) -> Option<CheckpointRef> {
        ProvenanceStore::checkpoint_before(self.inner, w, tick)
    }
    fn checkpoint_state_before(&self, w: WorldlineId, tick: WorldlineTick) -> Option<ReplayCheckpoint> {
        let r = ProvenanceStore::checkpoint_state_before(self.inner, w, tick);
        self.log
            .lock()
            .unwrap_or_else(|p| p.into_inner())
            .restore
            .push(r.as_ref().map(|c| c.checkpoint.worldline_tick.as_u64()));
        r
    }
}

/// (path, from) as observed: "ckpt"/"u0" when the replay entry point restored a base,
/// "advance" when the cursor moved without restoring, "noop" otherwise.
pub fn observed_path(log: &SpyLog, tick_before: u64, tick_after: u64) -> (String, u64) {
    match log.restore.first() {
        Some(Some(c)) => ("ckpt".into(), *c),
        Some(None) => ("u0".into(), 0),
        None if tick_after != tick_before => ("advance".into(), tick_before),
        None => ("noop".into(), tick_before),
    }
}

// --------------------------------------------------------------------------- modes

pub fn parse_mode(s: &str) -> Result<PlaybackMode, String> {
    let parts: Vec<&str> = s.split(':').collect();
    Ok(match parts[0] {
        "Paused" => PlaybackMode::Paused,
        "Play" => PlaybackMode::Play,
        "StepForward" => PlaybackMode::StepForward,
        "StepBack" => PlaybackMode::StepBack,
        "Seek" if parts.len() == 3 => PlaybackMode::Seek {
            target: wt(parts[1].parse::<u64>().map_err(|e| format!("mode {s}: {e}"))?),
            then: if parts[2] == "Play" { SeekThen::Play } else { SeekThen::Pause },
        },
        _ => return Err(format!("unknown mode {s}")),
    })
}

pub fn mode_str(m: &PlaybackMode) -> String {
    match m {
        PlaybackMode::Paused => "Paused".into(),
        PlaybackMode::Play => "Play".into(),
        PlaybackMode::StepForward => "StepForward".into(),
        PlaybackMode::StepBack => "StepBack".into(),
        PlaybackMode::Seek { target, then } => {
            format!("Seek:{}:{}", target.as_u64(), if *then == SeekThen::Play { "Play" } else { "Pause" })
        }
    }
}

/// Mode as the trace specification reads it: ["Paused"] / ["Seek", t, "Play"].
pub fn mode_arr(m: &PlaybackMode) -> Value {
    match m {
        PlaybackMode::Seek { target, then } => json!(["Seek", target.as_u64(), if *then == SeekThen::Play { "Play" } else { "Pause" }]),
        other => json!([mode_str(other)]),
    }
}

pub fn step_str(r: StepResult) -> &'static str {
    match r {
        StepResult::NoOp => "NoOp",
        StepResult::Advanced => "Advanced",
        StepResult::Seeked => "Seeked",
        StepResult::ReachedFrontier => "ReachedFrontier",
    }
}

pub fn seek_err_class(e: &warp_core::SeekError) -> String {
    let s = format!("{e:?}");
    s.split(|c: char| !c.is_alphanumeric()).next().unwrap_or("").to_string()
}

// --------------------------------------------------------------------------- model histories

#[derive(Deserialize, Clone, Debug)]
pub struct TickJ {
    pub ops: BTreeMap<String, String>,
    pub head: String,
    pub outs: Vec<Value>,
}

#[derive(Deserialize, Clone, Debug)]
struct HistJ {
    h: u64,
    n: usize,
    u0: BTreeMap<String, String>,
    main: Vec<TickJ>,
    fork: Vec<TickJ>,
}

pub fn micro_ops(ops: &BTreeMap<String, String>) -> Vec<MicroOp> {
    let mut v = Vec::new();
    for (slot, val) in ops {
        let a = slot.trim_start_matches('n').parse::<u8>().unwrap_or(1);
        let b = match val.as_str() {
            "keep" => continue,
            "none" => 0,
            "p0" => 1,
            "p1" => 2,
            _ => 3,
        };
        v.push(MicroOp { kind: 0, a, b });
    }
    v
}

pub fn head_ix(h: &str) -> usize {
    if h == "h1" { 1 } else { 0 }
}

/// Synthesized recorded outputs for the model's `Outs(w, i)`: `[]` or `[w, i]`.
pub fn synth_outs(o: &[Value]) -> Vec<(ChannelId, Vec<u8>)> {
    if o.is_empty() {
        return Vec::new();
    }
    let tag = o.iter().map(|v| v.to_string()).collect::<Vec<_>>().join("|");
    vec![
        (make_channel_id("verif:c07:a"), tag.clone().into_bytes()),
        (make_channel_id("verif:c07:b"), format!("second frame {tag}").into_bytes()),
    ]
}

struct ForkData {
    /// real entries of the fork's divergent suffix: ticks fork+1 .. n-1
    suffix: Vec<ProvenanceEntry>,
    /// live child frontier per tick, for ticks fork+1 ..= n (index tick - (fork+1))
    live: Vec<WorldlineState>,
}

struct HistData {
    spec: HistJ,
    u0: WorldlineState,
    main_entries: Vec<ProvenanceEntry>,
    main_live: Vec<WorldlineState>,
    forks: BTreeMap<u64, ForkData>,
}

fn build_history(spec: &HistJ) -> Result<HistData, String> {
    let u0 = u0_state(&spec.u0);
    let mut world = World::new(&u0, (spec.h as u32) << 20)?;
    let main = wl_id(MAIN);
    let mut main_live = vec![world.live(main)];
    for (i, t) in spec.main.iter().enumerate() {
        world.ingest(main, head_ix(&t.head), &micro_ops(&t.ops))?;
        let recs = world.super_tick()?;
        if recs != vec![(main, i as u64 + 1)] {
            return Err(format!("main tick {i}: unexpected step records {recs:?}"));
        }
        main_live.push(world.live(main));
    }
    let main_entries: Vec<ProvenanceEntry> = (0..spec.n as u64)
        .map(|t| world.prov.entry(main, wt(t)).map_err(|e| format!("entry {t}: {e:?}")))
        .collect::<Result<_, _>>()?;
    let mut forks = BTreeMap::new();
    for ft in 0..spec.n as u64 {
        // continue a copy of the real runtime on a forked child worldline
        let mut w2 = World {
            runtime: world.runtime.clone(),
            engine: new_engine(&u0),
            prov: world.prov.clone(),
            u0: u0.clone(),
            nonce: ((spec.h as u32) << 20) + ((ft as u32 + 1) << 12),
        };
        let child = wl_id(FORK);
        w2.fork(main, ft, child)?;
        let mut live = vec![w2.live(child)];
        for i in (ft + 1)..spec.n as u64 {
            let t = &spec.fork[i as usize];
            w2.ingest(child, head_ix(&t.head), &micro_ops(&t.ops))?;
            let recs = w2.super_tick()?;
            if recs != vec![(child, i + 1)] {
                return Err(format!("fork {ft} tick {i}: unexpected step records {recs:?}"));
            }
            live.push(w2.live(child));
        }
        let suffix = ((ft + 1)..spec.n as u64)
            .map(|t| w2.prov.entry(child, wt(t)).map_err(|e| format!("fork entry {t}: {e:?}")))
            .collect::<Result<_, _>>()?;
        forks.insert(ft, ForkData { suffix, live });
    }
    Ok(HistData { spec: spec.clone(), u0, main_entries, main_live, forks })
}

// --------------------------------------------------------------------------- scenarios

#[derive(Deserialize, Clone, Debug, PartialEq, Eq)]
struct ScnJ {
    h: u64,
    n: usize,
    #[serde(rename = "C")]
    c: Vec<u64>,
    fork: i64,
    #[serde(rename = "C2")]
    c2: Vec<u64>,
    pin: u64,
    role: String,
}

#[derive(Deserialize, Clone, Debug)]
struct PredJ {
    tick: u64,
    mode: String,
    res: String,
    path: String,
    from: u64,
    err: String,
    st: BTreeMap<String, String>,
    hl: usize,
    lm: Vec<Value>,
    ck: Vec<u64>,
}

#[derive(Deserialize, Clone, Debug)]
struct CaseJ {
    scn: ScnJ,
    steps: Vec<(String, u64, String)>,
    pred: Vec<PredJ>,
}

/// A provenance service prepared for one scenario and one variant, plus the oracles.
struct Prepared {
    key: (ScnJ, bool),
    prov: ProvenanceService,
    w: WorldlineId,
    /// (a) live record per tick (None where no live state exists for this worldline/tick)
    live: Vec<Option<Expect>>,
    /// (b) checkpoint-free replay from U0 per tick
    u0_replay: Vec<Expect>,
    /// expected last materialization per tick in the "outs" variant
    outs: Vec<Vec<(ChannelId, Vec<u8>)>>,
}

fn with_outs(mut e: ProvenanceEntry, outs: &[Value], enabled: bool) -> ProvenanceEntry {
    if enabled {
        e.outputs = synth_outs(outs);
    }
    e
}

fn shuffled(v: &[u64], rng: &mut StdRng) -> Vec<u64> {
    let mut v = v.to_vec();
    for i in (1..v.len()).rev() {
        let j = rng.gen_range(0..=i);
        v.swap(i, j);
    }
    v
}

/// Builds the scenario's store: main entries, checkpoints C, optional fork + divergent suffix +
/// checkpoints C2.  `outs_variant`: entries carry synthesized recorded outputs and checkpoints are
/// taken from replayed states; otherwise the entries are exactly what the runtime appended and
/// checkpoints are taken from the live frontier states.
fn prepare(hd: &HistData, scn: &ScnJ, outs_variant: bool, rng: &mut StdRng) -> Result<Prepared, String> {
    let main = wl_id(MAIN);
    let n = hd.spec.n as u64;
    let mut base = ProvenanceService::new();
    base.register_worldline(main, &hd.u0).map_err(|e| format!("register: {e:?}"))?;
    for (i, e) in hd.main_entries.iter().enumerate() {
        base.append_local_commit(with_outs(e.clone(), &hd.spec.main[i].outs, outs_variant))
            .map_err(|e| format!("append main {i}: {e:?}"))?;
    }
    // (b) on main, checkpoint-free
    let replay_all = |svc: &ProvenanceService, w: WorldlineId| -> Result<Vec<Expect>, String> {
        (0..=n)
            .map(|t| {
                svc.replay_worldline_state_at(w, &hd.u0, wt(t))
                    .map(Expect::of)
                    .map_err(|e| format!("U0 replay at {t}: {e:?}"))
            })
            .collect()
    };
    let main_u0 = replay_all(&base, main)?;
    let mut prov = base.clone();
    for c in shuffled(&scn.c, rng) {
        let r = if outs_variant {
            prov.add_checkpoint(main, ReplayCheckpoint::from_state(&main_u0[c as usize].state))
        } else {
            prov.checkpoint(main, &hd.main_live[c as usize]).map(|_| ())
        };
        r.map_err(|e| format!("checkpoint main {c}: {e:?}"))?;
    }
    let main_outs: Vec<Vec<(ChannelId, Vec<u8>)>> = std::iter::once(Vec::new())
        .chain(hd.spec.main.iter().map(|t| synth_outs(&t.outs)))
        .collect();
    if scn.fork < 0 {
        let live = hd.main_live.iter().map(|s| Some(Expect::of(s.clone()))).collect();
        return Ok(Prepared { key: (scn.clone(), outs_variant), prov, w: main, live, u0_replay: main_u0, outs: main_outs });
    }
    let ft = scn.fork as u64;
    let child = wl_id(FORK);
    let fd = hd.forks.get(&ft).ok_or("no fork data")?;
    // checkpoint-free twin of the fork for oracle (b)
    let mut base_fork = base.clone();
    base_fork.fork(main, wt(ft), child).map_err(|e| format!("fork(base): {e:?}"))?;
    prov.fork(main, wt(ft), child).map_err(|e| format!("fork: {e:?}"))?;
    for (k, e) in fd.suffix.iter().enumerate() {
        let i = ft as usize + 1 + k;
        let e2 = with_outs(e.clone(), &hd.spec.fork[i].outs, outs_variant);
        base_fork.append_local_commit(e2.clone()).map_err(|e| format!("append fork(base) {i}: {e:?}"))?;
        prov.append_local_commit(e2).map_err(|e| format!("append fork {i}: {e:?}"))?;
    }
    let fork_u0 = replay_all(&base_fork, child)?;
    for c in shuffled(&scn.c2, rng) {
        let r = if outs_variant {
            prov.add_checkpoint(child, ReplayCheckpoint::from_state(&fork_u0[c as usize].state))
        } else {
            prov.checkpoint(child, &fd.live[(c - ft - 1) as usize]).map(|_| ())
        };
        r.map_err(|e| format!("checkpoint fork {c}: {e:?}"))?;
    }
    // (a): ticks <= fork+1 are the main worldline's live states (the copied prefix), later ticks the child's
    let live = (0..=n)
        .map(|t| {
            if t <= ft + 1 {
                Some(Expect::of(hd.main_live[t as usize].clone()))
            } else {
                Some(Expect::of(fd.live[(t - ft - 1) as usize].clone()))
            }
        })
        .collect();
    let outs = (0..=n)
        .map(|t| {
            if t == 0 {
                Vec::new()
            } else if t <= ft + 1 {
                synth_outs(&hd.spec.main[t as usize - 1].outs)
            } else {
                synth_outs(&hd.spec.fork[t as usize - 1].outs)
            }
        })
        .collect();
    Ok(Prepared { key: (scn.clone(), outs_variant), prov, w: child, live, u0_replay: fork_u0, outs })
}

/// Scenario-level checks, once per prepared store: the replay entry point at every tick (uses the
/// nearest checkpoint) equals the checkpoint-free replay and the live record; fork copied the right
/// checkpoints.
fn check_prepared(p: &Prepared, hd: &HistData, scn: &ScnJ) -> Result<(), (String, String)> {
    let n = hd.spec.n as u64;
    for t in 0..=n {
        let got = p
            .prov
            .replay_worldline_state_at(p.w, &hd.u0, wt(t))
            .map_err(|e| ("replay_at_error".to_string(), format!("replay_worldline_state_at({t}) with checkpoints failed: {e:?}")))?;
        let proj = project_full(got.warp_state());
        let d = diff_states(&got, &proj, &p.u0_replay[t as usize], true);
        if !d.is_empty() {
            return Err(("replay_at_differs_from_u0".into(), format!("tick {t}: {d:?}")));
        }
    }
    if scn.fork >= 0 {
        let ft = scn.fork as u64;
        // checkpoints visible on the fork right below every tick: source checkpoints <= ft+1 plus C2
        for t in 0..=n {
            let got = ProvenanceStore::checkpoint_before(&p.prov, p.w, wt(t + 1)).map(|c| c.worldline_tick.as_u64());
            let want = scn.c.iter().filter(|c| **c <= ft + 1).chain(scn.c2.iter()).filter(|c| **c <= t).max().copied();
            if got != want {
                return Err(("fork_checkpoints".into(), format!("checkpoint at or below {t} on the fork: got {got:?}, want {want:?}")));
            }
        }
    }
    Ok(())
}

struct CaseOut {
    verdict: &'static str,
    kind: String,
    detail: String,
    drift: Vec<String>,
}

fn run_case(inv: &Inverse, hd: &HistData, p: &Prepared, case: &CaseJ, outs_variant: bool) -> CaseOut {
    let mut drift = Vec::new();
    let viol = |kind: &str, detail: String, drift: Vec<String>| CaseOut { verdict: "violation", kind: kind.into(), detail, drift };
    let mut prov = p.prov.clone();
    let role = if case.scn.role == "Writer" { CursorRole::Writer } else { CursorRole::Reader };
    let mut cursor = PlaybackCursor::new(CursorId([7; 32]), p.w, ids::warp("w0"), role, &hd.u0, wt(case.scn.pin));
    let tag = if outs_variant { "outs" } else { "real" };
    for (i, ((kind, t, mode), pred)) in case.steps.iter().zip(case.pred.iter()).enumerate() {
        let before = cursor.current_tick().as_u64();
        let mut res_s = String::new();
        let mut err_s = String::new();
        let mut log = SpyLog::default();
        match kind.as_str() {
            "seek" | "step" | "modestep" => {
                if kind == "modestep" {
                    match parse_mode(mode) {
                        Ok(m) => cursor.mode = m,
                        Err(e) => return CaseOut { verdict: "tool_error", kind: "mode".into(), detail: e, drift },
                    }
                }
                let spy = Spy::new(&prov);
                let r = util::catch(|| {
                    if kind == "seek" {
                        cursor.seek_to(wt(*t), &spy, &hd.u0).map(|()| "ok")
                    } else {
                        cursor.step(&spy, &hd.u0).map(step_str)
                    }
                });
                log = spy.take();
                match r {
                    Err(panic) => return viol("cursor_panic", format!("[{tag}] step {i} {kind}: panic {panic}"), drift),
                    Ok(Ok(s)) => res_s = s.to_string(),
                    Ok(Err(e)) => {
                        res_s = "err".into();
                        err_s = seek_err_class(&e);
                    }
                }
            }
            "ckpt" => {
                let ck = ReplayCheckpoint::from_state(cursor.materialized_state());
                match prov.add_checkpoint(p.w, ck) {
                    Ok(()) => res_s = "ckpt".into(),
                    Err(e) => {
                        return viol("checkpoint_from_cursor_rejected", format!("[{tag}] step {i}: add_checkpoint of the cursor's own materialization at tick {before} rejected: {e:?}"), drift)
                    }
                }
            }
            other => return CaseOut { verdict: "tool_error", kind: "step".into(), detail: format!("unknown step {other}"), drift },
        }
        let after = cursor.current_tick().as_u64();
        // --- errors
        if res_s == "err" {
            if pred.res != "err" {
                return viol("unexpected_seek_error", format!("[{tag}] step {i} {kind} {t} {mode}: {err_s}, model predicted {} at tick {}", pred.res, pred.tick), drift);
            }
            if pred.err != err_s {
                drift.push(format!("[{tag}] step {i}: error class {err_s}, model {}", pred.err));
            }
            // an error before any mutation (pin / history bound) leaves the cursor usable
        } else if pred.res == "err" {
            drift.push(format!("[{tag}] step {i}: model predicted error {}, real {res_s}", pred.err));
        }
        // --- the property, decided on the real outcome: materialized state at `after`
        let state = cursor.materialized_state();
        let proj = project_full(state.warp_state());
        if after as usize >= p.u0_replay.len() {
            return viol("tick_out_of_history", format!("[{tag}] step {i}: cursor tick {after} beyond history"), drift);
        }
        let d = diff_states(state, &proj, &p.u0_replay[after as usize], true);
        if !d.is_empty() {
            return viol("differs_from_u0_replay", format!("[{tag}] step {i} ({kind} {t} {mode}, tick {before}->{after}, observed path {:?}): {d:?}", observed_path(&log, before, after)), drift);
        }
        if let Some(live) = &p.live[after as usize] {
            // live last_materialization is what the runtime held (empty: rules cannot emit); in the
            // outs variant the recorded outputs are synthesized, so live is not the oracle for it
            let d = diff_states(state, &proj, live, !outs_variant);
            if !d.is_empty() {
                return viol("differs_from_live_record", format!("[{tag}] step {i} ({kind} {t} {mode}, tick {before}->{after}): {d:?}"), drift);
            }
        }
        if cursor.current_state_root() != p.u0_replay[after as usize].root {
            return viol("current_state_root", format!("[{tag}] step {i}: current_state_root differs at tick {after}"), drift);
        }
        if outs_variant && lm_of(state) != p.outs[after as usize] {
            return viol("last_materialization_not_recorded_outputs", format!("[{tag}] step {i}: tick {after}"), drift);
        }
        if state.tick_history().len() as u64 != after {
            return viol("tick_history_len", format!("[{tag}] step {i}: {} snapshots at tick {after}", state.tick_history().len()), drift);
        }
        // --- model prediction (drift when the property itself holds)
        let (opath, ofrom) = observed_path(&log, before, after);
        if after != pred.tick {
            drift.push(format!("[{tag}] step {i}: tick {after}, model {}", pred.tick));
        }
        if mode_str(&cursor.mode) != pred.mode {
            drift.push(format!("[{tag}] step {i}: mode {}, model {}", mode_str(&cursor.mode), pred.mode));
        }
        if res_s != pred.res {
            drift.push(format!("[{tag}] step {i}: result {res_s}, model {}", pred.res));
        }
        if kind != "ckpt" && res_s != "err" && pred.res != "err" && (opath != pred.path && !(pred.path == "none" && opath == "noop")) {
            drift.push(format!("[{tag}] step {i}: path {opath} from {ofrom}, model {} from {}", pred.path, pred.from));
        } else if (opath == "ckpt" || opath == "advance") && pred.path == opath && ofrom != pred.from {
            drift.push(format!("[{tag}] step {i}: path {opath} from {ofrom}, model from {}", pred.from));
        }
        if after == pred.tick {
            if project_slots(inv, state.warp_state()) != pred.st {
                drift.push(format!("[{tag}] step {i}: slots {:?}, model {:?}", project_slots(inv, state.warp_state()), pred.st));
            }
            if state.tick_history().len() != pred.hl {
                drift.push(format!("[{tag}] step {i}: history length {}, model {}", state.tick_history().len(), pred.hl));
            }
            if outs_variant && lm_of(state) != synth_outs(&pred.lm) {
                drift.push(format!("[{tag}] step {i}: last materialization differs from the model's"));
            }
        }
        let mut ck: Vec<u64> = (0..=hd.spec.n as u64)
            .filter(|t| ProvenanceStore::checkpoint_before(&prov, p.w, wt(t + 1)).is_some_and(|c| c.worldline_tick.as_u64() == *t))
            .collect();
        ck.sort();
        if ck != pred.ck {
            drift.push(format!("[{tag}] step {i}: checkpoints {ck:?}, model {:?}", pred.ck));
        }
    }
    CaseOut { verdict: "ok", kind: String::new(), detail: String::new(), drift }
}

// --------------------------------------------------------------------------- long random histories

#[derive(Deserialize, Clone, Debug)]
struct LongJ {
    seed: u64,
    ticks: u64,
    actions: u64,
}

pub fn random_ops(rng: &mut StdRng) -> Vec<MicroOp> {
    // one rule invocation must not emit two different ops for the same key: at most one op per
    // (key class, slot) inside an intent (link and unlink share the edge key)
    let k = rng.gen_range(1..=3);
    let mut used: Vec<(u8, u8)> = Vec::new();
    let mut v = Vec::new();
    for _ in 0..k {
        let kind = match rng.gen_range(0..10) {
            0..=5 => 0,
            6 => 1,
            7 => 2,
            _ => 3,
        };
        let a = rng.gen_range(1..=3);
        let class = if kind == 2 { 1 } else { kind };
        if used.contains(&(class, a)) {
            continue;
        }
        used.push((class, a));
        v.push(MicroOp { kind, a, b: rng.gen_range(0..4) });
    }
    v
}

struct Lane {
    w: WorldlineId,
    len: u64,
    /// live frontier states at the ticks where one could be observed
    live: BTreeMap<u64, Expect>,
    /// state roots from the live tick history for every tick 1..=len
    live_roots: Vec<Hash>,
    u0_replay: Vec<Expect>,
}

/// Runs one long random history and a random cursor/checkpoint/fork session on it. Returns
/// (result json, trace events).
fn run_long(spec: &LongJ) -> (Value, Vec<Value>) {
    let mut rng = StdRng::seed_from_u64(spec.seed);
    let mut trace: Vec<Value> = Vec::new();
    let mut slots = BTreeMap::new();
    slots.insert("n1".to_string(), "p0".to_string());
    let u0 = u0_state(&slots);
    let fail = |kind: &str, detail: String| json!({"verdict":"violation","kind":kind,"detail":detail,"seed":spec.seed});
    let tool = |detail: String| json!({"verdict":"tool_error","detail":detail,"seed":spec.seed});
    let mut world = match World::new(&u0, 0x4000_0000) {
        Ok(w) => w,
        Err(e) => return (tool(e), trace),
    };
    let main = wl_id(MAIN);
    let mut lanes: Vec<Lane> = Vec::new();
    // ---- generate the main history (both heads, several intents per head per SuperTick)
    let mut live: BTreeMap<u64, Expect> = BTreeMap::new();
    live.insert(0, Expect::of(world.live(main)));
    let mut len = 0u64;
    while len < spec.ticks {
        let mut heads = vec![rng.gen_range(0..2usize)];
        if rng.gen_bool(0.3) {
            heads.push(1 - heads[0]);
        }
        for h in &heads {
            for _ in 0..rng.gen_range(1..=2) {
                if let Err(e) = world.ingest(main, *h, &random_ops(&mut rng)) {
                    return (tool(e), trace);
                }
            }
        }
        let recs = match world.super_tick() {
            Ok(r) => r,
            Err(e) => return (tool(e), trace),
        };
        len += recs.len() as u64;
        live.insert(len, Expect::of(world.live(main)));
    }
    let build_lane = |prov: &ProvenanceService, w: WorldlineId, len: u64, live: BTreeMap<u64, Expect>, frontier: &WorldlineState| -> Result<Lane, String> {
        // checkpoint-free replays from U0, incrementally: replay at t from a fresh store clone
        let u0_replay = (0..=len)
            .map(|t| prov.replay_worldline_state_at(w, &u0, wt(t)).map(Expect::of).map_err(|e| format!("U0 replay at {t}: {e:?}")))
            .collect::<Result<Vec<_>, _>>()?;
        let live_roots = frontier.tick_history().iter().map(|(s, _, _)| s.state_root).collect();
        Ok(Lane { w, len, live, live_roots, u0_replay })
    };
    let base_prov = world.prov.clone(); // never receives checkpoints
    match build_lane(&base_prov, main, len, live, &world.live(main)) {
        Ok(l) => lanes.push(l),
        Err(e) => return (fail("u0_replay_failed", e), trace),
    }
    // U0 replay equals live wherever live was observed, and the live per-tick roots
    {
        let l = &lanes[0];
        for (t, lv) in &l.live {
            let got = &l.u0_replay[*t as usize];
            let d = diff_states(&got.state, &got.proj, lv, true);
            if !d.is_empty() {
                return (fail("u0_replay_differs_from_live", format!("tick {t}: {d:?}")), trace);
            }
        }
        for t in 1..=l.len {
            if l.u0_replay[t as usize].root != l.live_roots[t as usize - 1] {
                return (fail("u0_replay_root_differs_from_live_history", format!("tick {t}")), trace);
            }
        }
    }
    // ---- random session
    let mut prov = world.prov.clone();
    let mut base = base_prov;
    let mut lane_ix = 0usize;
    let mut next_fork_id = 10u8;
    let mut stats = json!({"seeks":0,"steps":0,"ckpts":0,"forks":0,"restore_ckpt":0,"restore_u0":0,"advance":0,"ckpt_between":0,"errors":0});
    let bump = |stats: &mut Value, k: &str| {
        stats[k] = json!(stats[k].as_u64().unwrap_or(0) + 1);
    };
    let new_cursor = |lane: &Lane, rng: &mut StdRng| {
        let pin = if rng.gen_bool(0.8) { lane.len } else { rng.gen_range(0..=lane.len + 1) };
        let role = if rng.gen_bool(0.85) { CursorRole::Reader } else { CursorRole::Writer };
        (PlaybackCursor::new(CursorId([9; 32]), lane.w, ids::warp("w0"), role, &u0, wt(pin)), pin, role)
    };
    let ck_ticks = |prov: &ProvenanceService, w: WorldlineId, len: u64| -> Vec<u64> {
        // enumerate via checkpoint_before walking down from len+1
        let mut v = Vec::new();
        let mut x = len + 2;
        while let Some(c) = ProvenanceStore::checkpoint_before(prov, w, wt(x)) {
            v.push(c.worldline_tick.as_u64());
            x = c.worldline_tick.as_u64();
            if x == 0 {
                break;
            }
        }
        v.reverse();
        v
    };
    let (mut cursor, mut pin, mut role) = new_cursor(&lanes[lane_ix], &mut rng);
    let role_s = |r: CursorRole| if r == CursorRole::Writer { "Writer" } else { "Reader" };
    trace.push(json!({"event":"reset","new":true,"len":lanes[lane_ix].len,"pin":pin,"role":role_s(role),"ck":ck_ticks(&prov, lanes[lane_ix].w, lanes[lane_ix].len)}));
    for step in 0..spec.actions {
        let lane = &lanes[lane_ix];
        let before = cursor.current_tick().as_u64();
        let choice = rng.gen_range(0..100);
        let mut ev;
        let mut log = SpyLog::default();
        let mut res_s = String::new();
        let mut err_s = String::new();
        if choice < 45 {
            // seek, biased to near targets and occasionally beyond
            // one seek in five aims past a checkpoint lying strictly between the cursor and the target
            let cks = ck_ticks(&prov, lane.w, lane.len);
            let mid: Vec<u64> = cks.iter().copied().filter(|c| *c > before && *c < lane.len.min(pin)).collect();
            let target = if !mid.is_empty() && rng.gen_bool(0.2) {
                let c = mid[rng.gen_range(0..mid.len())];
                rng.gen_range(c + 1..=lane.len.min(pin))
            } else {
                match rng.gen_range(0..10) {
                0 => lane.len + 1,
                1..=3 => (before + rng.gen_range(0..4)).min(lane.len),
                4..=5 => before.saturating_sub(rng.gen_range(0..4)),
                _ => rng.gen_range(0..=lane.len),
                }
            };
            let spy = Spy::new(&prov);
            let r = util::catch(|| cursor.seek_to(wt(target), &spy, &u0));
            log = spy.take();
            match r {
                Err(p) => return (fail("cursor_panic", format!("action {step}: seek {target}: {p}")), trace),
                Ok(Ok(())) => res_s = "ok".into(),
                Ok(Err(e)) => {
                    res_s = "err".into();
                    err_s = seek_err_class(&e);
                }
            }
            bump(&mut stats, "seeks");
            ev = json!({"event":"seek","target":target});
        } else if choice < 85 {
            let set_mode = rng.gen_bool(0.7);
            if set_mode {
                cursor.mode = match rng.gen_range(0..6) {
                    0 => PlaybackMode::Paused,
                    1 => PlaybackMode::Play,
                    2 => PlaybackMode::StepForward,
                    3 => PlaybackMode::StepBack,
                    _ => PlaybackMode::Seek {
                        target: wt(rng.gen_range(0..=lane.len + 1)),
                        then: if rng.gen_bool(0.5) { SeekThen::Play } else { SeekThen::Pause },
                    },
                };
            }
            let mode_before = mode_str(&cursor.mode);
            let mode_before_arr = mode_arr(&cursor.mode);
            let spy = Spy::new(&prov);
            let r = util::catch(|| cursor.step(&spy, &u0));
            log = spy.take();
            match r {
                Err(p) => return (fail("cursor_panic", format!("action {step}: step in {mode_before}: {p}")), trace),
                Ok(Ok(s)) => res_s = step_str(s).into(),
                Ok(Err(e)) => {
                    res_s = "err".into();
                    err_s = seek_err_class(&e);
                }
            }
            bump(&mut stats, "steps");
            ev = json!({"event":"step","m":mode_before_arr});
        } else if choice < 92 {
            // checkpoint: from the cursor's materialization, or from an observed live frontier state
            let (t, r) = if rng.gen_bool(0.5) || lane.live.is_empty() {
                (before, prov.add_checkpoint(lane.w, ReplayCheckpoint::from_state(cursor.materialized_state())))
            } else {
                let keys: Vec<u64> = lane.live.keys().copied().collect();
                let t = keys[rng.gen_range(0..keys.len())];
                (t, prov.checkpoint(lane.w, &lane.live[&t].state).map(|_| ()))
            };
            if let Err(e) = r {
                return (fail("valid_checkpoint_rejected", format!("action {step}: checkpoint at {t}: {e:?}")), trace);
            }
            bump(&mut stats, "ckpts");
            trace.push(json!({"event":"ckpt","t":t}));
            continue;
        } else if choice < 96 || lane.len == 0 || rng.gen_bool(0.6) {
            // fresh cursor on the same lane
            let (c, p, r) = new_cursor(lane, &mut rng);
            cursor = c;
            pin = p;
            role = r;
            trace.push(json!({"event":"reset","new":false,"len":lane.len,"pin":pin,"role":role_s(role),"ck":ck_ticks(&prov, lane.w, lane.len)}));
            continue;
        } else {
            // fork the current lane at a random tick and let the child diverge for a few ticks
            let ft = rng.gen_range(0..lane.len);
            let child = wl_id(next_fork_id);
            next_fork_id += 1;
            let src = lane.w;
            let src_ck = ck_ticks(&prov, src, lane.len);
            // the live runtime forks too (real child frontier), on a copy that shares the session's checkpoints
            if src != main {
                // only the main lane has a live runtime to continue; fork provenance-only otherwise
                if let Err(e) = prov.fork(src, wt(ft), child) {
                    return (fail("fork_failed", format!("{e:?}")), trace);
                }
                if let Err(e) = base.fork(src, wt(ft), child) {
                    return (fail("fork_failed", format!("{e:?}")), trace);
                }
                let l = match build_lane(&base, child, ft + 1, BTreeMap::new(), &lanes[lane_ix].u0_replay[(ft + 1) as usize].state) {
                    Ok(l) => l,
                    Err(e) => return (fail("u0_replay_failed", e), trace),
                };
                lanes.push(l);
            } else {
                let mut w2 = World { runtime: world.runtime.clone(), engine: new_engine(&u0), prov: prov.clone(), u0: u0.clone(), nonce: 0x5000_0000 + ((next_fork_id as u32) << 16) };
                let mut b2 = base.clone();
                if let Err(e) = w2.fork(src, ft, child) {
                    return (fail("fork_failed", e), trace);
                }
                if let Err(e) = b2.fork(src, wt(ft), child) {
                    return (fail("fork_failed", format!("{e:?}")), trace);
                }
                let mut flive = BTreeMap::new();
                let mut flen = ft + 1;
                flive.insert(flen, Expect::of(w2.live(child)));
                for _ in 0..rng.gen_range(0..6) {
                    if let Err(e) = w2.ingest(child, rng.gen_range(0..2), &random_ops(&mut rng)) {
                        return (tool(e), trace);
                    }
                    match w2.super_tick() {
                        Ok(r) => flen += r.len() as u64,
                        Err(e) => return (tool(e), trace),
                    }
                    flive.insert(flen, Expect::of(w2.live(child)));
                }
                for t in (ft + 1)..flen {
                    let e = match w2.prov.entry(child, wt(t)) {
                        Ok(e) => e,
                        Err(e) => return (tool(format!("{e:?}")), trace),
                    };
                    if let Err(e) = b2.append_local_commit(e) {
                        return (fail("fork_suffix_append_rejected", format!("{e:?}")), trace);
                    }
                }
                prov = w2.prov.clone();
                base = b2;
                let frontier = w2.live(child);
                let l = match build_lane(&base, child, flen, flive, &frontier) {
                    Ok(l) => l,
                    Err(e) => return (fail("u0_replay_failed", e), trace),
                };
                for (t, lv) in &l.live {
                    let got = &l.u0_replay[*t as usize];
                    let d = diff_states(&got.state, &got.proj, lv, true);
                    if !d.is_empty() {
                        return (fail("fork_u0_replay_differs_from_live", format!("fork at {ft}, tick {t}: {d:?}")), trace);
                    }
                }
                lanes.push(l);
            }
            // copied prefix equals the source's
            let nl = lanes.len() - 1;
            for t in 0..=(ft + 1) {
                let a = &lanes[nl].u0_replay[t as usize];
                let b = &lanes[lane_ix].u0_replay[t as usize];
                let d = diff_states(&a.state, &a.proj, b, true);
                if !d.is_empty() {
                    return (fail("fork_prefix_differs_from_source", format!("fork at {ft}, tick {t}: {d:?}")), trace);
                }
            }
            let want_ck: Vec<u64> = src_ck.iter().copied().filter(|c| *c <= ft + 1).collect();
            let got_ck = ck_ticks(&prov, child, lanes[nl].len);
            bump(&mut stats, "forks");
            lane_ix = nl;
            let (c, p, r) = new_cursor(&lanes[lane_ix], &mut rng);
            cursor = c;
            pin = p;
            role = r;
            trace.push(json!({"event":"fork","at":ft,"src_ck":src_ck,"ck":got_ck,"len":lanes[lane_ix].len,"pin":pin,"role":role_s(role)}));
            if got_ck != want_ck {
                return (fail("fork_checkpoints", format!("fork at {ft}: child checkpoints {got_ck:?}, source had {src_ck:?}")), trace);
            }
            continue;
        }
        // ---- after a cursor action: decide the property on the real outcome
        let lane = &lanes[lane_ix];
        let after = cursor.current_tick().as_u64();
        let (opath, ofrom) = observed_path(&log, before, after);
        if res_s == "err" {
            bump(&mut stats, "errors");
            let legit = (err_s == "PinnedFrontierExceeded") || (err_s == "HistoryUnavailable");
            if !legit {
                return (fail("unexpected_seek_error", format!("action {step} {ev}: {err_s} at tick {before}")), trace);
            }
        } else {
            match opath.as_str() {
                "ckpt" => {
                    bump(&mut stats, "restore_ckpt");
                    if ofrom > before && ofrom < after {
                        bump(&mut stats, "ckpt_between");
                    }
                }
                "u0" => bump(&mut stats, "restore_u0"),
                "advance" => bump(&mut stats, "advance"),
                _ => {}
            }
        }
        if after > lane.len {
            return (fail("tick_out_of_history", format!("action {step}: tick {after} > {}", lane.len)), trace);
        }
        let state = cursor.materialized_state();
        let proj = project_full(state.warp_state());
        let d = diff_states(state, &proj, &lane.u0_replay[after as usize], true);
        if !d.is_empty() {
            return (fail("differs_from_u0_replay", format!("action {step} {ev} tick {before}->{after} path {opath} from {ofrom}: {d:?}")), trace);
        }
        if let Some(lv) = lane.live.get(&after) {
            let d = diff_states(state, &proj, lv, true);
            if !d.is_empty() {
                return (fail("differs_from_live_record", format!("action {step} {ev} tick {before}->{after}: {d:?}")), trace);
            }
        }
        if after > 0 && !lane.live_roots.is_empty() && cursor.current_state_root() != lane.live_roots[after as usize - 1] {
            return (fail("state_root_differs_from_live_history", format!("action {step}: tick {after}")), trace);
        }
        ev["tick"] = json!(after);
        ev["res"] = json!(res_s);
        ev["err"] = json!(err_s);
        ev["path"] = json!(opath);
        ev["from"] = json!(ofrom);
        ev["mode"] = mode_arr(&cursor.mode);
        trace.push(ev);
    }
    (json!({"verdict":"ok","seed":spec.seed,"ticks":lanes[0].len,"lanes":lanes.len(),"stats":stats}), trace)
}

// --------------------------------------------------------------------------- driver

pub fn run(args: &[String]) -> i32 {
    if args.len() < 2 {
        eprintln!("usage: echo-verif c07 <in.ndjson> <out.ndjson> [trace.ndjson]");
        return 2;
    }
    let inv = Inverse::new();
    let mut out = util::Out::create(&args[1]);
    let mut trace_out = args.get(2).map(|p| util::Out::create(p));
    let seed: u64 = std::env::var("VERIF_SEED").ok().and_then(|s| s.parse().ok()).unwrap_or(1);
    let mut rng = StdRng::seed_from_u64(seed);
    let mut hists: BTreeMap<u64, HistData> = BTreeMap::new();
    let mut prepared: Vec<Prepared> = Vec::new(); // the two variants of the current scenario
    let (mut n, mut viol, mut tool) = (0u64, 0u64, 0u64);
    for (i, v) in util::read_lines(&args[0]) {
        let kind = v["kind"].as_str().unwrap_or("case").to_string();
        let mut r = match kind.as_str() {
            "hist" => match serde_json::from_value::<HistJ>(v.clone()).map_err(|e| e.to_string()).and_then(|h| util::catch(|| build_history(&h)).unwrap_or_else(|m| Err(format!("panic while building the history: {m}")))) {
                Ok(hd) => {
                    let r = json!({"verdict":"ok","kind":"hist","h":hd.spec.h,
                        "commits": hd.main_entries.iter().map(|e| util::hex32(&e.expected.commit_hash)).collect::<Vec<_>>(),
                        "roots": hd.main_entries.iter().map(|e| util::hex32(&e.expected.state_root)).collect::<Vec<_>>()});
                    hists.insert(hd.spec.h, hd);
                    r
                }
                Err(e) if e.starts_with("panic while") => json!({"verdict":"violation","kind":"history_build_panicked","detail":e}),
                Err(e) => json!({"verdict":"tool_error","kind":"hist","detail":e}),
            },
            "long" => match serde_json::from_value::<LongJ>(v.clone()) {
                Ok(spec) => {
                    let (r, tr) = util::catch(|| run_long(&spec)).unwrap_or_else(|m| {
                        (json!({"verdict":"violation","kind":"long_run_panicked","detail":format!("panic in a long random session: {m}")}), Vec::new())
                    });
                    if let Some(t) = trace_out.as_mut() {
                        for e in &tr {
                            t.line(e);
                        }
                    }
                    r
                }
                Err(e) => json!({"verdict":"tool_error","detail":format!("long spec: {e}")}),
            },
            _ => match serde_json::from_value::<CaseJ>(v.clone()) {
                Err(e) => json!({"verdict":"tool_error","detail":format!("case parse: {e}")}),
                Ok(case) => match hists.get(&case.scn.h) {
                    None => json!({"verdict":"tool_error","detail":format!("history {} not built", case.scn.h)}),
                    Some(hd) => {
                        let mut res: Option<Value> = None;
                        if prepared.first().map(|p| &p.key.0) != Some(&case.scn) {
                            prepared.clear();
                            for variant in [false, true] {
                                // a panic inside the code under test (e.g. a debug assertion in replay) is data, not tool trouble
                                let prep = util::catch(|| prepare(hd, &case.scn, variant, &mut rng))
                                    .unwrap_or_else(|m| Err(format!("panic while preparing the scenario (appends / checkpoints / fork / U0 replays): {m}")));
                                match prep {
                                    Ok(p) => match util::catch(|| check_prepared(&p, hd, &case.scn))
                                        .unwrap_or_else(|m| Err(("replay_at_panicked".to_string(), format!("replay_worldline_state_at panicked: {m}"))))
                                    {
                                        Ok(()) => prepared.push(p),
                                        Err((k, d)) => {
                                            res = Some(json!({"verdict":"violation","kind":k,"detail":format!("[{}] {d}", if variant {"outs"} else {"real"})}));
                                            break;
                                        }
                                    },
                                    Err(e) => {
                                        // the scenario's own set-up (valid appends / checkpoints / fork) was refused
                                        res = Some(json!({"verdict":"violation","kind":"setup_rejected","detail":format!("[{}] {e}", if variant {"outs"} else {"real"})}));
                                        break;
                                    }
                                }
                            }
                            if res.is_some() {
                                prepared.clear();
                            }
                        }
                        match res {
                            Some(r) => r,
                            None => {
                                let mut drift = Vec::new();
                                let mut bad: Option<Value> = None;
                                for p in &prepared {
                                    let o = match util::catch(|| run_case(&inv, hd, p, &case, p.key.1)) {
                                        Ok(o) => o,
                                        Err(m) => {
                                            bad = Some(json!({"verdict":"violation","kind":"cursor_action_panicked","detail":format!("panic outside the guarded cursor calls: {m}")}));
                                            break;
                                        }
                                    };
                                    drift.extend(o.drift);
                                    if o.verdict != "ok" {
                                        bad = Some(json!({"verdict":o.verdict,"kind":o.kind,"detail":o.detail}));
                                        break;
                                    }
                                }
                                let mut r = bad.unwrap_or_else(|| json!({"verdict":"ok"}));
                                if !drift.is_empty() {
                                    drift.truncate(6);
                                    r["drift"] = json!(drift);
                                }
                                r
                            }
                        }
                    }
                },
            },
        };
        r["i"] = json!(i);
        n += 1;
        match r["verdict"].as_str() {
            Some("violation") => viol += 1,
            Some("tool_error") => tool += 1,
            _ => {}
        }
        out.line(&r);
    }
    out.finish();
    if let Some(t) = trace_out {
        t.finish();
    }
    println!("{}", json!({"cases":n,"violations":viol,"tool_errors":tool}));
    if tool > 0 { 2 } else { 0 }
}
