"""C02 - parallel execution is invisible: every worker schedule commits the same tick.
(also the engine behind C14: see c14.py)

MC : MC_C02.tla (ParallelExec.tla): W workers claim (warp, shard) units from the shared counter;
     TLC explores every interleaving of Claim/Exec, i.e. every unit->worker assignment and per-worker
     order; invariants: claims partition the units, merged ops = serial ops, post = serial post.
RP : every distinct final (scenario, claim script) is scripted into the real execute_work_queue via the
     claim hook, through Engine::commit_with_receipt with workers(n); the claim log must equal the script,
     the post-state the serial one, and the patch must replay.
MR : all scripts (and all requested worker counts) of one (pre-state, candidate set) group have identical hashes.
TV : unscripted racing runs (real threads) record per-worker claim logs; see c02-race.
"""
import os
from lib import *


def gen_and_replay(ck, binp, variants, wreqs, maxd, prenames=None, label="c02"):
    ids = id_ranks(binp)
    total = 0
    results_all = []
    for variant in variants:
        for wreq in wreqs:
            cfgname = f"MC_{label}_v{variant}_w{wreq}.cfg"
            base = open(os.path.join(SPEC, "MC_C02_quick.cfg")).read()
            base = base.replace("Wreq = 2", f"Wreq = {wreq}").replace("MaxDistinct = 3", f"MaxDistinct = {maxd}")
            base = base.replace("Variant = 0", f"Variant = {variant}").replace("Export = FALSE", "Export = TRUE")
            cfgpath = os.path.join(WORK, "gen", cfgname)
            os.makedirs(os.path.dirname(cfgpath), exist_ok=True)
            open(cfgpath, "w").write(base)
            res = tlc("MC_C02", cfgpath, workers=8, env={"VERIF_IDS": ids}, timeout=7200, tags=("CASE",),
                      out_name=f"{label}_v{variant}_w{wreq}")
            ck.add_tlc(res)
            if res.violation:
                ck.violation(f"spec:{cfgname}:{res.violation}", "TLC invariant violated on the model:\n" + res.error_text[:3000],
                             {"cfg": cfgname, "invariant": res.violation, "trace": res.error_text[:20000]})
                continue
            if not res.lines:
                raise ToolError(f"{cfgname}: nothing exported")
            cases = [c for _, c in res.lines]
            cin = write_ndjson(os.path.join(WORK, f"{label}_v{variant}_w{wreq}.cases"), cases)
            cout = os.path.join(WORK, f"{label}_v{variant}_w{wreq}.results")
            harness(binp, ["c02", cin, cout], timeout=7200)
            results = read_ndjson(cout)
            if len(results) != len(cases):
                raise ToolError("harness result count mismatch")
            total += len(cases)
            results_all += list(zip(cases, results))
    return total, results_all


def judge(ck, pairs):
    groups = {}
    multi = failed = drift = 0
    for c, r in pairs:
        if r["verdict"] == "violation":
            ck.violation(f"{r['kind']}:{r.get('group')}", r.get("detail", ""), {"cases": [c]})
            continue
        if r.get("drift"):
            drift += 1
            if len(ck.notes) < 6:
                ck.notes.append({"model_drift": r["drift"][:2]})
        if len([row for row in c["script"] if row]) >= 2:
            multi += 1
        if r.get("outcome") == "failed":
            failed += 1
        elif "hashes" in r:
            groups.setdefault(r["group"], []).append((c, r["hashes"]))
    for g, members in groups.items():
        ref = members[0]
        for c, h in members[1:]:
            if h != ref[1]:
                ck.violation(f"hashes_depend_on_schedule:{g}", f"script {c['script']} -> {h}; script {ref[0]['script']} -> {ref[1]}",
                             {"cases": [c, ref[0]]})
    return multi, failed, drift, len(groups)


def run(tier, replay=None):
    ck = Check("C02", tier)
    binp = build_harness()
    if replay:
        obj = json.load(open(replay))["case"]
        cin = write_ndjson(os.path.join(WORK, "c02_replay.cases"), obj["cases"])
        cout = os.path.join(WORK, "c02_replay.results")
        harness(binp, ["c02", cin, cout])
        pairs = list(zip(obj["cases"], read_ndjson(cout)))
        total = len(pairs)
    else:
        wreqs = [2, 3] if tier == "quick" else [1, 2, 3, 4]
        maxd = 3 if tier == "quick" else 4
        total, pairs = gen_and_replay(ck, binp, [0], wreqs, maxd)
    multi, failed, drift, ngroups = judge(ck, pairs)
    if pairs:
        c, r = pairs[len(pairs) // 2]
        ck.sample({"preName": c["preName"], "candidates": c["seq"], "units": c["units"], "script": c["script"], "real": r.get("outcome"),
                   "hashes": r.get("hashes", {}).get("commit")})
    # --- TV: real racing threads -----------------------------------------------
    races = 0
    if not replay:
        trace = os.path.join(WORK, "c02_race.ndjson")
        n = 40 if tier == "quick" else 400
        out = harness(binp, ["c02-race", trace, str(ck.seed), str(n)], timeout=7200)
        rsum = json.loads(out.strip().splitlines()[-1])
        for v in rsum.get("violations", []):
            ck.violation(f"race:{v['kind']}", v["detail"], {"race": v})
        res = tlc("ParallelExecTrace", "ParallelExecTrace.cfg", workers=1, env={"TRACE": trace},
                  java_opts="-Xss1g -Dtlc2.tool.queue.IStateQueue=StateDeque", timeout=7200, tags=(), out_name="c02_race")
        ck.add_tlc(res)
        if res.postcondition_failed or res.violation:
            keep = os.path.join(REPLAYS, f"C02-{ck.seed}-race.ndjson")
            shutil.copy(trace, keep)
            ck.violation("race_trace_rejected", "ParallelExecTrace rejected a recorded claim log", {"trace": keep})
        races = rsum["runs"]
        ck.cov["race_runs"] = races
        ck.cov["race_max_workers"] = rsum.get("max_workers")
        ck.cov["race_units_total"] = rsum.get("units")
    ck.cov["traces_validated_against_impl"] = total + races
    ck.cov["evaluations"] = total + races
    ck.cov["distinct_nontrivial"] = multi
    ck.cov["groups"] = ngroups
    ck.cov["model_drift_cases"] = drift
    ck.cov["rule"] = ("every distinct final (scenario, claim script) state of MC_C02 (Variant 0 = honest programs) for the requested worker counts, scripted into the real work queue; "
                      "non-trivial = at least two workers claimed a unit; plus unscripted racing runs validated by ParallelExecTrace.tla")
    ck.cov["exhaustive"] = replay is None
    ck.assumptions += ["bounded scenarios (2 pre-states, candidate subsets up to MaxDistinct, up to 4 requested workers)",
                       "claim hook (cfg echo_verif) substitutes the scripted unit for the drawn counter value; worker index = spawn order",
                       "the five policies of execute_parallel_with_policy are exercised by the race leg (public API), not by the scripted leg"]
    return ck.finish()
