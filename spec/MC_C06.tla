------------------------------ MODULE MC_C06 ------------------------------
(***************************************************************************)
(* C06 model: one graph state explored over a universe that contains both  *)
(* reachable and unreachable content (free-standing nodes, edges between   *)
(* unreachable nodes, unparented instances, portals on nodes and edges).   *)
(*                                                                         *)
(* Hashes cannot be computed here; Canon(s, root) is the VALUE the state   *)
(* root must commit to.  Every explored state is exported with its Canon   *)
(* for each candidate root; the harness builds it in several construction  *)
(* orders and the runner decides  Root(s1)=Root(s2) <=> Canon(s1)=Canon(s2)*)
(* on the real hashes.                                                     *)
(***************************************************************************)
EXTENDS GraphGen

CONSTANTS RootNodeChoices    \* candidate root nodes (in RootWarp)
RootChoices == {<<RootWarp, n>> : n \in RootNodeChoices}

VARIABLES s
vars == <<s>>

Init == s = S0
Next == StepOf(s, s')
Spec == Init /\ [][Next]_vars

\* Second, table-style definition of the committed content, transcribed from
\* SnapshotAccumulator::compute_state_root (edges filtered by reachable source AND
\* reachable target; instances taken from the instance table).
CanonAccum(st, root) ==
  LET RN == ReachNodes(st, root)
      RW == {w \in ReachWarps(st, root) : HasWarp(st, w)}
  IN [root  |-> root,
      insts |-> [w \in RW |-> st.inst[w]],
      nodes |-> [k \in {x \in DOMAIN st.node : x \in RN /\ x[1] \in RW} |-> <<st.node[k], Get(st.natt, k)>>],
      edges |-> [e \in {x \in DOMAIN st.edge : /\ x[1] \in RW
                                               /\ NKey(x[1], st.edge[x].from) \in RN
                                               /\ NKey(x[1], st.edge[x].to) \in RN}
                   |-> <<st.edge[e], Get(st.eatt, e)>>]]

Inv_WellFormed == WellFormed(s)
\* the two transcribed definitions of "what the root commits to" coincide on every state
Inv_TwoCanonsAgree == \A r \in RootChoices : Canon(s, r) = CanonAccum(s, r)
\* reachability is closed: every edge leaving a reachable node has a reachable target
Inv_ReachClosed == \A r \in RootChoices : \A e \in DOMAIN s.edge :
                      NKey(e[1], s.edge[e].from) \in ReachNodes(s, r) => NKey(e[1], s.edge[e].to) \in ReachNodes(s, r)
\* an edit confined to unreachable content leaves the committed content unchanged
UnreachableEditKeepsCanon ==
  [][\A r \in RootChoices :
        (/\ ReachNodes(s, r) = ReachNodes(s', r)
         /\ \A k \in ReachNodes(s, r) : /\ Get(s.node, k) = Get(s'.node, k)
                                        /\ Get(s.natt, k) = Get(s'.natt, k)
                                        /\ OutEdges(s, k[1], k[2]) = OutEdges(s', k[1], k[2])
                                        /\ \A e \in OutEdges(s, k[1], k[2]) :
                                             s.edge[e] = s'.edge[e] /\ Get(s.eatt, e) = Get(s'.eatt, e)
         /\ \A w \in ReachWarps(s, r) : Get(s.inst, w) = Get(s'.inst, w))
        => Canon(s, r) = Canon(s', r)]_vars

CanonJson(st, r) ==
  LET c == Canon(st, r)
  IN [root  |-> [w |-> r[1], n |-> r[2]],
      insts |-> {[w |-> w, root |-> c.insts[w].root,
                  parent |-> IF c.insts[w].parent = None THEN [o |-> "none"] ELSE KeyJson(c.insts[w].parent)] : w \in DOMAIN c.insts},
      nodes |-> {[w |-> k[1], n |-> k[2], ty |-> c.nodes[k][1], att |-> AttJson(c.nodes[k][2])] : k \in DOMAIN c.nodes},
      edges |-> {[w |-> k[1], e |-> k[2], from |-> c.edges[k][1].from, to |-> c.edges[k][1].to, ty |-> c.edges[k][1].ty,
                  att |-> AttJson(c.edges[k][2])] : k \in DOMAIN c.edges}]

RootSeq == SetToSeq(RootChoices)
CaseJson == [s |-> StateJson(s),
             canons |-> [i \in 1..Len(RootSeq) |-> CanonJson(s, RootSeq[i])]]
Inv_Export == Export => PrintT(<<"CASE", ToJson(CaseJson)>>)
=============================================================================
