------------------------------ MODULE MC_C08 ------------------------------
(***************************************************************************)
(* C08 model: ALL interleavings of ingress calls (ingest / submit /        *)
(* ticketed staging, any number of retries, default / named / exact /      *)
(* missing routes), inbox policy changes and scheduler passes over         *)
(* Runtime.tla, for a small intent universe (2 kinds, one intent citing a  *)
(* causal parent) and 2..3 writer heads.                                   *)
(*                                                                         *)
(* The state graph is explored exhaustively with the history variables     *)
(* hidden by VIEW, so a retry that changes nothing is a self-loop and the  *)
(* graph is finite without bounding the number of retries.  State          *)
(* invariants are checked on every state, the transition laws on every     *)
(* transition (PROPERTIES).  Every TRANSITION (including the ones leading  *)
(* to known states) is exported as a case: a witness path to its source    *)
(* state (the path by which TLC first reached it), the action, the model's *)
(* predicted result and projected target state.  The harness replays the   *)
(* path into the real runtime and compares the last step.                  *)
(***************************************************************************)
EXTENDS Runtime, Json, IOUtils

CONSTANTS IntentSet,     \* subset of {"a1", "a2", "b1", "bp"}
          TicketedSet,   \* intents that may also go through submit + ticketed staging
          Tickets,       \* admission tickets
          PolicyNames,   \* subset of {"all", "kA", "b0", "b1", "b2"}
          MaxTicks, MaxPol, MaxRestart,
          MaxFaults,     \* trusted recovery (ResolveFault) is offered while at most this many fault records exist
          WithW2,        \* a second worldline with one head
          Export

VARIABLES hist, polChanges, restarts
gvars == <<hist, polChanges, restarts>>
allvars == <<vars, gvars>>

MC_Worldlines == {1, 2}
MC_Heads == {<<1, 1>>, <<1, 2>>, <<2, 1>>}
Present(h) == h[1] = 1 \/ WithW2
PresentHeads == {h \in MC_Heads : Present(h)}
MC_WlOf(h) == h[1]
HeadNameT == [h \in MC_Heads |-> ToString(h[1]) \o "." \o ToString(h[2])]
HeadName(h) == HeadNameT[h]
IdRanks == JsonDeserialize(IOEnv.VERIF_RT_RANKS)
RankTable == [h \in MC_Heads |-> IdRanks.heads[HeadName(h)]]
MC_HeadRank(h) == RankTable[h]
IntentRankT == [i \in {"a1", "a2", "b1", "bp"} |-> IdRanks.intents[i]]
MC_IdRank(i) == IntentRankT[i]
MC_KindOf(i) == IF i \in {"a1", "a2"} THEN "kA" ELSE "kB"
MC_BehOf(i) == "ok"
MC_DefaultOf(w) == IF w = 1 THEN <<1, 1>> ELSE IF w = 2 /\ WithW2 THEN <<2, 1>> ELSE None
MC_NamedOf(w) == IF w = 1 THEN <<1, 2>> ELSE None
\* default and named routes of worldline 1, an exact alias of the named head, and worldline 2's default
\* route (a missing default writer when worldline 2 has no head)
Targets == {ToDefault(1), ToNamed(1), ToExact(<<1, 2>>), ToDefault(2)}
Pol(n) == CASE n = "all" -> AcceptAll [] n = "kA" -> KindFilter({"kA"})
            [] n = "b0" -> Budget(0) [] n = "b1" -> Budget(1) [] n = "b2" -> Budget(2)

\* ---- export -------------------------------------------------------------------------------
TgJson(tg) == IF tg.t = "exact" THEN [t |-> "exact", h |-> HeadName(tg.h)] ELSE [t |-> tg.t, w |-> tg.w]
Canon == SortHeads(PresentHeads)
StepJson(st) == [head |-> HeadName(st.head), n |-> st.n, tickAfter |-> st.tickAfter, gt |-> st.gt, adm |-> st.adm]
ResJson(r) ==
  IF r.act = "tick" THEN [ok |-> r.ok, err |-> r.err, steps |-> [k \in 1..Len(r.steps) |-> StepJson(r.steps[k])]]
  ELSE IF r.act \in {"ingest", "submit", "stage"} THEN [ok |-> r.ok, err |-> r.err, disp |-> r.disp,
                          head |-> IF r.head = None THEN "none" ELSE HeadName(r.head)]
  ELSE [ok |-> r.ok, err |-> r.err]
ProjNext ==
  [tick |-> [w \in MC_Worldlines |-> tick'[w]], gt |-> globalTick', prov |-> [w \in MC_Worldlines |-> prov'[w]],
   pend |-> UNION {{[h |-> HeadName(h), i |-> i] : i \in pending'[h]} : h \in PresentHeads},
   comm |-> {[h |-> HeadName(c[1]), i |-> c[2]] : c \in UNION {committed'[w] : w \in MC_Worldlines}},
   events |-> UNION {{[w |-> w, i |-> i] : i \in events'[w]} : w \in MC_Worldlines},
   corr |-> {[h |-> HeadName(c.sub[1]), i |-> c.sub[2], ta |-> c.ta, gt |-> c.gt] : c \in corr'},
   wpend |-> Cardinality(wpending'), staged |-> Cardinality(DOMAIN staged'), witnessed |-> Cardinality(witnessed'),
   pol |-> [k \in 1..Len(Canon) |-> policy'[Canon[k]]],
   nfaults |-> Len(faults'), rtFault |-> runtimeFault']

Emit(op) ==
  /\ hist' = Append(hist, op)
  /\ (Export => PrintT(<<"CASE", ToJson([path |-> hist', r |-> ResJson(last'), s |-> ProjNext])>>))

\* ---- all interleavings -------------------------------------------------------------------------
DoIngest == \E i \in IntentSet, tg \in Targets :
              /\ Ingest(i, tg) /\ Emit([a |-> "ingest", i |-> i, tg |-> TgJson(tg)])
              /\ UNCHANGED <<polChanges, restarts>>
DoSubmit == \E i \in TicketedSet, tg \in Targets :
              /\ Submit(i, tg) /\ Emit([a |-> "submit", i |-> i, tg |-> TgJson(tg)])
              /\ UNCHANGED <<polChanges, restarts>>
DoStage  == \E i \in TicketedSet, tg \in Targets, t \in Tickets :
              /\ Stage(i, tg, t) /\ Emit([a |-> "stage", i |-> i, tg |-> TgJson(tg), t |-> t])
              /\ UNCHANGED <<polChanges, restarts>>
DoPolicy == \E h \in PresentHeads, n \in PolicyNames :
              /\ polChanges < MaxPol /\ Pol(n) # policy[h]
              /\ SetPolicy(h, Pol(n)) /\ Emit([a |-> "policy", h |-> HeadName(h), p |-> n])
              /\ polChanges' = polChanges + 1 /\ UNCHANGED restarts
DoTick   == /\ globalTick < MaxTicks
            /\ SuperTick /\ Emit([a |-> "tick"])
            /\ UNCHANGED <<polChanges, restarts>>
\* trusted recovery after a failed (rolled back) pass: the only failure in this model is one ticket staged
\* for two submissions; what was committed BEFORE the failed pass must still be deduplicated after it
DoResolve == \E f \in 1..Len(faults) :
               /\ Len(faults) <= MaxFaults /\ faults[f].status = "active"
               /\ ResolveFault(f) /\ Emit([a |-> "resolve", f |-> f])
               /\ UNCHANGED <<polChanges, restarts>>
DoRestart == /\ restarts < MaxRestart
             /\ Restart /\ Emit([a |-> "restart"])
             /\ restarts' = restarts + 1 /\ UNCHANGED polChanges

MC_Init ==
  /\ hist = <<>> /\ polChanges = 0 /\ restarts = 0
  /\ elig = [h \in MC_Heads |-> IF Present(h) THEN "admitted" ELSE "absent"]
  /\ Init0
MC_Next == DoIngest \/ DoSubmit \/ DoStage \/ DoPolicy \/ DoTick \/ DoResolve \/ DoRestart
MC_Spec == MC_Init /\ [][MC_Next]_allvars

\* history variables (hist, prev, last) are not part of a state's identity
MC_View == <<core, evidence, lastCommitGt, commitCount, polChanges, restarts>>

\* ---- transition laws (checked on every transition, also into known states) ---------------------
\* a retry answered Duplicate, and every refused call, changes nothing at all
RetryChangesNothing ==
  [][(last'.act \in {"ingest", "submit", "stage"} /\ (~last'.ok \/ last'.disp = "Duplicate"))
       => UNCHANGED <<core, evidence, commitCount>>]_allvars
\* the disposition is a function of (pending, committed, witnessed, policy) at the resolved head only:
\* Accepted exactly when the envelope was neither pending nor committed there and the policy accepts it
IngestDisposition ==
  [][(last'.act = "ingest" /\ last'.head # None) =>
       LET h == last'.head  i == last'.i IN
       /\ (last'.ok /\ last'.disp = "Accepted") <=>
            (i \notin pending[h] /\ <<h, i>> \notin committed[MC_WlOf(h)] /\ PolicyAccepts(policy[h], i))
       /\ (last'.ok /\ last'.disp = "Accepted") => pending'[h] = pending[h] \cup {i}
       /\ \A g \in MC_Heads \ {h} : pending'[g] = pending[g]]_allvars
\* admitted batch = id-ordered prefix of the pending set; budget semantics (0 admits nothing)
AdmittedLaw == [][(last'.act = "tick") => AdmittedOk(last')]_allvars
\* a pass never drops work: whatever leaves an inbox is committed at that head by the same pass
NothingLost ==
  [][(last'.act = "tick" /\ last'.ok) =>
       \A h \in MC_Heads : \A i \in pending[h] \ pending'[h] : <<h, i>> \in committed'[MC_WlOf(h)]]_allvars
=============================================================================
