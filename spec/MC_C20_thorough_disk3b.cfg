\* C20 thorough, export: every disk-tier behaviour of 3 calls over 3 blobs, all faults (at most 2)
SPECIFICATION Spec
CONSTANTS
  Blobs = {"a", "b", "c"}
  Coords = {"k0", "k1"}
  Tiers = {"disk"}
  Faults = {"flip", "trunc", "swap", "delete", "tmp", "junk", "dir"}
  MaxFaults = 2
  Size <- MC_Size
  MaxBytes = 3
  MemFastPath = FALSE
  ReadOps = TRUE
  WithIndex = FALSE
  Export = TRUE
  MaxLen = 3
INVARIANTS TypeOK Inv_GetIntact Inv_MemWellFormed Inv_CorruptionDetected Inv_HasMeansGet Inv_LoadIntact Inv_Export
PROPERTIES P_MismatchRefused P_PutIdempotent P_PinKeepsContent P_ReadsReadOnly P_Reopen P_IndexStable
CONSTRAINT DepthBound
CHECK_DEADLOCK FALSE
