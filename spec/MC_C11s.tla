------------------------------ MODULE MC_C11s ------------------------------
(***************************************************************************)
(* C11, segmented leg.  A committed log written by the scripted writer of  *)
(* WalSeg.tla: Len(Layout) segment files, Layout[s] transactions of NF     *)
(* frames in segment s, written under writer epoch EpochOfSeg[s] (an epoch *)
(* change follows a rotation), manifest published last, ledger = one       *)
(* closed + one active epoch.  Other logs of the same shape:               *)
(*   "C" same epoch ids, other payloads      (a splice the ledger cannot   *)
(*                                            see)                         *)
(*   "B" foreign epoch ids, other payloads   (a splice from a stranger)    *)
(*   "H" first epoch id shared, later foreign (two hosts started from the  *)
(*       same empty directory: derived epoch ids agree only for epoch 1)   *)
(* Every initial state is ONE edit (kind x position); each is exported     *)
(* with the class the transcription predicts per entry point:              *)
(*   fs / doctor : err | prefix | nonprefix   (recover_filesystem_store)   *)
(*   manifest    : ok | err                   (validate_filesystem_manifest)*)
(*   proj        : present | obstructed | noreport                         *)
(*   open        : ok | err        (FilesystemWalStore::open + reconcile)  *)
(* With Repaired = TRUE (chain fields compared: the proposed F13 repair)   *)
(* Inv_C11s is an invariant of the model.                                  *)
(***************************************************************************)
EXTENDS WalSeg, Json

CONSTANTS NF, AllRecords, Export

VARIABLE e
allv == <<vars, w, e>>

\* cfg files cannot hold tuples
CONSTANTS Layout, EpochOfSeg
MC_Layout_211 == <<2, 1, 1>>
MC_Layout_221 == <<2, 2, 1>>
MC_Layout_122 == <<1, 2, 2>>
MC_Eos_112 == <<1, 1, 2>>
MC_Eos_122 == <<1, 2, 2>>

EidsOf(src) ==
  CASE src = "A" -> <<1, 2>> [] src = "C" -> <<1, 2>> [] src = "B" -> <<11, 12>> [] src = "H" -> <<1, 12>>
LogW(src) == BuildSegLog(src, EidsOf(src), Layout, EpochOfSeg, NF)
P == Disk(LogW("A"))
Oth == [B |-> Disk(LogW("B")), C |-> Disk(LogW("C")), H |-> Disk(LogW("H"))]
NS == Len(Layout)
NT == LogW("A").txn - 1
Known == {1, 2}
Pristine == AllRecs(P.files)

Ed(k, s, i, t, region, src, v) == [k |-> k, s |-> s, i |-> i, t |-> t, region |-> region, src |-> src, v |-> v]
Pos(s) == IF AllRecords THEN 1..Len(RecsAt(P, s)) ELSE {1, Len(RecsAt(P, s))}
Others == {"B", "C", "H"}
M == P.man[1]
CL == P.led.closed[1]
AC == P.led.active[1]

Edits ==
       {Ed("intact", 0, 0, 0, "-", "-", "-")}
  \cup {Ed("damage", s, i, 0, r, "-", "-") : s \in 1..NS, i \in 1..4 * NF, r \in SegRegions}
  \cup {Ed("truncate", s, b, 0, "-", "-", "-") : s \in 1..NS, b \in 0..(2 * 4 * NF)}
  \cup {Ed("delete", s, i, 0, "-", "-", "-") : s \in 1..NS, i \in 1..4 * NF}
  \cup {Ed("dup_commit_fwd", s, 0, 0, "-", "-", "-") : s \in 1..(NS - 1)}
  \cup {Ed("dup_commit_end", s, 0, 0, "-", "-", "-") : s \in 1..NS}
  \cup {Ed(k, s, 0, 0, "-", "-", "-") : k \in {"move_fwd", "move_back", "move_tx_fwd", "move_tx_back"}, s \in 1..(NS - 1)}
  \cup {Ed(k, s, 0, 0, "-", "-", "-") : k \in {"delete_segment", "delete_segment_renumber", "duplicate_segment", "duplicate_segment_root"}, s \in 1..NS}
  \cup {Ed("swap_segments", s, i, 0, "-", "-", "-") : s \in 1..NS, i \in 1..NS}
  \cup {Ed("append_empty_segment", 0, 0, 0, "-", "-", "-")}
  \cup {Ed("replace_segment", s, 0, 0, "-", src, "-") : s \in 1..NS, src \in Others}
  \cup {Ed("delete_tx", 0, 0, t, "-", "-", "-") : t \in 1..NT}
  \cup {Ed("transplant_tx", 0, 0, t, "-", src, "-") : t \in 1..NT, src \in Others}
  \cup {Ed("man_count", 0, c, 0, "-", "-", "-") : c \in {0, M.count - 1, M.count + 1}}
  \cup {Ed("man_fin", 0, f, 0, "-", "-", "-") : f \in {0, M.fin - NF, M.fin - 1, M.fin + 1}}
  \cup {Ed("man_lastc", 0, 0, 0, "-", "-", v) : v \in {"prev", "foreign"}}
  \cup {Ed(k, 0, 0, 0, "-", "-", "-") : k \in {"man_prev_commit", "man_tag", "man_deleted"}}
  \cup {Ed("man_from", 0, 0, 0, "-", src, "-") : src \in Others}
  \cup {Ed(k, 0, 0, 0, "-", "-", "-") : k \in {"led_deleted", "led_drop_active", "led_drop_closed", "led_swap", "led_closed_id",
                                               "led_active_id", "led_closed_finc", "led_active_prevc", "led_active_half_closure", "led_older"}}
  \cup {Ed("led_closed_start", 0, v, 0, "-", "-", "-") : v \in {CL.start + 1, AC.start}}
  \cup {Ed("led_active_start", 0, v, 0, "-", "-", "-") : v \in {AC.start - 1, AC.start + 1}}
  \cup {Ed("led_closed_fin", 0, v, 0, "-", "-", "-") : v \in {CL.fin - NF}}
  \cup {Ed("led_active_previd", 0, v, 0, "-", "-", "-") : v \in {0, 77}}
  \cup {Ed("led_from", 0, 0, 0, "-", src, "-") : src \in Others}

\* an edit names an existing position (and, unless AllRecords, a record next to a segment boundary)
Valid(x) ==
  CASE x.k \in {"damage", "delete"} -> x.i \in Pos(x.s)
    [] x.k = "truncate" -> x.i < Bytes(RecsAt(P, x.s))
    [] x.k = "swap_segments" -> x.s < x.i
    [] OTHER -> TRUE

Init11s == Init /\ w = W0("A") /\ e \in {x \in Edits : Valid(x)}
Next11s == UNCHANGED allv
Spec11s == Init11s /\ [][Next11s]_allv

D == ApplySegEdit(P, Oth, e)
Out == FsScan(D.files)
FsClass == Class(Pristine, Out)
Doc == DoctorOf(D.files)
ManClass == ManifestClass(D.files, D.man)
PrjClass == ProjClass(D.files, D.man, Known)
OpnClass == OpenClass(D.files, D.led, NS)

\* the property on the model
Inv_C11s ==
  /\ FsClass \in {"err", "prefix"}
  /\ (ManClass = "ok" => ManifestDescribes(D.files, D.man))
  /\ (PrjClass = "present" => Out.h = Durable(Pristine) /\ ManifestDescribes(D.files, D.man))
  /\ (OpnClass = "ok" => AdmitsDecl(D.led, SortedCommits(OpenFiles(D.files, NS))))
\* the parts that hold of the code as built (only the history part is broken by F13)
Inv_AsBuiltOther ==
  /\ (ManClass = "ok" => ManifestDescribes(D.files, D.man))
  /\ (PrjClass = "present" /\ FsClass = "prefix" => Out.h = Durable(Pristine) /\ ManifestDescribes(D.files, D.man))
  /\ (OpnClass = "ok" => AdmitsDecl(D.led, SortedCommits(OpenFiles(D.files, NS))))

HJson(h) == [i \in 1..Len(h) |-> [src |-> h[i].src, tx |-> h[i].tx]]
CaseJson ==
  [e |-> e,
   pred |-> [fs |-> FsClass, doctor |-> Doc.class, dn |-> Doc.n, manifest |-> ManClass, proj |-> PrjClass, open |-> OpnClass],
   hist |-> HJson(Out.h),
   layout |-> Layout, eos |-> EpochOfSeg, nf |-> NF, nt |-> NT, repaired |-> Repaired]
Inv_Export == Export => PrintT(<<"CASE", ToJson(CaseJson)>>)
=============================================================================
