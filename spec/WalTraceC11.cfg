SPECIFICATION TSpec
CONSTANTS
  None = None
  Subs = {}
  MaxTx = 0
  MaxFrames = 0
  MaxCycles = 0
  RewriteAtomic = TRUE
  EpochGapRepaired = TRUE
  Mutant = "none"
  Repaired = FALSE
POSTCONDITION Accepted
CHECK_DEADLOCK FALSE
