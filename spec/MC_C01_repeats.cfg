SPECIFICATION Spec
CONSTANTS
  Warps = {"w0", "w1"}
  Nodes = {"n0", "n1", "n2"}
  Edges = {"e0", "e1"}
  Types = {"tA", "tB"}
  Atoms = {"p0", "p1"}
  RankW <- MC_RankW
  RankN <- MC_RankN
  RankE <- MC_RankE
  Prog <- MC_Prog
  KeyRank <- MC_KeyRank
  CandU <- MC_CandU_small
  MaxSeq = 5
  MaxDistinct = 3
  PreNames = {"edges"}
  Export = TRUE
  None = None
INVARIANTS Inv_OutcomeIsFunctionOfSet Inv_DrainSorted Inv_AcceptedIndependent Inv_PostIsPrePlusAccepted Inv_PatchReplays Inv_PostWellFormed Inv_Export
CHECK_DEADLOCK FALSE
