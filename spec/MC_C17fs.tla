------------------------------ MODULE MC_C17fs ------------------------------
(***************************************************************************)
(* C17 filesystem leg: model-checking / behaviour-export instance of       *)
(* ExtActionFs.tla.                                                        *)
(* A behaviour is: at most MaxPre completed operations (at most MaxNoops   *)
(* of them rejected / read-only), a crash inside the next durable step at  *)
(* EVERY byte offset of its frame + commit marker (or between two steps),  *)
(* the fresh-process sequence Scan; Repair; Recover, then - if MaxCrashes  *)
(* = 2 - at most MaxMid operations and a second crash + recovery, and      *)
(* finally exactly PostOps further operations (at most PostNoops of them   *)
(* rejected / read-only).  Every such behaviour is exported as one CASE.   *)
(***************************************************************************)
EXTENDS ExtActionFs, Json, SequencesExt

CONSTANTS MaxPre, MaxMid, MaxNoops, PostOps, PostNoops, MaxCrashes, Export

VARIABLES nCr,     \* crashes so far
          nSince,  \* operations completed since the start / the last recovery
          nNoop    \* rejected / read-only operations in the current phase
mcvars == <<nCr, nSince, nNoop>>

Final     == nCr = MaxCrashes
PreLimit  == IF nCr = 0 THEN MaxPre ELSE MaxMid
CanFinish == IF Final THEN nSince < PostOps ELSE nSince < PreLimit
CanStart  == IF Final THEN nSince < PostOps ELSE nSince <= PreLimit
NoopOk    == nNoop < (IF Final THEN PostNoops ELSE MaxNoops)

MCInit == FsInit /\ nCr = 0 /\ nSince = 0 /\ nNoop = 0

MCNext ==
  \/ /\ CanStart
     /\ \E op \in Ops :
          LET d == Decide(op[1], op[2], op[3])
          IN /\ (d # "DURABLE") => (CanFinish /\ NoopOk)
             /\ FsCall(op[1], op[2], op[3])
             /\ IF d = "DURABLE" THEN UNCHANGED mcvars
                ELSE nSince' = nSince + 1 /\ nNoop' = nNoop + 1 /\ UNCHANGED nCr
  \/ FsAppendFrame /\ UNCHANGED mcvars
  \/ FsFlushCommit /\ UNCHANGED mcvars
  \/ CanFinish /\ FsReturn /\ nSince' = nSince + 1 /\ UNCHANGED <<nCr, nNoop>>
  \/ /\ nCr < MaxCrashes
     /\ \/ \E o \in 0..TxLen : CrashAt(o)
        \/ CrashIdle
     /\ nCr' = nCr + 1 /\ nSince' = 0 /\ nNoop' = 0
  \/ Scan /\ UNCHANGED mcvars
  \/ Repair /\ UNCHANGED mcvars
  \/ FsRecover /\ UNCHANGED mcvars
MCSpec == MCInit /\ [][MCNext]_<<allvars, mcvars>>

Terminal == Final /\ mode = "live" /\ pend = None /\ nSince = PostOps

\* compact hand-off: one JSON array per step
\*   op      : ["op", o, r, v, result class, ready(0/1), ncommit, live postures]
\*   crash   : ["crash", o, r, v, committed transactions before, part, cut class, offset, transaction kept(0/1)]
\*   scan    : ["scan", tail posture, bare coordinator outcome, torn record, ncommit, recovered postures]
\*   repair  : ["repair", "truncated" | "clean", ncommit]
\*   recover : ["recover", result class, ncommit, postures]
ReqSeq == SetToSeq(Reqs)
B(x) == IF x THEN 1 ELSE 0
PS(f) == [i \in 1..Len(ReqSeq) |-> f[ReqSeq[i]]]
StepJson(h) ==
  CASE h.o = "crash"   -> <<"crash", h.op, h.r, h.v, h.ntx, h.part, h.cls, h.off, B(h.kept)>>
    [] h.o = "scan"    -> <<"scan", h.res, h.bare, h.torn, h.ncommit, PS(h.dp)>>
    [] h.o = "repair"  -> <<"repair", h.res, h.ncommit>>
    [] h.o = "recover" -> <<"recover", h.res, h.ncommit, PS(h.dp)>>
    [] OTHER           -> <<"op", h.o, h.r, h.v, h.res, B(h.rdy), h.ncommit, PS(h.lp)>>
CaseJson == [reqs |-> ReqSeq, flen |-> FrameLen, mlen |-> MarkLen, steps |-> [i \in 1..Len(hist) |-> StepJson(hist[i])]]
Inv_Export == (Export /\ Terminal) => PrintT(<<"CASE", ToJson(CaseJson)>>)

\* invariants-only runs: the history is reduced to nothing (the budgets are variables)
View == <<seg, synced, co, pend, nextTx, issued, tornB, tornK, mode, done, cutAt, nCr, nSince, nNoop>>
=============================================================================
