//! C09 / C08, kernel-port leg: replay of model-enumerated port-call sequences of spec/KernelPort.tla
//! (exported by spec/MC_KernelPort.tla) into a REAL `WarpKernel`.
//!
//! `WarpKernel` lives in a private module of warp-wasm (`mod warp_kernel;` in crates/warp-wasm/src/lib.rs),
//! so the type cannot be named through the crate. The real source file is compiled as a module of the
//! harness (see build.rs: `#[path = ".../crates/warp-wasm/src/warp_kernel.rs"] pub mod warp_kernel;`);
//! every call below goes through the `KernelPort` / `TrustedKernelControlPort` trait methods of that type.
//! The sub-command `kport-surface` additionally drives the kernel that the linked warp-wasm crate installs
//! itself (`warp_wasm::init_embedded` + the `*_cbor` entry points) next to a directly driven
//! `WarpKernel::new()` and demands identical answers.
//!
//! After EVERY call the harness re-reads the scheduler status, the frontier head (twice, canonical CBOR
//! bytes compared), every historical commit boundary and the registry info, and decides the property on
//! the real outcome, independently of the model:
//!   * ticks: the worldline tick / the global tick never move outside a Start; inside a Start the worldline
//!     tick advances by exactly the number of new provenance entries, each stamped with its own global tick
//!     inside the run's (before, after] window, strictly increasing; committed history is append-only;
//!   * C08: the intent id is the content address of the dispatched bytes; bytes seen before are answered
//!     accepted=false with the SAME intent id / submission id / generation and change nothing; new bytes
//!     are answered accepted=true; a run never commits when no newly accepted intent is outstanding;
//!   * control: run ids strictly increase; after a Start that returned, the scheduler is inactive and the
//!     completion agrees with the work state and the number of cycles; a refused call changes nothing; a
//!     run never commits while the head is dormant; a failed run (typed error or panic) commits nothing;
//!   * read-only calls: same bytes twice, nothing moves.
//! Where the real outcome differs from the model's prediction but the property holds, the difference is
//! reported as `drift`.

use std::collections::{BTreeMap, BTreeSet};
use std::sync::atomic::{AtomicU64, Ordering};

use echo_wasm_abi::kernel_port::{
    error_codes, AbiError, ControlIntentV1, DispatchResponse, HeadEligibility as AbiHeadEligibility, HeadId as AbiHeadId,
    ErrEnvelope, KernelPort, ObservationAt, ObservationCoordinate, ObservationFrame, ObservationPayload, ObservationProjection,
    ObservationRequest, OkEnvelope, RegistryInfo, RunCompletion, SchedulerMode, SchedulerState, SchedulerStatus, TrustedKernelControlPort,
    WorkState, WorldlineId as AbiWorldlineId, WorldlineTick as AbiWorldlineTick, WriterHeadKey as AbiWriterHeadKey, ABI_VERSION,
};
use echo_wasm_abi::{encode_cbor, pack_control_intent_v1, pack_intent_v1, unpack_intent_v1, IMPORT_SUFFIX_INTENT_V1_OP_ID};
use serde_json::{json, Value};
use warp_core::{
    make_head_id, make_intent_kind, make_node_id, make_type_id, AttachmentKey, AttachmentValue, ConflictPolicy, Engine,
    EngineBuilder, Footprint, GraphStore, GraphView, IngressEnvelope, IngressTarget, NodeId, NodeKey, NodeRecord, PatternGraph,
    RewriteRule, SchedulerKind, TickDelta, WarpOp, WorldlineId,
};

use crate::util;

include!(concat!(env!("OUT_DIR"), "/kport_kernel_mod.rs"));
use warp_kernel::WarpKernel;

// ------------------------------------------------------------------------------------------
// the installed command rule: behaviour class by op id
// ------------------------------------------------------------------------------------------

const RULE_NAME: &str = "cmd/verif-kport";
const OP_OK: u32 = 1;
const OP_PANIC: u32 = 3;
const OP_BADOP: u32 = 4;
const OP_NONE: u32 = 7;

fn beh_of(view: &GraphView<'_>, scope: &NodeId) -> Option<&'static str> {
    match view.node_attachment(scope) {
        Some(AttachmentValue::Atom(p)) => {
            let (op, _) = unpack_intent_v1(p.bytes.as_ref()).ok()?;
            match op {
                OP_OK => Some("ok"),
                OP_PANIC => Some("panic"),
                OP_BADOP => Some("badop"),
                _ => None,
            }
        }
        _ => None,
    }
}

fn target_of(scope: &NodeId) -> NodeId {
    let mut h = blake3::Hasher::new();
    h.update(b"verif-kport-target");
    h.update(scope.as_bytes());
    NodeId(h.finalize().into())
}

fn kp_match(view: GraphView<'_>, scope: &NodeId) -> bool {
    beh_of(&view, scope).is_some()
}

fn kp_footprint(view: GraphView<'_>, scope: &NodeId) -> Footprint {
    let warp = view.warp_id();
    let nk = |n: NodeId| NodeKey { warp_id: warp, local_id: n };
    let mut fp = Footprint { factor_mask: 1, ..Footprint::default() };
    fp.n_read.insert(nk(*scope));
    fp.a_read.insert(AttachmentKey::node_alpha(nk(*scope)));
    fp.n_write.insert(nk(target_of(scope)));
    if beh_of(&view, scope) == Some("badop") {
        // honest footprint of DeleteNode(scope)
        fp.n_write.insert(nk(*scope));
        fp.a_write.insert(AttachmentKey::node_alpha(nk(*scope)));
    }
    fp
}

fn kp_exec(view: GraphView<'_>, scope: &NodeId, delta: &mut TickDelta) {
    let warp = view.warp_id();
    let nk = |n: NodeId| NodeKey { warp_id: warp, local_id: n };
    match beh_of(&view, scope) {
        Some("panic") => std::panic::panic_any("verif-injected-executor-panic"),
        // the event node still has its kind edge: DeleteNode is inapplicable => typed engine error
        Some("badop") => delta.push(WarpOp::DeleteNode { node: nk(*scope) }),
        _ => delta.push(WarpOp::UpsertNode { node: nk(target_of(scope)), record: NodeRecord { ty: make_type_id("verif/kport-ok") } }),
    }
}

fn kp_rule() -> RewriteRule {
    RewriteRule {
        id: *blake3::hash(format!("rule:{RULE_NAME}").as_bytes()).as_bytes(),
        name: RULE_NAME,
        left: PatternGraph { nodes: vec![] },
        matcher: kp_match,
        executor: kp_exec,
        compute_footprint: kp_footprint,
        factor_mask: 1,
        conflict_policy: ConflictPolicy::Abort,
        join_fn: None,
    }
}

/// The engine exactly as `WarpKernel::new` builds it, plus (optionally) the table-driven command rule.
fn build_engine(with_rule: bool) -> Result<Engine, String> {
    let mut store = GraphStore::default();
    let root = make_node_id("root");
    store.insert_node(root, NodeRecord { ty: make_type_id("world") });
    let mut engine = EngineBuilder::new(store, root).scheduler(SchedulerKind::Radix).workers(1).build();
    if with_rule {
        engine.register_rule(kp_rule()).map_err(|e| format!("register rule: {e:?}"))?;
    }
    Ok(engine)
}

fn registry() -> RegistryInfo {
    RegistryInfo { codec_id: Some("cbor-canonical-v1".into()), registry_version: None, schema_sha256_hex: None, abi_version: ABI_VERSION }
}

// ------------------------------------------------------------------------------------------
// inputs
// ------------------------------------------------------------------------------------------

fn raw_envelope(op: u32, vars: &[u8]) -> Vec<u8> {
    let mut b = Vec::with_capacity(12 + vars.len());
    b.extend_from_slice(b"EINT");
    b.extend_from_slice(&op.to_le_bytes());
    b.extend_from_slice(&(vars.len() as u32).to_le_bytes());
    b.extend_from_slice(vars);
    b
}

/// Model dispatch input -> the bytes handed to `dispatch_intent`.
fn input_bytes(x: &str) -> Result<Vec<u8>, String> {
    match x {
        "malformed" => Ok(b"this is not an EINT envelope".to_vec()),
        "control" => pack_control_intent_v1(&ControlIntentV1::Start { mode: SchedulerMode::UntilIdle { cycle_limit: Some(1) } })
            .map_err(|e| format!("pack control: {e:?}")),
        "import_malformed" => Ok(raw_envelope(IMPORT_SUFFIX_INTENT_V1_OP_ID, b"junk")),
        name => {
            let op = match name.as_bytes().first() {
                Some(b'a') => OP_OK,
                Some(b'n') => OP_NONE,
                Some(b'p') => OP_PANIC,
                Some(b'b') => OP_BADOP,
                _ => return Err(format!("unknown model intent {name}")),
            };
            pack_intent_v1(op, format!("verif-kport|{name}").as_bytes()).map_err(|e| format!("pack intent: {e:?}"))
        }
    }
}

fn control_of(op: &Value, wl: &AbiWorldlineId) -> Result<ControlIntentV1, String> {
    match op["a"].as_str().unwrap_or("") {
        "start" => {
            let limit = if op["some"].as_bool().unwrap_or(false) { Some(op["n"].as_u64().unwrap_or(0) as u32) } else { None };
            Ok(ControlIntentV1::Start { mode: SchedulerMode::UntilIdle { cycle_limit: limit } })
        }
        "stop" => Ok(ControlIntentV1::Stop),
        "elig" => {
            let head = match op["h"].as_str().unwrap_or("") {
                "default" => make_head_id("default"),
                other => make_head_id(&format!("verif-kport-unknown-{other}")),
            };
            let eligibility = match op["e"].as_str().unwrap_or("") {
                "dormant" => AbiHeadEligibility::Dormant,
                "admitted" => AbiHeadEligibility::Admitted,
                e => return Err(format!("unknown eligibility {e}")),
            };
            Ok(ControlIntentV1::SetHeadEligibility {
                head: AbiWriterHeadKey { worldline_id: *wl, head_id: AbiHeadId::from_bytes(*head.as_bytes()) },
                eligibility,
            })
        }
        a => Err(format!("not a control op: {a}")),
    }
}

// ------------------------------------------------------------------------------------------
// observation of the kernel through its port
// ------------------------------------------------------------------------------------------

fn err_name(code: u32) -> String {
    match code {
        error_codes::INVALID_INTENT => "INVALID_INTENT".into(),
        error_codes::ENGINE_ERROR => "ENGINE_ERROR".into(),
        error_codes::INVALID_CONTROL => "INVALID_CONTROL".into(),
        error_codes::FORBIDDEN_CONTROL_INTENT => "FORBIDDEN_CONTROL_INTENT".into(),
        error_codes::INVALID_TICK => "INVALID_TICK".into(),
        c => format!("CODE_{c}"),
    }
}

fn status_json(s: &SchedulerStatus) -> Value {
    let (limit_some, limit) = match &s.active_mode {
        Some(SchedulerMode::UntilIdle { cycle_limit }) => (cycle_limit.is_some(), u64::from(cycle_limit.unwrap_or(0))),
        None => (false, 0),
    };
    json!({
        "state": match s.state { SchedulerState::Inactive => "inactive", SchedulerState::Running => "running", SchedulerState::Stopping => "stopping" },
        "mode_on": s.active_mode.is_some(),
        "limit": limit,
        "limit_some": limit_some,
        "work": match s.work_state { WorkState::Quiescent => "quiescent", WorkState::RunnablePending => "runnable_pending", WorkState::BlockedOnly => "blocked_only" },
        "run": s.run_id.as_ref().map_or(0, |r| r.0),
        "cyc": s.latest_cycle_global_tick.as_ref().map_or(0, |g| g.0),
        "com": s.latest_commit_global_tick.as_ref().map_or(0, |g| g.0),
        "quies": s.last_quiescent_global_tick.as_ref().map_or(0, |g| g.0),
        "done": match s.last_run_completion {
            None => "none",
            Some(RunCompletion::Quiesced) => "quiesced",
            Some(RunCompletion::BlockedOnly) => "blocked_only",
            Some(RunCompletion::CycleLimitReached) => "cycle_limit_reached",
            Some(RunCompletion::Stopped) => "stopped",
        },
    })
}

#[derive(Clone, PartialEq, Eq, Debug)]
struct Commit {
    gt: u64,
    root: Vec<u8>,
    commit: Vec<u8>,
}

#[derive(Clone, PartialEq, Eq, Debug)]
struct Obs {
    status: SchedulerStatus,
    wt: u64,
    head_gt: Option<u64>,
    head_root: Vec<u8>,
    head_commit: Vec<u8>,
    head_bytes: Vec<u8>,
    chain: Vec<Commit>,
    registry: RegistryInfo,
}

impl Obs {
    fn gt(&self) -> u64 {
        self.status.latest_cycle_global_tick.as_ref().map_or(0, |g| g.0)
    }
}

fn request(wl: &AbiWorldlineId, at: ObservationAt, projection: ObservationProjection) -> Result<ObservationRequest, String> {
    ObservationRequest::builtin_one_shot(ObservationCoordinate { worldline_id: *wl, at }, ObservationFrame::CommitBoundary, projection)
        .map_err(|e| format!("observation request: {e:?}"))
}

/// Everything a host can read: status, frontier head (canonical bytes), every historical commit boundary
/// (zero-based append indices until the kernel answers with an error), registry info.
fn observe_all(k: &WarpKernel, wl: &AbiWorldlineId) -> Result<Obs, String> {
    let status = k.scheduler_status().map_err(|e| format!("scheduler_status: {e:?}"))?;
    let art = k.observe(request(wl, ObservationAt::Frontier, ObservationProjection::Head)?).map_err(|e| format!("observe head: {e:?}"))?;
    let head_bytes = encode_cbor(&art).map_err(|e| format!("encode artifact: {e:?}"))?;
    let ObservationPayload::Head { head } = art.payload else {
        return Err("observe(Head) returned a non-head payload".into());
    };
    let mut chain = Vec::new();
    for t in 0..64u64 {
        let req = request(wl, ObservationAt::Tick { worldline_tick: AbiWorldlineTick(t) }, ObservationProjection::Snapshot)?;
        match k.observe(req) {
            Ok(a) => match a.payload {
                ObservationPayload::Snapshot { snapshot } => {
                    if snapshot.worldline_tick.0 != t {
                        return Err(format!("snapshot at append index {t} reports worldline tick {}", snapshot.worldline_tick.0));
                    }
                    chain.push(Commit { gt: snapshot.commit_global_tick.as_ref().map_or(0, |g| g.0), root: snapshot.state_root, commit: snapshot.commit_id });
                }
                _ => return Err("observe(Snapshot) returned a non-snapshot payload".into()),
            },
            Err(_) => break,
        }
    }
    Ok(Obs {
        status,
        wt: head.worldline_tick.0,
        head_gt: head.commit_global_tick.as_ref().map(|g| g.0),
        head_root: head.state_root,
        head_commit: head.commit_id,
        head_bytes,
        chain,
        registry: k.registry_info(),
    })
}

// ------------------------------------------------------------------------------------------
// one behaviour
// ------------------------------------------------------------------------------------------

struct Viol {
    kind: &'static str,
    detail: String,
}

fn viol<T>(kind: &'static str, detail: String) -> Result<T, Viol> {
    Err(Viol { kind, detail })
}

enum Outcome {
    Ok(DispatchResponse),
    Err(AbiError),
    Panic(String),
}

#[derive(Default)]
struct Stats {
    calls: u64,
    cycles: u64,
    commits: u64,
    duplicates: u64,
    duplicates_after_commit: u64,
    refused: u64,
    engine_errors: u64,
    panics: u64,
    starts: u64,
    reads: u64,
    already_active: u64,
    stopped_while_running: u64,
    diverging_probes: u64,
}

struct Book {
    /// dispatched bytes -> (intent id, submission id, generation) of the first acceptance
    seen: BTreeMap<Vec<u8>, (Vec<u8>, Option<Vec<u8>>, Option<u64>)>,
    /// accepted and not yet consumed by a committing run that ended quiescent
    outstanding: BTreeSet<Vec<u8>>,
    /// consumed by a committing run
    consumed: BTreeSet<Vec<u8>>,
    dormant: bool,
    max_run: u64,
    control_ids: BTreeMap<Vec<u8>, Vec<u8>>,
}

static HEARTBEAT: AtomicU64 = AtomicU64::new(0);
static CASE_IDX: AtomicU64 = AtomicU64::new(0);
static STEP_IDX: AtomicU64 = AtomicU64::new(0);

fn expected_intent_id(core_wl: WorldlineId, bytes: &[u8]) -> Vec<u8> {
    IngressEnvelope::local_intent(IngressTarget::DefaultWriter { worldline_id: core_wl }, make_intent_kind("echo.intent/eint-v1"), bytes.to_vec())
        .ingress_id()
        .to_vec()
}

/// Laws that hold across ANY call.
fn universal(before: &Obs, after: &Obs, is_start: bool, book: &Book) -> Result<(), Viol> {
    if after.chain.len() < before.chain.len() || after.chain[..before.chain.len()] != before.chain[..] {
        return viol("committed_history_rewritten", format!("historical commit boundaries before {:?} after {:?}", before.chain.len(), after.chain.len()));
    }
    if after.wt < before.wt || after.gt() < before.gt() {
        return viol("tick_went_backwards", format!("worldline tick {} -> {}, global tick {} -> {}", before.wt, after.wt, before.gt(), after.gt()));
    }
    if after.chain.len() as u64 != after.wt {
        return viol("provenance_length_differs_from_worldline_tick", format!("{} observable commit boundaries at worldline tick {}", after.chain.len(), after.wt));
    }
    if !is_start && (after.wt != before.wt || after.gt() != before.gt() || after.chain != before.chain || after.head_bytes != before.head_bytes) {
        return viol(
            "tick_advanced_outside_run",
            format!("worldline tick {} -> {}, global tick {} -> {}, head changed: {}", before.wt, after.wt, before.gt(), after.gt(), after.head_bytes != before.head_bytes),
        );
    }
    if after.registry != before.registry {
        return viol("registry_info_changed", format!("{:?} -> {:?}", before.registry, after.registry));
    }
    if let Some(r) = after.status.run_id.as_ref() {
        if r.0 < book.max_run && before.status.run_id.as_ref().map(|b| b.0) != Some(r.0) {
            return viol("run_id_reused", format!("status shows run id {} after run id {} was handed out", r.0, book.max_run));
        }
    }
    // the frontier head is the last commit boundary
    if let Some(last) = after.chain.last() {
        if last.root != after.head_root || last.commit != after.head_commit || Some(last.gt) != after.head_gt {
            return viol("head_is_not_last_commit", format!("head gt {:?} vs last boundary gt {}", after.head_gt, last.gt));
        }
    }
    Ok(())
}

fn nothing_changed(before: &Obs, after: &Obs, what: &'static str, detail: &str) -> Result<(), Viol> {
    if before != after {
        let which = if before.status != after.status {
            format!("status {} -> {}", status_json(&before.status), status_json(&after.status))
        } else if before.head_bytes != after.head_bytes {
            "frontier head bytes".to_string()
        } else {
            "history / registry".to_string()
        };
        return viol(what, format!("{detail}: {which}"));
    }
    Ok(())
}

#[allow(clippy::too_many_lines)]
fn check_case(case: &Value) -> Value {
    let engine = match build_engine(true) {
        Ok(e) => e,
        Err(e) => return json!({"verdict":"tool_error","detail":e}),
    };
    let core_wl = WorldlineId::from_bytes(engine.root_key().warp_id.0);
    let mut k = match WarpKernel::with_engine(engine, registry()) {
        Ok(k) => k,
        Err(e) => return json!({"verdict":"tool_error","detail":format!("with_engine: {e}")}),
    };
    let wl = AbiWorldlineId::from_bytes(*core_wl.as_bytes());
    let mut book = Book { seen: BTreeMap::new(), outstanding: BTreeSet::new(), consumed: BTreeSet::new(), dormant: false, max_run: 0, control_ids: BTreeMap::new() };
    let mut stats = Stats::default();
    let mut drift: Vec<Value> = Vec::new();
    let mut statuses: BTreeSet<String> = BTreeSet::new();
    let mut before = match observe_all(&k, &wl) {
        Ok(o) => o,
        Err(e) => return json!({"verdict":"tool_error","detail":format!("initial observation: {e}")}),
    };
    if before.wt != 0 || before.gt() != 0 || !before.chain.is_empty() {
        return json!({"verdict":"tool_error","detail":"fresh kernel is not at tick 0"});
    }
    let empty = Vec::new();
    let calls = case["calls"].as_array().unwrap_or(&empty);
    for (step, call) in calls.iter().enumerate() {
        HEARTBEAT.fetch_add(1, Ordering::Relaxed);
        STEP_IDX.store(step as u64, Ordering::Relaxed);
        let op = &call["op"];
        let pred = &call["r"];
        let a = op["a"].as_str().unwrap_or("");
        stats.calls += 1;
        let fail = |v: Viol, drift: &Vec<Value>| json!({"verdict":"violation","kind":v.kind,"step":step,"op":op,"detail":v.detail,"drift":drift});
        macro_rules! note {
            ($what:expr, $model:expr, $real:expr) => {
                if drift.len() < 8 {
                    drift.push(json!({"step": step, "op": op, "what": $what, "model": $model, "real": $real}));
                }
            };
        }

        // ---- read-only calls -------------------------------------------------------------------
        if a == "read" {
            stats.reads += 1;
            let o1 = match observe_all(&k, &wl) {
                Ok(o) => o,
                Err(e) => return fail(Viol { kind: "read_failed", detail: e }, &drift),
            };
            let o2 = match observe_all(&k, &wl) {
                Ok(o) => o,
                Err(e) => return fail(Viol { kind: "read_failed", detail: e }, &drift),
            };
            if let Err(v) = nothing_changed(&before, &o1, "read_changed_state", "a read-only call changed what the next read returns") {
                return fail(v, &drift);
            }
            if let Err(v) = nothing_changed(&o1, &o2, "read_not_repeatable", "two consecutive reads differ") {
                return fail(v, &drift);
            }
            if status_json(&o1.status) != call["s"]["st"] {
                note!("status", call["s"]["st"].clone(), status_json(&o1.status));
            }
            statuses.insert(status_json(&o1.status).to_string());
            continue;
        }

        // ---- the call ---------------------------------------------------------------------------
        let diverging = pred["err"] == "DIVERGES";
        let mut bytes: Vec<u8> = Vec::new();
        let mut control: Option<ControlIntentV1> = None;
        let mut limit: Option<u32> = None;
        let outcome = if a == "dispatch" {
            bytes = match input_bytes(op["x"].as_str().unwrap_or("")) {
                Ok(b) => b,
                Err(e) => return json!({"verdict":"tool_error","detail":e}),
            };
            match util::catch(|| k.dispatch_intent(&bytes)) {
                Ok(Ok(r)) => Outcome::Ok(r),
                Ok(Err(e)) => Outcome::Err(e),
                Err(p) => Outcome::Panic(p),
            }
        } else {
            let mut c = match control_of(op, &wl) {
                Ok(c) => c,
                Err(e) => return json!({"verdict":"tool_error","detail":e}),
            };
            if let ControlIntentV1::Start { mode: SchedulerMode::UntilIdle { cycle_limit } } = &mut c {
                if diverging {
                    // the model says this unbounded run never returns; probe the same loop with a bound instead
                    *cycle_limit = Some(PROBE_CYCLES);
                    stats.diverging_probes += 1;
                }
                limit = *cycle_limit;
            }
            // the bytes are the real ones: pack with the ABI helper, hand the kernel what a host would decode from them
            let packed = match pack_control_intent_v1(&c) {
                Ok(b) => b,
                Err(e) => return json!({"verdict":"tool_error","detail":format!("pack control: {e:?}")}),
            };
            let decoded = match echo_wasm_abi::unpack_control_intent_v1(&packed) {
                Ok(d) => d,
                Err(e) => return json!({"verdict":"tool_error","detail":format!("unpack control: {e:?}")}),
            };
            if decoded != c {
                return fail(Viol { kind: "control_intent_roundtrip", detail: format!("{c:?} packs to bytes that decode as {decoded:?}") }, &drift);
            }
            bytes = packed;
            control = Some(c);
            match util::catch(|| k.dispatch_control_intent_trusted(decoded)) {
                Ok(Ok(r)) => Outcome::Ok(r),
                Ok(Err(e)) => Outcome::Err(e),
                Err(p) => Outcome::Panic(p),
            }
        };
        let after = match observe_all(&k, &wl) {
            Ok(o) => o,
            Err(e) => return fail(Viol { kind: "kernel_unreadable_after_call", detail: e }, &drift),
        };
        let is_start = a == "start";
        let d_wt = after.wt.saturating_sub(before.wt);
        let d_gt = after.gt().saturating_sub(before.gt());
        let verdict: Result<(), Viol> = (|| {
            universal(&before, &after, is_start, &book)?;
            // the response carries the status the kernel now reports
            if let Outcome::Ok(r) = &outcome {
                if r.scheduler_status != after.status {
                    return viol("response_status_differs_from_scheduler_status", format!("{} vs {}", status_json(&r.scheduler_status), status_json(&after.status)));
                }
            }
            match a {
                "dispatch" => match &outcome {
                    Outcome::Ok(r) => {
                        let want = expected_intent_id(core_wl, &bytes);
                        if r.intent_id != want {
                            return viol("intent_id_not_content_address", format!("intent id {} for bytes whose ingress id is {}", hex::encode(&r.intent_id), hex::encode(&want)));
                        }
                        if book.seen.values().any(|(id, _, _)| *id == r.intent_id) != book.seen.contains_key(&bytes) {
                            return viol("intent_id_collision", "two different byte strings share an intent id".to_string());
                        }
                        if let Some((id, sub, gen)) = book.seen.get(&bytes) {
                            stats.duplicates += 1;
                            if book.consumed.contains(&bytes) {
                                stats.duplicates_after_commit += 1;
                            }
                            if r.accepted {
                                return viol("duplicate_reported_accepted", format!("bytes dispatched before (committed since: {}) answered accepted=true", book.consumed.contains(&bytes)));
                            }
                            if r.intent_id != *id || r.submission_id != *sub || r.submission_generation != *gen {
                                return viol("duplicate_identity_differs", format!("first ({:?}, {:?}) retry ({:?}, {:?})", sub.as_ref().map(hex::encode), gen, r.submission_id.as_ref().map(hex::encode), r.submission_generation));
                            }
                            nothing_changed(&before, &after, "duplicate_changed_state", "a duplicate dispatch changed the observable kernel")?;
                        } else {
                            if !r.accepted {
                                return viol("fresh_intent_reported_duplicate", "bytes never dispatched before answered accepted=false".to_string());
                            }
                            if r.submission_id.is_none() || r.submission_generation.is_none() {
                                return viol("accepted_without_submission_identity", format!("{r:?}"));
                            }
                            if book.seen.values().any(|(_, s, g)| *s == r.submission_id || *g == r.submission_generation) {
                                return viol("submission_identity_reused", format!("submission {:?} generation {:?}", r.submission_id.as_ref().map(hex::encode), r.submission_generation));
                            }
                            book.seen.insert(bytes.clone(), (r.intent_id.clone(), r.submission_id.clone(), r.submission_generation));
                            book.outstanding.insert(bytes.clone());
                            if after.status.work_state == WorkState::Quiescent {
                                return viol("accepted_intent_not_pending", "work state is Quiescent right after an accepted dispatch".to_string());
                            }
                        }
                        if book.dormant && after.status.work_state == WorkState::RunnablePending {
                            return viol("dormant_head_counted_runnable", "work state RunnablePending while the only head is dormant".to_string());
                        }
                    }
                    Outcome::Err(e) => {
                        stats.refused += 1;
                        nothing_changed(&before, &after, "refused_call_changed_state", &format!("dispatch refused with {}", err_name(e.code)))?;
                    }
                    Outcome::Panic(p) => return viol("panic_in_dispatch", p.clone()),
                },
                "start" => {
                    stats.starts += 1;
                    stats.cycles += d_gt;
                    stats.commits += d_wt;
                    // every new commit boundary carries its own global tick inside the run's window
                    let mut prev_gt = before.chain.last().map_or(0, |c| c.gt);
                    for c in &after.chain[before.chain.len()..] {
                        if c.gt <= before.gt() || c.gt > after.gt() || c.gt <= prev_gt {
                            return viol("commit_global_tick_out_of_order", format!("commit stamped {} in a run over ({}, {}] after a commit stamped {}", c.gt, before.gt(), after.gt(), prev_gt));
                        }
                        prev_gt = c.gt;
                    }
                    if d_wt > d_gt {
                        return viol("worldline_tick_outran_global_tick", format!("{d_wt} commits in {d_gt} cycles on one worldline"));
                    }
                    if d_wt > 0 && book.dormant {
                        return viol("dormant_head_committed", format!("{d_wt} commit(s) while the only head is dormant"));
                    }
                    if d_wt > 0 && book.outstanding.is_empty() {
                        return viol("commit_without_new_work", format!("{d_wt} commit(s) although every accepted intent had been committed before (retries only)"));
                    }
                    if let Some(n) = limit {
                        if d_gt > u64::from(n) {
                            return viol("cycle_limit_exceeded", format!("{d_gt} cycles under cycle_limit {n}"));
                        }
                    }
                    match &outcome {
                        Outcome::Ok(r) => {
                            let s = &after.status;
                            if s.state != SchedulerState::Inactive || s.active_mode.is_some() {
                                return viol("start_returned_while_active", status_json(s).to_string());
                            }
                            if !r.accepted || r.submission_id.is_some() {
                                return viol("control_response_shape", format!("{r:?}"));
                            }
                            let Some(run) = s.run_id.as_ref().map(|r| r.0) else {
                                return viol("completed_run_without_run_id", status_json(s).to_string());
                            };
                            if run <= book.max_run {
                                return viol("run_id_reused", format!("run id {run} after run id {} had been handed out", book.max_run));
                            }
                            book.max_run = run;
                            if d_gt == 0 {
                                return viol("run_without_cycle", "Start returned Ok without completing a cycle".to_string());
                            }
                            if s.latest_commit_global_tick.as_ref().map(|g| g.0) != after.chain.last().map(|c| c.gt) && d_wt > 0 {
                                return viol("latest_commit_tick_wrong", format!("{:?} vs last boundary {:?}", s.latest_commit_global_tick, after.chain.last().map(|c| c.gt)));
                            }
                            match s.last_run_completion {
                                Some(RunCompletion::Quiesced) => {
                                    if s.work_state != WorkState::Quiescent {
                                        return viol("quiesced_but_work_pending", status_json(s).to_string());
                                    }
                                    if s.last_quiescent_global_tick.as_ref().map(|g| g.0) != Some(after.gt()) {
                                        return viol("quiescent_tick_wrong", status_json(s).to_string());
                                    }
                                    if !book.outstanding.is_empty() && d_wt == 0 {
                                        return viol("quiesced_with_uncommitted_intents", format!("{} accepted intent(s) were never committed", book.outstanding.len()));
                                    }
                                }
                                Some(RunCompletion::BlockedOnly) => {
                                    if s.work_state != WorkState::BlockedOnly || d_wt != 0 {
                                        return viol("blocked_only_inconsistent", format!("{} with {d_wt} commits", status_json(s)));
                                    }
                                }
                                Some(RunCompletion::CycleLimitReached) => {
                                    if limit.map(u64::from) != Some(d_gt) {
                                        return viol("cycle_limit_miscounted", format!("CycleLimitReached after {d_gt} cycles under cycle_limit {limit:?}"));
                                    }
                                    if s.work_state == WorkState::Quiescent {
                                        return viol("cycle_limit_reported_on_quiescent_runtime", status_json(s).to_string());
                                    }
                                }
                                Some(RunCompletion::Stopped) | None => return viol("completed_run_without_completion", status_json(s).to_string()),
                            }
                            if s.work_state == WorkState::Quiescent {
                                book.consumed.extend(book.outstanding.iter().cloned());
                                book.outstanding.clear();
                            }
                        }
                        Outcome::Err(e) => {
                            if e.code == error_codes::INVALID_CONTROL {
                                stats.refused += 1;
                                if before.status.state != SchedulerState::Inactive {
                                    stats.already_active += 1;
                                }
                                nothing_changed(&before, &after, "refused_call_changed_state", "Start refused with INVALID_CONTROL")?;
                            } else {
                                stats.engine_errors += 1;
                                if d_wt != 0 {
                                    return viol("failed_run_changed_history", format!("Start failed with {} after {d_wt} commit(s)", err_name(e.code)));
                                }
                                // C09: a failed pass restores the inboxes: what was pending is still pending
                                if after.status.work_state != before.status.work_state {
                                    return viol("failed_run_changed_pending_work", format!("Start failed with {}: work state {} -> {}", err_name(e.code), status_json(&before.status)["work"], status_json(&after.status)["work"]));
                                }
                            }
                        }
                        Outcome::Panic(_) => {
                            stats.panics += 1;
                            if d_wt != 0 || d_gt != 0 {
                                return viol("failed_run_changed_history", format!("Start panicked, ticks moved by {d_wt} / {d_gt}"));
                            }
                            if after.status.work_state != before.status.work_state {
                                return viol("failed_run_changed_pending_work", format!("Start panicked: work state {} -> {}", status_json(&before.status)["work"], status_json(&after.status)["work"]));
                            }
                            if let Some(r) = after.status.run_id.as_ref() {
                                book.max_run = book.max_run.max(r.0);
                            }
                        }
                    }
                }
                "stop" | "elig" => match &outcome {
                    Outcome::Ok(r) => {
                        if !r.accepted || r.submission_id.is_some() {
                            return viol("control_response_shape", format!("{r:?}"));
                        }
                        if a == "stop" {
                            if before.status.state == SchedulerState::Inactive {
                                nothing_changed(&before, &after, "stop_while_inactive_changed_state", "Stop on an inactive scheduler")?;
                            } else {
                                stats.stopped_while_running += 1;
                                if after.status.state != SchedulerState::Inactive {
                                    return viol("stop_left_scheduler_active", status_json(&after.status).to_string());
                                }
                            }
                        } else {
                            book.dormant = op["e"] == "dormant";
                            if book.dormant && after.status.work_state == WorkState::RunnablePending {
                                return viol("dormant_head_counted_runnable", "work state RunnablePending while the only head is dormant".to_string());
                            }
                        }
                    }
                    Outcome::Err(e) => {
                        stats.refused += 1;
                        nothing_changed(&before, &after, "refused_call_changed_state", &format!("{a} refused with {}", err_name(e.code)))?;
                    }
                    Outcome::Panic(p) => return viol("panic_in_control", p.clone()),
                },
                _ => {}
            }
            // equal control intents have equal intent ids, different ones different ids
            if let (Some(_), Outcome::Ok(r)) = (&control, &outcome) {
                if let Some(id) = book.control_ids.get(&bytes) {
                    if *id != r.intent_id {
                        return viol("control_intent_id_not_function_of_bytes", "the same control intent answered with two intent ids".to_string());
                    }
                } else if book.control_ids.values().any(|id| *id == r.intent_id) {
                    return viol("control_intent_id_collision", "two different control intents share an intent id".to_string());
                } else {
                    book.control_ids.insert(bytes.clone(), r.intent_id.clone());
                }
            }
            Ok(())
        })();
        if let Err(v) = verdict {
            return fail(v, &drift);
        }

        // ---- drift: the model's prediction ----------------------------------------------------------
        let (ok, err, status) = match &outcome {
            Outcome::Ok(r) => (true, String::new(), Some(status_json(&r.scheduler_status))),
            Outcome::Err(e) => (false, err_name(e.code), None),
            Outcome::Panic(_) => (false, "PANIC".to_string(), None),
        };
        if diverging {
            // probe of a run the model says never ends: every cycle must have been empty and the limit must have ended it
            let done = after.status.last_run_completion.clone();
            if !(ok && d_gt == u64::from(PROBE_CYCLES) && d_wt == 0 && done == Some(RunCompletion::CycleLimitReached) && after.status.work_state == WorkState::RunnablePending) {
                note!("diverging_start_probe", json!("cycle_limit_reached after PROBE_CYCLES empty cycles"), json!({"ok": ok, "err": err, "cycles": d_gt, "commits": d_wt, "status": status_json(&after.status)}));
            }
            before = after;
            break;
        }
        if pred["ok"] != json!(ok) || pred["err"] != json!(err) {
            note!("result", json!({"ok": pred["ok"], "err": pred["err"]}), json!({"ok": ok, "err": err}));
        } else if let Outcome::Ok(r) = &outcome {
            if pred["accepted"] != json!(r.accepted) {
                note!("accepted", pred["accepted"].clone(), json!(r.accepted));
            }
            if a == "dispatch" && pred["gen"].as_u64() != r.submission_generation {
                note!("submission_generation", pred["gen"].clone(), json!(r.submission_generation));
            }
            if pred["has_status"] == json!(true) && Some(&call["s"]["st"]) != status.as_ref() {
                note!("response_status", call["s"]["st"].clone(), status.clone().unwrap_or(Value::Null));
            }
        }
        let ms = &call["s"];
        if ms["wt"].as_u64() != Some(after.wt) || ms["gt"].as_u64() != Some(after.gt()) || ms["nh"].as_u64() != Some(after.chain.len() as u64) {
            note!("ticks", json!({"wt": ms["wt"], "gt": ms["gt"], "nh": ms["nh"]}), json!({"wt": after.wt, "gt": after.gt(), "nh": after.chain.len()}));
        }
        if is_start && (pred["cycles"].as_u64() != Some(d_gt) || pred["commits"].as_u64() != Some(d_wt)) {
            note!("cycles", json!({"cycles": pred["cycles"], "commits": pred["commits"]}), json!({"cycles": d_gt, "commits": d_wt}));
        }
        if ms["st"] != status_json(&after.status) {
            note!("status", ms["st"].clone(), status_json(&after.status));
        }
        statuses.insert(status_json(&after.status).to_string());
        before = after;
    }
    json!({
        "verdict": "ok",
        "drift": drift,
        "chain": before.chain.iter().map(|c| json!({"gt": c.gt, "root": hex::encode(&c.root), "commit": hex::encode(&c.commit)})).collect::<Vec<_>>(),
        "statuses": statuses.into_iter().collect::<Vec<_>>(),
        "stats": {
            "calls": stats.calls, "cycles": stats.cycles, "commits": stats.commits, "duplicates": stats.duplicates,
            "duplicates_after_commit": stats.duplicates_after_commit, "refused": stats.refused, "engine_errors": stats.engine_errors,
            "panics": stats.panics, "starts": stats.starts, "reads": stats.reads, "already_active": stats.already_active,
            "stopped_while_running": stats.stopped_while_running, "diverging_probes": stats.diverging_probes,
        },
    })
}

const PROBE_CYCLES: u32 = 25;

/// Runs `f` over the cases on a worker thread. A case that does not finish within the budget (a port call of
/// the code under test that never returns) is reported as `{"verdict":"hang"}`; the spinning worker is
/// abandoned (it dies with the process) and a fresh worker continues with the next case.
fn run_cases(input: &str, output: &str, f: fn(&Value) -> Value) -> i32 {
    let budget = std::time::Duration::from_secs(std::env::var("VERIF_KPORT_CALL_TIMEOUT").ok().and_then(|v| v.parse().ok()).unwrap_or(30u64));
    let cases: std::sync::Arc<Vec<Value>> = std::sync::Arc::new(util::read_lines(input).map(|(_, c)| c).collect());
    let mut out = util::Out::create(output);
    let prev = std::panic::take_hook();
    std::panic::set_hook(Box::new(|_| {}));
    let mut next = 0usize;
    let mut hangs = 0usize;
    while next < cases.len() {
        let (tx, rx) = std::sync::mpsc::channel::<Value>();
        let work = std::sync::Arc::clone(&cases);
        let from = next;
        std::thread::spawn(move || {
            for (k, case) in work[from..].iter().enumerate() {
                CASE_IDX.store((from + k) as u64, Ordering::Relaxed);
                let v = match std::panic::catch_unwind(std::panic::AssertUnwindSafe(|| f(case))) {
                    Ok(v) => v,
                    Err(p) => json!({"verdict":"violation","kind":"panic_outside_port_call","detail":util::panic_message(&p)}),
                };
                if tx.send(v).is_err() {
                    break;
                }
            }
        });
        loop {
            match rx.recv_timeout(budget) {
                Ok(v) => {
                    out.line(&v);
                    next += 1;
                    if next == cases.len() {
                        break;
                    }
                }
                Err(std::sync::mpsc::RecvTimeoutError::Timeout) => {
                    out.line(&json!({"verdict":"hang","kind":"port_call_did_not_return","step":STEP_IDX.load(Ordering::Relaxed),
                                     "detail":format!("a port call did not return within {} s", budget.as_secs())}));
                    next += 1;
                    hangs += 1;
                    break;
                }
                Err(std::sync::mpsc::RecvTimeoutError::Disconnected) => {
                    eprintln!("kport: worker thread died at case {next}");
                    return 2;
                }
            }
        }
        if hangs >= 4 {
            // every abandoned worker spins on a core: give up on the rest
            while next < cases.len() {
                out.line(&json!({"verdict":"skipped","detail":"too many port calls that did not return"}));
                next += 1;
            }
        }
    }
    std::panic::set_hook(prev);
    out.finish();
    if hangs > 0 {
        // leave without joining the spinning workers
        std::process::exit(0);
    }
    0
}

pub fn run(args: &[String]) -> i32 {
    if args.len() < 2 {
        eprintln!("usage: echo-verif kport <cases.ndjson> <results.ndjson>");
        return 2;
    }
    run_cases(&args[0], &args[1], check_case)
}

// ------------------------------------------------------------------------------------------
// the public embedding surface of the linked warp-wasm crate
// ------------------------------------------------------------------------------------------

fn envelope_bytes<T: serde::Serialize>(r: &Result<T, AbiError>) -> Vec<u8> {
    match r {
        Ok(v) => encode_cbor(&OkEnvelope::new(v)).unwrap_or_default(),
        Err(e) => encode_cbor(&ErrEnvelope::new(e.code, e.message.clone())).unwrap_or_default(),
    }
}

/// Drives the kernel that `warp_wasm::init_embedded` installs (the crate's own `WarpKernel::new()`, reached
/// only through the exported `*_cbor` entry points) next to a `WarpKernel::new()` of the source module
/// compiled into the harness, call by call, and demands byte-identical CBOR envelopes.
fn surface_case(case: &Value) -> Value {
    let handle = match warp_wasm::init_embedded() {
        Ok(h) => h,
        Err(e) => return json!({"verdict":"tool_error","detail":format!("init_embedded: {e:?}")}),
    };
    let mut twin = match WarpKernel::new() {
        Ok(k) => k,
        Err(e) => return json!({"verdict":"tool_error","detail":format!("WarpKernel::new: {e}")}),
    };
    let wl = handle.worldline_id;
    if wl != twin.default_worldline_id() {
        return json!({"verdict":"violation","kind":"surface_mismatch","step":0,"detail":"default worldline ids differ"});
    }
    let empty = Vec::new();
    let mut compared = 0u64;
    let mut drift: Vec<Value> = Vec::new();
    for (step, call) in case["calls"].as_array().unwrap_or(&empty).iter().enumerate() {
        HEARTBEAT.fetch_add(1, Ordering::Relaxed);
        let op = &call["op"];
        let a = op["a"].as_str().unwrap_or("");
        let mismatch = |what: &str, x: &[u8], y: &[u8]| {
            json!({"verdict":"violation","kind":"surface_mismatch","step":step,"op":op,
                   "detail":format!("{what}: exported entry point answered {} bytes, the directly driven kernel {} bytes; first difference at byte {}",
                                    x.len(), y.len(), x.iter().zip(y.iter()).take_while(|(p, q)| p == q).count())})
        };
        match a {
            "dispatch" => {
                let bytes = match input_bytes(op["x"].as_str().unwrap_or("")) {
                    Ok(b) => b,
                    Err(e) => return json!({"verdict":"tool_error","detail":e}),
                };
                let x = warp_wasm::dispatch_intent_cbor(&bytes);
                let y = envelope_bytes(&twin.dispatch_intent(&bytes));
                if x != y {
                    return mismatch("dispatch_intent", &x, &y);
                }
            }
            "start" | "stop" | "elig" => {
                if call["r"]["err"] == "DIVERGES" {
                    break;
                }
                let c = match control_of(op, &wl) {
                    Ok(c) => c,
                    Err(e) => return json!({"verdict":"tool_error","detail":e}),
                };
                let packed = match pack_control_intent_v1(&c) {
                    Ok(b) => b,
                    Err(e) => return json!({"verdict":"tool_error","detail":format!("pack control: {e:?}")}),
                };
                let x = warp_wasm::dispatch_control_intent_trusted_cbor(&packed);
                let y = envelope_bytes(&twin.dispatch_control_intent_trusted(c));
                if x != y {
                    return mismatch("dispatch_control_intent_trusted", &x, &y);
                }
            }
            _ => {}
        }
        // after every call: frontier head through the exported observe, registry info
        let req = match request(&wl, ObservationAt::Frontier, ObservationProjection::Head) {
            Ok(r) => r,
            Err(e) => return json!({"verdict":"tool_error","detail":e}),
        };
        let req_bytes = encode_cbor(&req).unwrap_or_default();
        let x = warp_wasm::observe_cbor(&req_bytes);
        let y = envelope_bytes(&twin.observe(req));
        if x != y {
            return mismatch("observe", &x, &y);
        }
        let x = warp_wasm::get_registry_info_cbor();
        let y = envelope_bytes(&Ok::<RegistryInfo, AbiError>(twin.registry_info()));
        if x != y {
            return mismatch("get_registry_info", &x, &y);
        }
        compared += 1;
        // the model's status prediction holds for the rule-less default engine too ("ok" intents commit like "none")
        if let Ok(st) = twin.scheduler_status() {
            if status_json(&st) != call["s"]["st"] && drift.len() < 4 {
                drift.push(json!({"step": step, "op": op, "what": "status", "model": call["s"]["st"], "real": status_json(&st)}));
            }
        }
    }
    json!({"verdict":"ok","compared":compared,"drift":drift})
}

pub fn run_surface(args: &[String]) -> i32 {
    if args.len() < 2 {
        eprintln!("usage: echo-verif kport-surface <cases.ndjson> <results.ndjson>");
        return 2;
    }
    run_cases(&args[0], &args[1], surface_case)
}

/// Probe of the one call the model says never returns: a typed engine error quarantines the only head with
/// its intent still pending, then `Start { cycle_limit: None }`. Prints whether the call returned within
/// the given number of seconds (the spinning thread dies with the process).
pub fn run_hang(args: &[String]) -> i32 {
    let secs: u64 = args.first().and_then(|v| v.parse().ok()).unwrap_or(3);
    let (tx, rx) = std::sync::mpsc::channel::<Value>();
    std::thread::spawn(move || {
        let prev = std::panic::take_hook();
        std::panic::set_hook(Box::new(|_| {}));
        let r = (|| -> Result<Value, String> {
            let engine = build_engine(true)?;
            let mut k = WarpKernel::with_engine(engine, registry()).map_err(|e| e.to_string())?;
            let bytes = input_bytes("b1")?;
            let d = k.dispatch_intent(&bytes).map_err(|e| format!("{e:?}"))?;
            let first = k.dispatch_control_intent_trusted(ControlIntentV1::Start { mode: SchedulerMode::UntilIdle { cycle_limit: Some(1) } });
            let st = k.scheduler_status().map_err(|e| format!("{e:?}"))?;
            let _ = tx.send(json!({"phase":"armed","dispatch_accepted":d.accepted,"first_start_error":first.as_ref().err().map(|e| err_name(e.code)),"status":status_json(&st)}));
            let second = k.dispatch_control_intent_trusted(ControlIntentV1::Start { mode: SchedulerMode::UntilIdle { cycle_limit: None } });
            Ok(json!({"phase":"returned","ok":second.is_ok(),"status":status_json(&k.scheduler_status().map_err(|e| format!("{e:?}"))?)}))
        })();
        std::panic::set_hook(prev);
        let _ = tx.send(r.unwrap_or_else(|e| json!({"phase":"error","detail":e})));
    });
    let armed = rx.recv_timeout(std::time::Duration::from_secs(30)).unwrap_or_else(|_| json!({"phase":"timeout_before_arming"}));
    let second = rx.recv_timeout(std::time::Duration::from_secs(secs));
    println!("{}", json!({"armed": armed, "unbounded_start_returned": second.is_ok(), "waited_s": secs, "second": second.ok()}));
    std::process::exit(0)
}
