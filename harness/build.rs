//! Build script of the verification harness.
//!
//! `WarpKernel` (crates/warp-wasm/src/warp_kernel.rs) lives in a PRIVATE module of warp-wasm, so the
//! harness cannot name the type through the crate. The kernel-port leg (src/kport.rs) therefore compiles
//! the REAL source file as a module of the harness (`#[path = ...] mod warp_kernel;`). The path is derived
//! here from the `warp-wasm` path dependency in Cargo.toml, so that pointing the path dependencies at a
//! scratch worktree (mutation runs) moves the included source along with them.

use std::{env, fs, path::PathBuf};

fn main() {
    let manifest = PathBuf::from(env::var("CARGO_MANIFEST_DIR").unwrap_or_default()).join("Cargo.toml");
    let text = fs::read_to_string(&manifest).unwrap_or_default();
    let mut dir: Option<String> = None;
    for line in text.lines() {
        let t = line.trim_start();
        if t.starts_with("warp-wasm") {
            if let Some(k) = t.find("path = \"") {
                let rest = &t[k + 8..];
                if let Some(e) = rest.find('"') {
                    dir = Some(rest[..e].to_string());
                }
            }
        }
    }
    let dir = dir.unwrap_or_else(|| "/repo/crates/warp-wasm".to_string());
    let src = format!("{dir}/src/warp_kernel.rs");
    let out = PathBuf::from(env::var("OUT_DIR").unwrap_or_default()).join("kport_kernel_mod.rs");
    let body = format!("#[allow(dead_code, unused_imports, unexpected_cfgs, clippy::all)]\n#[path = \"{src}\"]\npub mod warp_kernel;\n");
    if let Err(e) = fs::write(&out, body) {
        panic!("cannot write {}: {e}", out.display());
    }
    println!("cargo:rerun-if-changed=Cargo.toml");
    println!("cargo:rerun-if-changed=build.rs");
    println!("cargo:rerun-if-changed={src}");
}
