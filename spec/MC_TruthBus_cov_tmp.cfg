SPECIFICATION MC_Spec
CONSTANTS
  Channels = {0, 1}
  None = None
  Sessions = {"s1", "s2"}
  Cursors = {"c1", "c2"}
  Cursor0 = "c1"
  Mutant = "none"
  Phase = "play"
  NTok <- MC_Tok6_N
  TokAt <- MC_Tok6_At
  PolSeq <- MC_PolQ
  Family <- MC_FamQ
  MaxAttempts = 0
  MaxCommit = 2
  MaxAbort = 0
  MaxFail = 0
  MaxPlay = 5
  MaxPub = 3
  Export = FALSE
VIEW MC_ViewPlay
INVARIANTS TTypeOK BusIsTickScoped DuplicateRejected NoLeakIntoTick TickIsFunctionOfSet TickPartition CommitKeyAsBuilt LastMatSound SinkSound
PROPERTIES HistoryImmutable OnlyCommitAddsTick AbortLeavesNothing RejectedEmitKeepsBus PublishExact SessionIsolation OnlySubscribedAppear SubsPersist PlaybackIsReadOnly
CHECK_DEADLOCK FALSE
