SPECIFICATION Spec11s
CONSTANTS
  None = None
  Subs = {}
  MaxTx = 0
  MaxFrames = 0
  MaxCycles = 0
  RewriteAtomic = TRUE
  EpochGapRepaired = TRUE
  Mutant = "none"
  Repaired = FALSE
  LifeMaxSeg = 0
  LifeMaxTx = 0
  LifeMaxEp = 0
  LifeNF = 1
  NF = 3
  AllRecords = TRUE
  Export = TRUE
  Layout <- MC_Layout_221
  EpochOfSeg <- MC_Eos_112
INVARIANTS Inv_Export Inv_AsBuiltOther
CHECK_DEADLOCK FALSE
