"""C15, braid-shell leg - the retained theta_braid shells settlement produces, their audit, replay and collapse.

MC : spec/BraidShells.tla (EXTENDS Strands: registry = set of shell records, plural index, Retain = shell step of a
     settlement, RetainJoint = N-member weave over retained members, AuditShell, ReplayShell, Collapse(shell,
     policy, selection, keep); build_braid_shell / assemble / append_braid_shell / validated_shell_for_replay /
     collapse_braid_shell transcribed) under spec/MC_C15b.tla: scenarios that leave 1-3 retained shells (derived /
     conflict / plural, one and two members), then every sequence of <= depth state-changing operations (parent
     tick, collapse + retention under every policy / selection variant, re-settlement under either policy) and in
     every state so reached every pure call (audit, replay of every shell and of an unknown digest, collapse
     without retention of every shell under every variant).  State invariants (ShellCallsNeverTouchLanes,
     RetainedEntriesAreNoOps, AuditReplayPure, CollapseWithoutPolicyRefused, CollapseRecordsExactlyTheSelection,
     CollapseAllOrNothing, NoDoubleBinding, RetainedShellsImmutable, ReplayMatchesSettlement, LineageSound,
     StoreWellFormed, RetainAgreesWithStrands, ... plus the Strands.tla invariants) and action properties (judged
     on every transition, also the pure ones the VIEW folds away).
     spec/BraidLog.tla + MC_C15b_log.tla: the append-only braid event log (braid.rs): every event sequence up to a
     bound; lifecycle, membership cursor / diff laws.
RP : one CASE per visited state: harness `c15b` replays the path into a real WorldlineRuntime / ProvenanceService
     (settle_with_policy, BraidShell::assemble, append_braid_shell, collapse_braid_shell, audit_braid_shell,
     replay_braid_shell) and decides the property on the real outcome after every step; `c15b-log` drives a real
     Braid through every exported event sequence.
Violation keys are prefixed `braid:`.
"""
import collections
import concurrent.futures
import json
import os

from lib import *

P = "braid:"
CFGS = {"quick": ["MC_C15b_quick.cfg"], "thorough": ["MC_C15b_thorough.cfg"]}
LOG_CFGS = {"quick": "MC_C15b_log_quick.cfg", "thorough": "MC_C15b_log_thorough.cfg"}
PROCS = 4
MODEL_MUTANTS = ["no_policy_derives", "collapse_any", "rebind", "replay_forgets"]


def _run_harness(binp, sub, name, cases, procs):
    """Contiguous chunks (behaviours of one scenario stay together: the harness re-uses the world at the end of a
    scenario script); results in case order."""
    procs = max(1, min(procs, (len(cases) + 99) // 100))
    size = (len(cases) + procs - 1) // procs
    chunks = [cases[k * size:(k + 1) * size] for k in range(procs)]
    chunks = [c for c in chunks if c]

    def one(k):
        cin = write_ndjson(os.path.join(WORK, f"c15b_{name}.{k}.cases"), chunks[k])
        cout = os.path.join(WORK, f"c15b_{name}.{k}.results")
        harness(binp, [sub, cin, cout], timeout=7200)
        res = read_ndjson(cout)
        if len(res) != len(chunks[k]):
            raise ToolError(f"{sub}: harness result count mismatch")
        return res

    with concurrent.futures.ThreadPoolExecutor(max_workers=len(chunks)) as ex:
        parts = list(ex.map(one, range(len(chunks))))
    return [r for part in parts for r in part]


def _tlc(module, cfg, workers):
    return tlc(module, cfg, workers=workers, timeout=7200, tags=("CASE",), heap="6g", out_name="c15b_" + cfg.replace(".cfg", ""),
               java_opts=f"-Djava.io.tmpdir={os.path.join(WORK, 'tlc')}")


def run_leg(ck, binp, tier, replay=None):
    runs = []          # (sub-command, name, cases)
    if replay:
        obj = json.load(open(replay))["case"]
        if obj.get("leg") == "braid_spec":          # a violation on the model itself: check that model again
            res = _tlc("MC_C15b_log" if "_log_" in obj["cfg"] else "MC_C15b", obj["cfg"], 4)
            ck.add_tlc(res)
            if res.violation:
                ck.violation(f"{P}spec:{obj['cfg']}:{res.violation}", res.error_text[:3000], obj)
            return
        if obj.get("leg") != "braid":
            return
        runs.append((obj["sub"], "replay", obj["cases"]))
    else:
        for cfg in CFGS[tier]:
            res = _tlc("MC_C15b", cfg, 4)
            ck.add_tlc(res)
            if res.violation:
                ck.violation(f"{P}spec:{cfg}:{res.violation}", "TLC invariant / action property violated on the braid-shell model:\n" + res.error_text[:3000],
                             {"leg": "braid_spec", "cfg": cfg, "invariant": res.violation, "trace": res.error_text[:20000]})
                continue
            if not res.lines:
                raise ToolError(f"{cfg}: nothing exported")
            cases = [c for _, c in res.lines]
            res.lines = []
            cases.sort(key=lambda c: (c["scen"], c["depth"]))
            runs.append(("c15b", cfg.replace(".cfg", ""), cases))
        if tier != "quick":
            # vacuity guards: each model mutant must be REJECTED by the invariants / action properties
            rejected = {}
            for m in MODEL_MUTANTS:
                res = tlc("MC_C15b", f"MC_C15b_mut_{m}.cfg", workers=2, timeout=1800, tags=("CASE",), heap="4g", out_name=f"c15b_mut_{m}",
                          java_opts=f"-Djava.io.tmpdir={os.path.join(WORK, 'tlc')}")
                if not res.violation:
                    raise ToolError(f"the model mutant `{m}` satisfies every invariant of BraidShells.tla: the properties are vacuous")
                rejected[m] = res.violation
            ck.notes.append({"braid_model_mutants_rejected_by": rejected})
        cfg = LOG_CFGS[tier]
        if os.path.exists(os.path.join(SPEC, cfg)):
            res = _tlc("MC_C15b_log", cfg, 2)
            ck.add_tlc(res)
            if res.violation:
                ck.violation(f"{P}spec:{cfg}:{res.violation}", "TLC invariant / action property violated on the braid event-log model:\n" + res.error_text[:3000],
                             {"leg": "braid_spec", "cfg": cfg, "invariant": res.violation, "trace": res.error_text[:20000]})
            elif not res.lines:
                raise ToolError(f"{cfg}: nothing exported")
            else:
                runs.append(("c15b-log", cfg.replace(".cfg", ""), [c for _, c in res.lines]))

    agg = collections.Counter()
    shells = collections.Counter()
    seen = {}
    total = nontrivial = drift = 0
    for sub, name, cases in runs:
        results = _run_harness(binp, sub, name, cases, PROCS)
        for c, r in zip(cases, results):
            total += 1
            if r["verdict"] == "tool_error":
                raise ToolError(f"harness {sub}: {r.get('detail')}")
            for k, v in r["stats"].items():
                if isinstance(v, int):
                    agg[f"{sub}:{k}" if sub != "c15b" else k] += v
            for sh in r["stats"].get("shells", []):
                shells[sh] += 1
            if sub == "c15b" and any(s["op"] in ("collapse", "settle") for s in c["steps"][len(c["steps"]) - c["depth"]:]):
                nontrivial += 1
            if r.get("drift"):
                drift += 1
                if len([n for n in ck.notes if "braid_model_drift" in n]) < 5:
                    ck.notes.append({"braid_model_drift": r["drift"][:2]})
            for fnd in r.get("findings", []):
                seen[fnd["kind"]] = seen.get(fnd["kind"], 0) + 1
                if seen[fnd["kind"]] == 1:
                    ck.violation(P + fnd["kind"], fnd["detail"], {"leg": "braid", "sub": sub, "cases": [c]})
        if sub == "c15b" and cases:
            mid = cases[len(cases) // 2]
            ck.sample({"braid_cfg": name, "scenario": mid["scen"],
                       "path": [(s["op"], s.get("w", s.get("sid", s.get("d", ""))), s.get("pi", s.get("pol", s.get("cpol", "")))) for s in mid["steps"]],
                       "retained": [(s["out"]["k"], len(s["members"])) for s in mid["shells"]],
                       "pure_calls": sum(len(x) for x in mid["probes"]["reads"]) + sum(len(x) for x in mid["probes"]["collapses"])}, limit=6)
    # ---- vacuity guards: the leg must have exercised what it claims to judge
    if not replay and not seen and not any(v[0].startswith(P + "spec:") for v in ck.violations):
        need = {"settles": 1, "refused_settles": 1, "joints": 1, "collapses_kept": 1, "derived": 1, "obstructed": 1, "refused": 1,
                "audits": 1, "replays": 1, "collapse_probes": 1, "two_member": 1, "lineage_probes": 1, "ticks": 1}
        missing = [k for k, n in need.items() if agg.get(k, 0) < n]
        kinds = {s.split("/")[0] for s in shells}
        if missing or not {"plural", "conflict", "derived", "obstruction"} <= kinds or not any(s.endswith("/2") for s in shells):
            raise ToolError(f"braid-shell leg is vacuous: missing {missing}, retained shell kinds {sorted(shells)}")
    ck.cov["traces_validated_against_impl"] += total
    ck.cov["evaluations"] += (agg["ticks"] + agg["settles"] + agg["joints"] + agg["collapses_kept"] + agg["audits"] + agg["replays"]
                              + agg["collapse_probes"] + agg["c15b-log:events"])
    ck.cov["distinct_nontrivial"] += nontrivial
    ck.cov["braid_shells"] = {
        "states_replayed": total, "calls": dict(agg), "retained_shell_kinds(kind/members)": dict(shells), "finding_counts": seen,
        "model_drift_cases": drift,
        "rule": "one replayed behaviour per visited state of MC_C15b (scenario script + at most `depth` state-changing operations) with "
                "every pure call (audit / replay of every retained shell and an unknown digest, collapse without retention under every "
                "policy / selection variant) made in the state reached; non-trivial = the operation phase contains a collapse or a "
                "re-settlement; calls = real API calls judged"}
    ck.assumptions += [
        "braid-shell leg: bounded model (scenario list, depth, collapse variants of the MC_C15b cfg files); one member per settlement (E1), "
        "two-member shells are assembled through the public BraidShell::assemble + append_braid_shell over the members settlement retained",
        "braid-shell leg: digests are modelled by the content they commit to; the harness requires model-equal <=> real-digest-equal within a "
        "behaviour for shell digest, braid coordinate, member digest and the six member sub-digests",
        "braid-shell leg: purity = `{:?}` of the ProvenanceService after every audit+replay pair / collapse row and of the WorldlineRuntime "
        "(scan counter masked) around all pure calls of a state; per call the retained shells must stay `==`; per state-changing step the "
        "lanes are compared by state root, frontier tick, history length, tip commit, global tick, heads and strand registry",
        "braid-shell leg: as built a collapse is record-only (collapse_braid_shell returns a shell, nothing is written to a lane); 'which member "
        "wins' is the caller-selected result refs, which the derived shell must record verbatim next to the parent's unchanged members",
    ]
