------------------------------ MODULE Runtime ------------------------------
(***************************************************************************)
(* The worldline runtime: worldline frontiers, writer heads with per-head  *)
(* inboxes, deterministic ingress (ingest / submit / ticketed staging),    *)
(* one scheduler pass (SuperTick) with failure, rollback, fault records,   *)
(* quarantine and trusted recovery.                                        *)
(*                                                                         *)
(* Transcribed from crates/warp-core/src                                   *)
(*   coordinator.rs  WorldlineRuntime::{ingest, submit_intent_inner,       *)
(*                   ingest_ticketed_invocation_inner, resolve_target,     *)
(*                   record_witnessed_submission, checkpoint_for, restore, *)
(*                   rollback_receipt_correlations,                        *)
(*                   record_receipt_correlations,                          *)
(*                   record_scheduler_{head,runtime}_fault,                *)
(*                   resolve_scheduler_fault, refresh_runnable},           *)
(*                   SchedulerCoordinator::super_tick_inner,               *)
(*                   scheduler_fault_scope_for_error                       *)
(*   head_inbox.rs   HeadInbox::{ingest, would_accept, admit, can_admit,   *)
(*                   set_policy}, compute_ingress_id                       *)
(*   head.rs         RunnableWriterSet::rebuild (canonical key order)      *)
(*   worldline_state.rs  committed_ingress                                 *)
(*   engine_impl.rs  commit_with_state + RuntimeCommitStateGuard           *)
(*   provenance_store.rs ProvenanceService::{checkpoint_for, restore,      *)
(*                   append_local_commit}                                  *)
(*                                                                         *)
(* Every public call takes `&mut WorldlineRuntime`; there is no            *)
(* concurrency inside the runtime, so each public call is one critical     *)
(* section and one action here.                                            *)
(*                                                                         *)
(* Layering (assume/guarantee): a tick is not re-explored here.  The       *)
(* outcome of one head commit is a function of the admitted SET and of     *)
(* the behaviour class of each admitted intent (C01, bound to the code by  *)
(* the C01 replay).  Behaviour classes (BehOf):                            *)
(*   "ok"     honest rule, commits                                         *)
(*   "conf"   honest rule whose footprint collides with every other        *)
(*            "conf" intent of the batch: the first in scope order is      *)
(*            applied, the others are REJECTED in the receipt (lawful)     *)
(*   "panic"  executor panics                      (if the pass is armed)  *)
(*   "uwrite" executor emits an undeclared write   (FootprintViolation     *)
(*   "uread"  executor reads an undeclared node     panics: enforcement is *)
(*   "xwarp"  executor emits an op for a missing    compiled in, debug     *)
(*            / foreign instance                    build)                 *)
(*   "badop"  footprint-honest but inapplicable op => typed                *)
(*            EngineError::InternalCorruption                              *)
(* A pass that is not `armed` runs the faulty classes as "ok" (transient    *)
(* fault).  Environment faults: frontier tick at MAX, global tick at MAX,   *)
(* provenance store ahead of the frontier (append rejects with TickGap),   *)
(* one admission ticket used for two submissions (receipt correlation      *)
(* index conflict after the head's commit).                                *)
(***************************************************************************)
EXTENDS Naturals, Sequences, FiniteSets, TLC

CONSTANTS
  Worldlines,     \* set of worldline ids
  Heads,          \* set of writer-head keys
  WlOf(_),        \* head -> worldline
  HeadRank(_),    \* head -> Nat: byte order of the real (worldline id, head id) keys (injective)
  DefaultOf(_),   \* worldline -> head | None      (default_writers)
  NamedOf(_),     \* worldline -> head | None      (public_inboxes[w]["pub"])
  Intents,        \* intent universe (an intent = kind + bytes + causal parents)
  KindOf(_),      \* intent -> kind
  BehOf(_),       \* intent -> behaviour class (see above)
  IdRank(_),      \* intent -> Nat: byte order of the real ingress ids (injective)
  None

VARIABLES
  tick,          \* [Worldlines -> Nat]                    WorldlineFrontier.frontier_tick
  tickMax,       \* [Worldlines -> BOOLEAN]                frontier_tick = WorldlineTick::MAX (verification seam)
  committed,     \* [Worldlines -> SUBSET (Heads \X Intents)]  WorldlineState.committed_ingress
  events,        \* [Worldlines -> SUBSET Intents]         ingress event nodes present in the worldline graph
  globalTick,    \* Nat
  gtMax,         \* BOOLEAN                                global_tick = GlobalTick::MAX (verification seam)
  prov,          \* [Worldlines -> Nat]                    provenance entries per worldline
  provAhead,     \* [Worldlines -> BOOLEAN]                a foreign entry sits at the tip (environment fault)
  elig,          \* [Heads -> {"admitted","dormant"}]
  policy,        \* [Heads -> Policy]
  pending,       \* [Heads -> SUBSET Intents]              HeadInbox.pending (keyed by ingress id)
  witnessed,     \* SUBSET (Heads \X Intents)              witnessed_submissions / submission_by_target
  wpending,      \* SUBSET (Heads \X Intents)              pending_witnessed_submission_ids
  staged,        \* [SUBSET (Heads \X Intents) -> ticket]  ticketed_runtime_ingress (+ its two indexes)
  corr,          \* set of [sub, t, w, ta, gt]             receipt correlations (+ its four indexes)
  faults,        \* Seq of [scope, status]                 scheduler_faults in generation order
  faultedHeads,  \* [Heads -> Nat]   0 = not quarantined   faulted_heads
  runtimeFault,  \* Nat              0 = none              runtime_fault
  armed,         \* BOOLEAN          environment: faulty intents fault during the next pass
  lastCommitGt,  \* Nat: global tick of the latest pass that left a provenance entry (what a restart recovers)
  commitCount,   \* [Heads \X Intents -> Nat] history: how often (head, intent) was committed by a pass that survived
  prev,          \* snapshot of the state before the last action (history, for the pass invariants)
  last           \* observable result of the last action

core == <<tick, tickMax, committed, events, globalTick, gtMax, prov, provAhead, elig, policy, pending,
          witnessed, wpending, staged, corr, armed>>
evidence == <<faults, faultedHeads, runtimeFault>>
vars == <<core, evidence, lastCommitGt, commitCount, prev, last>>

\* ---- small helpers ----------------------------------------------------------
RECURSIVE SortHeads(_)
SortHeads(S) == IF S = {} THEN <<>>
                ELSE LET m == CHOOSE x \in S : \A y \in S : HeadRank(x) <= HeadRank(y)
                     IN <<m>> \o SortHeads(S \ {m})
RECURSIVE SortIntents(_)
SortIntents(S) == IF S = {} THEN <<>>
                  ELSE LET m == CHOOSE x \in S : \A y \in S : IdRank(x) <= IdRank(y)
                       IN <<m>> \o SortIntents(S \ {m})
Range(f) == {f[x] : x \in DOMAIN f}
Prefix(s, n) == [k \in 1..(IF n < Len(s) THEN n ELSE Len(s)) |-> s[k]]
Upd(f, k, v) == [x \in DOMAIN f \cup {k} |-> IF x = k THEN v ELSE f[x]]
Min(a, b) == IF a < b THEN a ELSE b
RECURSIVE BagAdd(_, _)
BagAdd(B, seq) == IF seq = <<>> THEN B
                  ELSE LET x == Head(seq)
                       IN BagAdd(Upd(B, x, IF x \in DOMAIN B THEN B[x] + 1 ELSE 1), Tail(seq))

\* ---- inbox policy (head_inbox.rs) --------------------------------------------
AcceptAll    == [t |-> "all"]
KindFilter(K) == [t |-> "kind", ks |-> K]
Budget(n)    == [t |-> "budget", n |-> n]
PolicyAccepts(p, i) == IF p.t = "kind" THEN KindOf(i) \in p.ks ELSE TRUE          \* policy_accepts
CanAdmit(P, p) == IF p.t = "budget" THEN p.n > 0 /\ P # {} ELSE P # {}             \* can_admit
\* admit(): everything (AcceptAll / KindFilter) or the first max_per_tick in ingress-id order
AdmitSeq(P, p) == LET s == SortIntents(P) IN IF p.t = "budget" THEN Prefix(s, p.n) ELSE s

\* ---- routing (resolve_target) ---------------------------------------------------
ToDefault(w) == [t |-> "default", w |-> w]
ToNamed(w)   == [t |-> "named", w |-> w]
ToExact(h)   == [t |-> "exact", h |-> h]
Resolve(tg) == IF tg.t = "default" THEN DefaultOf(tg.w)
               ELSE IF tg.t = "named" THEN NamedOf(tg.w)
               ELSE IF tg.h \in Heads THEN tg.h ELSE None
ResolveErr(tg) == IF tg.t = "default" THEN "MissingDefaultWriter"
                  ELSE IF tg.t = "named" THEN "MissingInboxAddress" ELSE "UnknownHead"

\* ---- bookkeeping for the history variables -------------------------------------
Snapshot == [core |-> core, faults |-> faults, faultedHeads |-> faultedHeads, runtimeFault |-> runtimeFault,
             commitCount |-> commitCount]
NoChange == UNCHANGED <<core, evidence, lastCommitGt, commitCount>>
Res(act, ok, err, extra) == [act |-> act, ok |-> ok, err |-> err] @@ extra

(***************************************************************************)
(* Ingress                                                                 *)
(***************************************************************************)
\* record_witnessed_submission: idempotent per (head, ingress id)
Witness(h, i) == /\ witnessed' = witnessed \cup {<<h, i>>}
                 /\ wpending' = IF <<h, i>> \in witnessed THEN wpending ELSE wpending \cup {<<h, i>>}

\* WorldlineRuntime::ingest
Ingest(i, tg) ==
  LET h == Resolve(tg) IN
  /\ prev' = Snapshot
  /\ IF h = None THEN
       /\ last' = Res("ingest", FALSE, ResolveErr(tg), [disp |-> "", head |-> None, i |-> i])
       /\ NoChange
     ELSE IF <<h, i>> \in committed[WlOf(h)] THEN                       \* contains_committed_ingress
       /\ last' = Res("ingest", TRUE, "", [disp |-> "Duplicate", head |-> h, i |-> i])
       /\ NoChange
     ELSE IF ~PolicyAccepts(policy[h], i) THEN                           \* HeadInbox::ingest: policy first
       /\ last' = Res("ingest", FALSE, "RejectedByPolicy", [disp |-> "", head |-> h, i |-> i])
       /\ NoChange
     ELSE IF i \in pending[h] THEN                                        \* Entry::Occupied
       /\ last' = Res("ingest", TRUE, "", [disp |-> "Duplicate", head |-> h, i |-> i])
       /\ NoChange
     ELSE
       /\ pending' = [pending EXCEPT ![h] = @ \cup {i}]
       /\ Witness(h, i)
       /\ last' = Res("ingest", TRUE, "", [disp |-> "Accepted", head |-> h, i |-> i])
       /\ UNCHANGED <<tick, tickMax, committed, events, globalTick, gtMax, prov, provAhead, elig, policy,
                      staged, corr, armed, evidence, lastCommitGt, commitCount>>

\* WorldlineRuntime::submit_intent (witnessed history only; nothing enters an inbox)
Submit(i, tg) ==
  LET h == Resolve(tg) IN
  /\ prev' = Snapshot
  /\ IF h = None THEN
       /\ last' = Res("submit", FALSE, ResolveErr(tg), [disp |-> "", head |-> None, i |-> i])
       /\ NoChange
     ELSE IF <<h, i>> \in committed[WlOf(h)] THEN
       /\ last' = Res("submit", TRUE, "", [disp |-> "Duplicate", head |-> h, i |-> i])
       /\ NoChange
     ELSE IF ~PolicyAccepts(policy[h], i) THEN                           \* would_accept
       /\ last' = Res("submit", FALSE, "RejectedByPolicy", [disp |-> "", head |-> h, i |-> i])
       /\ NoChange
     ELSE IF <<h, i>> \in witnessed THEN
       /\ last' = Res("submit", TRUE, "", [disp |-> "Duplicate", head |-> h, i |-> i])
       /\ NoChange
     ELSE
       /\ Witness(h, i)
       /\ last' = Res("submit", TRUE, "", [disp |-> "Accepted", head |-> h, i |-> i])
       /\ UNCHANGED <<tick, tickMax, committed, events, globalTick, gtMax, prov, provAhead, elig, policy,
                      pending, staged, corr, armed, evidence, lastCommitGt, commitCount>>

\* WorldlineRuntime::ingest_ticketed_invocation(submission of (h,i), ticket t, envelope i -> tg)
\* (enabled only for a witnessed submission: the caller needs its submission id)
Stage(i, tg, t) ==
  LET h == Resolve(tg) IN
  /\ h # None /\ <<h, i>> \in witnessed
  /\ prev' = Snapshot
  /\ IF <<h, i>> \in DOMAIN staged THEN
       /\ IF staged[<<h, i>>] = t
          THEN last' = Res("stage", TRUE, "", [disp |-> "Duplicate", head |-> h, i |-> i])
          ELSE last' = Res("stage", FALSE, "TicketedIngressAlreadyStaged", [disp |-> "", head |-> h, i |-> i])
       /\ NoChange
     ELSE IF <<h, i>> \in committed[WlOf(h)] \/ (PolicyAccepts(policy[h], i) /\ i \in pending[h]) THEN
       \* self.ingest(..) answered Duplicate: runtime ingress exists through another path
       /\ last' = Res("stage", FALSE, "TicketedIngressDuplicateRuntimeIngress", [disp |-> "", head |-> h, i |-> i])
       /\ NoChange
     ELSE IF ~PolicyAccepts(policy[h], i) THEN
       /\ last' = Res("stage", FALSE, "RejectedByPolicy", [disp |-> "", head |-> h, i |-> i])
       /\ NoChange
     ELSE
       /\ pending' = [pending EXCEPT ![h] = @ \cup {i}]
       /\ staged' = Upd(staged, <<h, i>>, t)
       /\ last' = Res("stage", TRUE, "", [disp |-> "Staged", head |-> h, i |-> i])
       /\ UNCHANGED <<tick, tickMax, committed, events, globalTick, gtMax, prov, provAhead, elig, policy,
                      witnessed, wpending, corr, armed, evidence, lastCommitGt, commitCount>>

\* HeadInbox::set_policy on a registered head (verification seam): tightening a kind filter evicts
SetPolicy(h, p) ==
  /\ prev' = Snapshot
  /\ policy' = [policy EXCEPT ![h] = p]
  /\ pending' = [pending EXCEPT ![h] = {i \in @ : PolicyAccepts(p, i)}]
  /\ last' = Res("policy", TRUE, "", [head |-> h])
  /\ UNCHANGED <<tick, tickMax, committed, events, globalTick, gtMax, prov, provAhead, elig,
                 witnessed, wpending, staged, corr, armed, evidence, lastCommitGt, commitCount>>

\* WorldlineRuntime::set_head_eligibility (does not touch fault quarantine)
SetEligibility(h, e) ==
  /\ prev' = Snapshot
  /\ elig' = [elig EXCEPT ![h] = e]
  /\ last' = Res("elig", TRUE, "", [head |-> h])
  /\ UNCHANGED <<tick, tickMax, committed, events, globalTick, gtMax, prov, provAhead, policy, pending,
                 witnessed, wpending, staged, corr, armed, evidence, lastCommitGt, commitCount>>

(***************************************************************************)
(* Environment (fault injection)                                           *)
(***************************************************************************)
Arm(b) == /\ prev' = Snapshot /\ armed' = b /\ last' = Res("arm", TRUE, "", [v |-> b])
          /\ UNCHANGED <<tick, tickMax, committed, events, globalTick, gtMax, prov, provAhead, elig, policy,
                         pending, witnessed, wpending, staged, corr, evidence, lastCommitGt, commitCount>>
SetTickMax(w, b) == /\ prev' = Snapshot /\ tickMax' = [tickMax EXCEPT ![w] = b]
                    /\ last' = Res("tickmax", TRUE, "", [w |-> w, v |-> b])
                    /\ UNCHANGED <<tick, committed, events, globalTick, gtMax, prov, provAhead, elig, policy,
                                   pending, witnessed, wpending, staged, corr, armed, evidence, lastCommitGt, commitCount>>
SetGtMax(b) == /\ prev' = Snapshot /\ gtMax' = b /\ last' = Res("gtmax", TRUE, "", [v |-> b])
               /\ UNCHANGED <<tick, tickMax, committed, events, globalTick, prov, provAhead, elig, policy,
                              pending, witnessed, wpending, staged, corr, armed, evidence, lastCommitGt, commitCount>>
\* a foreign (recorded-event) entry is appended at the tip of w / removed again by the operator
ProvInject(w) == /\ ~provAhead[w] /\ prev' = Snapshot
                 /\ provAhead' = [provAhead EXCEPT ![w] = TRUE] /\ prov' = [prov EXCEPT ![w] = @ + 1]
                 /\ last' = Res("provinject", TRUE, "", [w |-> w])
                 /\ UNCHANGED <<tick, tickMax, committed, events, globalTick, gtMax, elig, policy,
                                pending, witnessed, wpending, staged, corr, armed, evidence, lastCommitGt, commitCount>>
ProvRepair(w) == /\ provAhead[w] /\ prev' = Snapshot
                 /\ provAhead' = [provAhead EXCEPT ![w] = FALSE] /\ prov' = [prov EXCEPT ![w] = @ - 1]
                 /\ last' = Res("provrepair", TRUE, "", [w |-> w])
                 /\ UNCHANGED <<tick, tickMax, committed, events, globalTick, gtMax, elig, policy,
                                pending, witnessed, wpending, staged, corr, armed, evidence, lastCommitGt, commitCount>>

(***************************************************************************)
(* One scheduler pass: SchedulerCoordinator::super_tick_inner              *)
(***************************************************************************)
PanicBehs == {"panic", "uwrite", "uread", "xwarp"}
RuntimeScope == <<"runtime">>
HeadScope(h) == <<"head", h>>

\* refresh_runnable: admitted, not paused (no head is ever paused here), not quarantined; canonical order
Runnable == {h \in Heads : elig[h] = "admitted" /\ faultedHeads[h] = 0}
Keys == SortHeads(Runnable)

\* the part of the runtime a pass works on
Work == [tick |-> tick, committed |-> committed, events |-> events, globalTick |-> globalTick, prov |-> prov,
         pending |-> pending, corr |-> corr, wpending |-> wpending, rb |-> <<>>, log |-> <<>>]

\* checkpoint_for(keys): heads of `keys`, frontiers of their worldlines, the global tick;
\* ProvenanceService::checkpoint_for(worldlines of keys): entry counts
Checkpoint(S, ks) ==
  LET hs == Range(ks)  ws == {WlOf(h) : h \in hs}
  IN [globalTick |-> S.globalTick,
      heads      |-> [h \in hs |-> S.pending[h]],
      frontiers  |-> [w \in ws |-> [tick |-> S.tick[w], committed |-> S.committed[w], events |-> S.events[w]]],
      prov       |-> [w \in ws |-> S.prov[w]]]

\* rollback_receipt_correlations (entries in reverse) ; restore(checkpoint) ; provenance.restore(checkpoint)
RECURSIVE Unwind(_, _)
Unwind(S, n) ==
  IF n = 0 THEN S
  ELSE LET e == S.rb[n]
           S1 == [S EXCEPT !.corr = {c \in @ : c.sub # e.sub},
                           !.wpending = IF e.wasPending THEN @ \cup {e.sub} ELSE @ \ {e.sub}]
       IN Unwind(S1, n - 1)
Restore(S, cp) ==
  LET S0 == Unwind(S, Len(S.rb))
  IN [S0 EXCEPT !.globalTick = cp.globalTick,
                !.pending   = [h \in Heads |-> IF h \in DOMAIN cp.heads THEN cp.heads[h] ELSE @[h]],
                !.tick      = [w \in Worldlines |-> IF w \in DOMAIN cp.frontiers THEN cp.frontiers[w].tick ELSE @[w]],
                !.committed = [w \in Worldlines |-> IF w \in DOMAIN cp.frontiers THEN cp.frontiers[w].committed ELSE @[w]],
                !.events    = [w \in Worldlines |-> IF w \in DOMAIN cp.frontiers THEN cp.frontiers[w].events ELSE @[w]],
                !.prov      = [w \in Worldlines |-> IF w \in DOMAIN cp.prov THEN cp.prov[w] ELSE @[w]],
                !.rb = <<>>, !.log = <<>>]

\* record_receipt_correlations: admitted envelopes in batch order; only ticketed ones correlate
RECURSIVE Correlate(_, _, _, _, _)
Correlate(S, h, seq, k, gt) ==
  IF k > Len(seq) THEN [ok |-> TRUE, S |-> S]
  ELSE LET sub == <<h, seq[k]>> IN
       IF sub \notin DOMAIN staged \/ (\E c \in S.corr : c.sub = sub)
       THEN Correlate(S, h, seq, k + 1, gt)
       ELSE LET t == staged[sub] IN
            IF \E c \in S.corr : c.t = t                  \* receipt_correlation_by_ticket occupied
            THEN [ok |-> FALSE, S |-> S]
            ELSE LET rec == [sub |-> sub, t |-> t, w |-> WlOf(h), ta |-> S.tick[WlOf(h)], gt |-> gt]
                     S1 == [S EXCEPT !.corr = @ \cup {rec}, !.wpending = @ \ {sub},
                                     !.rb = Append(@, [sub |-> sub, wasPending |-> sub \in S.wpending])]
                 IN Correlate(S1, h, seq, k + 1, gt)

\* one head: engine.commit_with_state ; provenance.append_local_commit ; record_committed_ingress ;
\* advance_tick ; record_receipt_correlations
CommitHead(S, h, adm, gt) ==
  LET w == WlOf(h)
      A == Range(adm)
      confs == {i \in A : BehOf(i) = "conf"}
      rejected == IF confs = {} THEN 0 ELSE Cardinality(confs) - 1
  IN IF armed /\ (\E i \in A : BehOf(i) \in PanicBehs)
     THEN [ok |-> FALSE, S |-> S, err |-> "Panic", scope |-> RuntimeScope]          \* guard Drop restores the frontier
     ELSE IF armed /\ (\E i \in A : BehOf(i) = "badop")
     THEN [ok |-> FALSE, S |-> S, err |-> "Engine", scope |-> HeadScope(h)]          \* guard restore_error
     ELSE LET S2 == [S EXCEPT !.events[w] = @ \cup A] IN                             \* finish_success
          IF provAhead[w]
          THEN [ok |-> FALSE, S |-> S2, err |-> "Provenance", scope |-> RuntimeScope]
          ELSE LET S3 == [S2 EXCEPT !.prov[w] = @ + 1,
                                    !.committed[w] = @ \cup {<<h, i>> : i \in A},
                                    !.tick[w] = @ + 1,
                                    !.log = @ \o [k \in 1..Len(adm) |-> <<h, adm[k]>>]]
                   c == Correlate(S3, h, adm, 1, gt)
               IN IF ~c.ok
                  THEN [ok |-> FALSE, S |-> c.S, err |-> "ReceiptCorrelationReplayMismatch", scope |-> RuntimeScope]
                  ELSE [ok |-> TRUE, S |-> c.S,
                        step |-> [head |-> h, n |-> Len(adm), adm |-> adm, tickAfter |-> c.S.tick[w], gt |-> gt,
                                  rejected |-> rejected, pend |-> S.pending[h] \cup A, pol |-> policy[h]]]

RECURSIVE RunHeads(_, _, _, _, _)
RunHeads(S, ks, k, steps, gt) ==
  IF k > Len(ks) THEN [ok |-> TRUE, S |-> S, steps |-> steps]
  ELSE LET h == ks[k]
           adm == AdmitSeq(S.pending[h], policy[h])                         \* inbox.admit()
       IN IF adm = <<>> THEN RunHeads(S, ks, k + 1, steps, gt)
          ELSE LET S1 == [S EXCEPT !.pending[h] = @ \ Range(adm)]
                   r == CommitHead(S1, h, adm, gt)
               IN IF r.ok THEN RunHeads(r.S, ks, k + 1, Append(steps, r.step), gt)
                  ELSE [ok |-> FALSE, S |-> r.S, steps |-> steps, head |-> h, err |-> r.err, scope |-> r.scope]

\* record_scheduler_head_fault / record_scheduler_runtime_fault (a new record only if none is active)
RecordFault(scope) ==
  IF scope = RuntimeScope
  THEN IF runtimeFault # 0 THEN UNCHANGED evidence
       ELSE /\ faults' = Append(faults, [scope |-> scope, status |-> "active"])
            /\ runtimeFault' = Len(faults) + 1 /\ UNCHANGED faultedHeads
  ELSE IF faultedHeads[scope[2]] # 0 THEN UNCHANGED evidence
       ELSE /\ faults' = Append(faults, [scope |-> scope, status |-> "active"])
            /\ faultedHeads' = [faultedHeads EXCEPT ![scope[2]] = Len(faults) + 1] /\ UNCHANGED runtimeFault

Install(S) == /\ tick' = S.tick /\ committed' = S.committed /\ events' = S.events /\ globalTick' = S.globalTick
              /\ prov' = S.prov /\ pending' = S.pending /\ corr' = S.corr /\ wpending' = S.wpending
              /\ commitCount' = BagAdd(commitCount, S.log)
              /\ lastCommitGt' = (IF S.log # <<>> THEN S.globalTick ELSE lastCommitGt)
              /\ UNCHANGED <<tickMax, gtMax, provAhead, elig, policy, witnessed, staged, armed>>

TickRes(ok, err, scope, steps, failHead, ks) ==
  Res("tick", ok, err, [scope |-> scope, steps |-> steps, failHead |-> failHead, keys |-> ks])

SuperTick ==
  /\ prev' = Snapshot
  /\ IF runtimeFault # 0 THEN                                   \* SchedulerRuntimeFaultActive: refused outright
       /\ last' = TickRes(FALSE, "SchedulerRuntimeFaultActive", None, <<>>, None, <<>>)
       /\ NoChange
     ELSE IF gtMax THEN                                           \* global tick pre-flight
       /\ last' = TickRes(FALSE, "GlobalTickOverflow", RuntimeScope, <<>>, None, Keys)
       /\ RecordFault(RuntimeScope) /\ UNCHANGED <<core, lastCommitGt, commitCount>>
     ELSE
       LET ks == Keys
           over == {k \in 1..Len(ks) : CanAdmit(pending[ks[k]], policy[ks[k]]) /\ tickMax[WlOf(ks[k])]}
       IN IF over # {} THEN                                       \* frontier tick pre-flight, first such head
            LET h == ks[CHOOSE k \in over : \A j \in over : k <= j] IN
            /\ last' = TickRes(FALSE, "FrontierTickOverflow", HeadScope(h), <<>>, h, ks)
            /\ RecordFault(HeadScope(h)) /\ UNCHANGED <<core, lastCommitGt, commitCount>>
          ELSE
            LET cp == Checkpoint(Work, ks)
                r == RunHeads(Work, ks, 1, <<>>, globalTick + 1)
            IN IF r.ok THEN
                 /\ Install([r.S EXCEPT !.globalTick = globalTick + 1])
                 /\ UNCHANGED evidence
                 /\ last' = TickRes(TRUE, "", None, r.steps, None, ks)
               ELSE
                 /\ Install(Restore(r.S, cp))
                 /\ RecordFault(r.scope)
                 /\ last' = TickRes(FALSE, r.err, r.scope, r.steps, r.head, ks)

\* WorldlineRuntime::resolve_scheduler_fault (trusted recovery authority)
ResolveFault(f) ==
  /\ f \in 1..Len(faults)
  /\ prev' = Snapshot
  /\ IF faults[f].status # "active" THEN
       /\ last' = Res("resolve", FALSE, "SchedulerFaultAlreadyResolved", [f |-> f]) /\ NoChange
     ELSE
       /\ faults' = [faults EXCEPT ![f].status = "resolved"]
       /\ IF faults[f].scope = RuntimeScope
          THEN /\ runtimeFault' = (IF runtimeFault = f THEN 0 ELSE runtimeFault) /\ UNCHANGED faultedHeads
          ELSE /\ faultedHeads' = [faultedHeads EXCEPT ![faults[f].scope[2]] = IF @ = f THEN 0 ELSE @]
               /\ UNCHANGED runtimeFault
       /\ last' = Res("resolve", TRUE, "", [f |-> f])
       /\ UNCHANGED <<core, lastCommitGt, commitCount>>

(***************************************************************************)
(* Restart: a fresh runtime (same worldlines, heads and policies) restored *)
(* the way trusted_runtime_host.rs::enable_runtime_wal does it:            *)
(* restore_witnessed_submission_persistence(snapshot) ;                    *)
(* restore_causal_runtime_history(provenance, entries, correlations).      *)
(* Inboxes, un-correlated ticketed staging and fault records are process   *)
(* state and are gone; worldline states are replayed from provenance; the  *)
(* committed-ingress ledger is rebuilt ONLY from receipt correlations      *)
(* (worldline_state.rs: "not persisted across process restarts").          *)
(***************************************************************************)
CorrSubs == {c.sub : c \in corr}
Restart ==
  /\ \A w \in Worldlines : ~provAhead[w] /\ ~tickMax[w]
  /\ ~gtMax
  /\ prev' = Snapshot
  /\ pending' = [h \in Heads |-> {}]
  /\ committed' = [w \in Worldlines |-> {c.sub : c \in {d \in corr : d.w = w}}]
  /\ staged' = [x \in DOMAIN staged \cap CorrSubs |-> staged[x]]
  /\ wpending' = witnessed \ CorrSubs
  /\ globalTick' = lastCommitGt
  /\ faults' = <<>> /\ faultedHeads' = [h \in Heads |-> 0] /\ runtimeFault' = 0
  /\ elig' = [h \in Heads |-> IF elig[h] = "absent" THEN "absent" ELSE "admitted"]
  /\ last' = Res("restart", TRUE, "", [x |-> 0])
  /\ UNCHANGED <<tick, tickMax, events, gtMax, prov, provAhead, policy, witnessed, corr, armed, lastCommitGt, commitCount>>

Init0 ==
  /\ tick = [w \in Worldlines |-> 0] /\ tickMax = [w \in Worldlines |-> FALSE]
  /\ committed = [w \in Worldlines |-> {}] /\ events = [w \in Worldlines |-> {}]
  /\ globalTick = 0 /\ gtMax = FALSE
  /\ prov = [w \in Worldlines |-> 0] /\ provAhead = [w \in Worldlines |-> FALSE]
  /\ policy = [h \in Heads |-> AcceptAll]                 \* (elig is set by the caller, before Init0)
  /\ pending = [h \in Heads |-> {}]
  /\ witnessed = {} /\ wpending = {} /\ staged = [x \in {} |-> 0] /\ corr = {}
  /\ faults = <<>> /\ faultedHeads = [h \in Heads |-> 0] /\ runtimeFault = 0
  /\ armed = TRUE /\ commitCount = [x \in {} |-> 0] /\ lastCommitGt = 0
  /\ last = [act |-> "init", ok |-> TRUE, err |-> ""]
  /\ prev = Snapshot

(***************************************************************************)
(* C09 — a scheduler pass is all-or-nothing and strictly ordered           *)
(***************************************************************************)
IsTick == last.act = "tick"
Failed == IsTick /\ ~last.ok
\* the heads a pass must attempt, evaluated in the pre-pass state
PrevElig(h)   == prev.core[9][h] = "admitted"
PrevPending(h) == prev.core[11][h]
PrevPolicy(h)  == prev.core[10][h]
PrevQuarantined(h) == prev.faultedHeads[h] # 0
Due == {h \in Heads : PrevElig(h) /\ ~PrevQuarantined(h) /\ CanAdmit(PrevPending(h), PrevPolicy(h))}
StepHeads == [k \in 1..Len(last.steps) |-> last.steps[k].head]

\* a failed pass changes nothing but fault evidence: at most one new, active record whose scope is
\* the failing head or the runtime; older records untouched; quarantine indexes follow the record
FailedPassChangesOnlyFaultEvidence ==
  Failed =>
    /\ core = prev.core
    /\ commitCount = prev.commitCount
    /\ Len(faults) \in {Len(prev.faults), Len(prev.faults) + 1}
    /\ Prefix(faults, Len(prev.faults)) = prev.faults
    /\ IF last.err = "SchedulerRuntimeFaultActive"
       THEN faults = prev.faults /\ faultedHeads = prev.faultedHeads /\ runtimeFault = prev.runtimeFault
       ELSE /\ Len(faults) = Len(prev.faults) + 1
            /\ faults[Len(faults)] = [scope |-> last.scope, status |-> "active"]
            /\ IF last.scope = RuntimeScope
               THEN runtimeFault = Len(faults) /\ faultedHeads = prev.faultedHeads
               ELSE /\ runtimeFault = prev.runtimeFault /\ last.scope = HeadScope(last.failHead)
                    /\ faultedHeads = [prev.faultedHeads EXCEPT ![last.failHead] = Len(faults)]

\* success: every commit advances its worldline by exactly one, the global tick advances by exactly one
SuccessAdvancesByOne ==
  (IsTick /\ last.ok) =>
    /\ globalTick = prev.core[5] + 1
    /\ \A w \in Worldlines :
         LET n == Cardinality({k \in 1..Len(last.steps) : WlOf(last.steps[k].head) = w})
         IN tick[w] = prev.core[1][w] + n /\ prov[w] = prev.core[7][w] + n
    /\ \A k \in 1..Len(last.steps) :
         LET w == WlOf(last.steps[k].head)
             before == Cardinality({j \in 1..(k - 1) : WlOf(last.steps[j].head) = w})
         IN last.steps[k].tickAfter = prev.core[1][w] + before + 1 /\ last.steps[k].gt = globalTick
    /\ evidence = <<prev.faults, prev.faultedHeads, prev.runtimeFault>>

\* commits happen in canonical head order, each due head at most once; a successful pass commits exactly Due
HeadOrderCanonical ==
  IsTick =>
    /\ \A j, k \in 1..Len(last.steps) : j < k => HeadRank(last.steps[j].head) < HeadRank(last.steps[k].head)
    /\ Range(StepHeads) \subseteq Due
    /\ last.ok => Range(StepHeads) = Due
    /\ (Failed /\ last.failHead # None) =>
         /\ last.failHead \in Due
         /\ IF last.err = "FrontierTickOverflow"          \* pre-flight: nothing was attempted
            THEN /\ last.steps = <<>> /\ prev.core[2][WlOf(last.failHead)]
                 /\ \A h \in Due : prev.core[2][WlOf(h)] => HeadRank(last.failHead) <= HeadRank(h)
            ELSE Range(StepHeads) = {h \in Due : HeadRank(h) < HeadRank(last.failHead)}

\* quarantined heads are never attempted; an active runtime fault refuses the pass
FaultedHeadSkipped ==
  IsTick =>
    /\ \A k \in 1..Len(last.steps) : ~PrevQuarantined(last.steps[k].head)
    /\ (last.failHead # None) => ~PrevQuarantined(last.failHead)
    /\ (prev.runtimeFault # 0) <=> (last.err = "SchedulerRuntimeFaultActive")

\* head-scoped quarantine never blocks the others: with no runtime fault the pass is not refused and
\* every due head is attempted up to the first failure (all of them when nothing fails)
UnrelatedHeadsProceed ==
  (IsTick /\ prev.runtimeFault = 0 /\ (\E h \in Heads : PrevQuarantined(h))) =>
    /\ last.err # "SchedulerRuntimeFaultActive"
    /\ last.ok => Range(StepHeads) = Due

\* a footprint conflict inside a tick is a receipt entry, not a fault
LawfulRejectionIsReceiptNotFault ==
  IsTick =>
    /\ \A k \in 1..Len(last.steps) :
         LET confs == {i \in Range(last.steps[k].adm) : BehOf(i) = "conf"}
         IN last.steps[k].rejected = (IF confs = {} THEN 0 ELSE Cardinality(confs) - 1)
    /\ (last.ok /\ (\E k \in 1..Len(last.steps) : last.steps[k].rejected > 0)) => faults = prev.faults

\* structural sanity of the fault indexes
FaultIndexesConsistent ==
  /\ \A h \in Heads : faultedHeads[h] # 0 =>
        /\ faultedHeads[h] \in 1..Len(faults) /\ faults[faultedHeads[h]] = [scope |-> HeadScope(h), status |-> "active"]
  /\ runtimeFault # 0 => /\ runtimeFault \in 1..Len(faults)
                         /\ faults[runtimeFault] = [scope |-> RuntimeScope, status |-> "active"]
  /\ \A f \in 1..Len(faults) : faults[f].status = "active" =>
        IF faults[f].scope = RuntimeScope THEN runtimeFault = f ELSE faultedHeads[faults[f].scope[2]] = f

(***************************************************************************)
(* C08 — ingress is content-addressed, idempotent and order-free           *)
(***************************************************************************)
\* an intent is committed at most once per writer head
AtMostOncePerHead == \A c \in DOMAIN commitCount : commitCount[c] <= 1
\* what the ledger says is exactly what was committed
CommittedIsLog == \A w \in Worldlines : committed[w] \subseteq {c \in DOMAIN commitCount : WlOf(c[1]) = w}
\* pending is a set keyed by identity and never overlaps what the same head already committed;
\* a kind filter never leaves a non-matching envelope pending
PendingIsSet ==
  \A h \in Heads : /\ \A i \in pending[h] : <<h, i>> \notin committed[WlOf(h)]
                   /\ \A i \in pending[h] : PolicyAccepts(policy[h], i)
\* every admitted batch is the id-ordered prefix of what was pending; budget n admits min(n, |pending|)
AdmittedOk(l) ==
  \A k \in 1..Len(l.steps) :
    LET st == l.steps[k]  P == st.pend  p == st.pol  s == SortIntents(P)
    IN /\ \A a, b \in 1..Len(st.adm) : a < b => IdRank(st.adm[a]) < IdRank(st.adm[b])
       /\ st.adm = Prefix(s, st.n)
       /\ st.n = (IF p.t = "budget" THEN Min(p.n, Cardinality(P)) ELSE Cardinality(P))
       /\ st.n > 0
AdmittedInIdOrder == IsTick => AdmittedOk(last)
\* receipt correlations exist only for committed, ticketed submissions and leave the pending index
CorrelationsSound ==
  \A c \in corr : /\ c.sub \in DOMAIN staged /\ staged[c.sub] = c.t
                  /\ c.sub \in committed[c.w] /\ c.sub \notin wpending
                  /\ \A d \in corr : (d.t = c.t \/ d.sub = c.sub) => d = c
=============================================================================
