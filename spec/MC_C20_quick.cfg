\* C20 quick, export: every memory-tier behaviour of 4 calls (2 blobs, 2 coordinates, retention index); get/has/load not explored as own steps (every read is part of the observable state after every step)
SPECIFICATION Spec
CONSTANTS
  Blobs = {"a", "b"}
  Coords = {"k0", "k1"}
  Tiers = {"mem"}
  Faults = {}
  MaxFaults = 0
  Size <- MC_Size
  MaxBytes = 2
  MemFastPath = FALSE
  ReadOps = FALSE
  WithIndex = TRUE
  Export = TRUE
  MaxLen = 4
INVARIANTS TypeOK Inv_GetIntact Inv_MemWellFormed Inv_CorruptionDetected Inv_HasMeansGet Inv_LoadIntact Inv_Export
PROPERTIES P_MismatchRefused P_PutIdempotent P_PinKeepsContent P_ReadsReadOnly P_Reopen P_IndexStable
CONSTRAINT DepthBound
CHECK_DEADLOCK FALSE
