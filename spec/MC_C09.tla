------------------------------ MODULE MC_C09 ------------------------------
(***************************************************************************)
(* C09 model: bounded scenario generator over Runtime.tla.                 *)
(*                                                                         *)
(* A behaviour = a topology (1..3 worldlines x 1..4 heads), up to NP       *)
(* scheduler passes, a background load (which heads receive honest work    *)
(* before every pass, ticketed or not), at most one "special" - a failure   *)
(* kind (or lawful conflict / dormant head) aimed at one head before one   *)
(* pass - and, after every failed pass, one of the operator reactions      *)
(* none / resolve (cause persists) / repair+resolve / again (resolve a     *)
(* resolved fault).  Every primitive step is an action of Runtime.tla; the *)
(* generator only chooses WHICH action comes next.  Every behaviour is     *)
(* exported with the model's predicted result and state after each action  *)
(* and replayed into the real WorldlineRuntime / SchedulerCoordinator.     *)
(***************************************************************************)
EXTENDS Runtime, Json, IOUtils

CONSTANTS Topos,         \* set of topologies: Seq of head counts per worldline, e.g. <<2, 1>>
          NP,            \* passes per behaviour
          BgModes,       \* subset of {"all", "none", "alt"}
          TktModes,      \* subset of BOOLEAN: background work goes through submit + ticketed staging
          SpecialKinds,  \* subset of AllSpecialKinds
          SpecialPasses, \* passes at which the special may be aimed
          RecoverModes,  \* subset of {"none", "resolve", "repair", "again"}
          Export

VARIABLES topo, bg, tkt, sp,   \* the scenario (chosen in Init)
          canon,               \* present heads in canonical order (computed once in Init)
          pass, phase,         \* generator control: phase \in {"load", "recover", "done"}
          todo,                \* primitive Runtime actions still to perform, in order
          hist                 \* [a: action, r: result, s: projected state] per performed action

gvars == <<topo, bg, tkt, sp, canon, pass, phase, todo, hist>>
allvars == <<vars, gvars>>

AllSpecialKinds == {"conf", "panic", "uwrite", "uread", "xwarp", "badop", "tktdup", "provgap",
                    "tickmax", "gtmax", "dormant"}
IntentFaults == {"panic", "uwrite", "uread", "xwarp", "badop"}

\* ---- constants of Runtime ---------------------------------------------------------
MC_Worldlines == 1..3
MC_Heads == {<<w, k>> : w \in 1..3, k \in 1..4}
MC_WlOf(h) == h[1]
HeadNameT == [h \in MC_Heads |-> ToString(h[1]) \o "." \o ToString(h[2])]      \* constant tables: evaluated once
HeadName(h) == HeadNameT[h]
IdRanks == JsonDeserialize(IOEnv.VERIF_RT_RANKS)
RankTable == [h \in MC_Heads |-> IdRanks.heads[HeadName(h)]]
MC_HeadRank(h) == RankTable[h]
Present(h) == h[1] <= Len(topo) /\ h[2] <= topo[h[1]]
PresentHeads == {h \in MC_Heads : Present(h)}
PresentWls == 1..Len(topo)
\* routing table: head 1 of a worldline is its default writer, head 2 owns the public inbox "pub"
MC_DefaultOf(w) == IF w <= Len(topo) THEN <<w, 1>> ELSE None
MC_NamedOf(w) == IF w <= Len(topo) /\ topo[w] >= 2 THEN <<w, 2>> ELSE None
Route(h) == IF h[2] = 1 THEN ToDefault(h[1]) ELSE IF h[2] = 2 THEN ToNamed(h[1]) ELSE ToExact(h)
\* intents are records [p: pass, w, k: target head, b: behaviour, s: slot]
MkIntent(p, h, b, s) == [p |-> p, w |-> h[1], k |-> h[2], b |-> b, s |-> s]
MC_KindOf(i) == "kA"
MC_BehOf(i) == i.b
MC_IdRank(i) == i.p * 1000 + i.w * 100 + i.k * 10 + i.s
AllIntents == [p : 1..3, w : 1..3, k : 1..4, b : {"ok", "conf", "panic", "uwrite", "uread", "xwarp", "badop"}, s : 1..2]
IntentNameT == [i \in AllIntents |-> i.b \o "|p" \o ToString(i.p) \o "w" \o ToString(i.w) \o "k" \o ToString(i.k) \o "s" \o ToString(i.s)]
IntentName(i) == IntentNameT[i]
TicketName(p, h, s) == "t" \o ToString(p) \o "." \o HeadName(h) \o "." \o ToString(s)

\* ---- the scenario -------------------------------------------------------------------
Canon == canon
PosOf(h) == CHOOSE k \in 1..Len(Canon) : Canon[k] = h
BgHeads == IF bg = "all" THEN PresentHeads
           ELSE IF bg = "alt" THEN {h \in PresentHeads : PosOf(h) % 2 = 1}
           ELSE {}

OkLoad(p, h, s, ticket) ==
  LET i == MkIntent(p, h, "ok", s) IN
  IF tkt THEN <<[a |-> "submit", i |-> i, tg |-> Route(h)], [a |-> "stage", i |-> i, tg |-> Route(h), t |-> ticket]>>
  ELSE <<[a |-> "ingest", i |-> i, tg |-> Route(h)]>>

SpecialLoad(p, h) ==
  LET k == sp.kind IN
  IF k = "conf" THEN <<[a |-> "ingest", i |-> MkIntent(p, h, "conf", 1), tg |-> Route(h)],
                       [a |-> "ingest", i |-> MkIntent(p, h, "conf", 2), tg |-> Route(h)]>>
  ELSE IF k \in IntentFaults THEN <<[a |-> "ingest", i |-> MkIntent(p, h, k, 1), tg |-> Route(h)]>>
  ELSE IF k = "tktdup" THEN
       LET i1 == MkIntent(p, h, "ok", 1)  i2 == MkIntent(p, h, "ok", 2)  t == TicketName(p, h, 1) IN
       <<[a |-> "submit", i |-> i1, tg |-> Route(h)], [a |-> "stage", i |-> i1, tg |-> Route(h), t |-> t],
         [a |-> "submit", i |-> i2, tg |-> Route(h)], [a |-> "stage", i |-> i2, tg |-> Route(h), t |-> t]>>
  ELSE IF k = "provgap" THEN OkLoad(p, h, 1, TicketName(p, h, 1)) \o <<[a |-> "provinject", w |-> h[1]]>>
  ELSE IF k = "tickmax" THEN OkLoad(p, h, 1, TicketName(p, h, 1)) \o <<[a |-> "tickmax", w |-> h[1], v |-> TRUE]>>
  ELSE IF k = "gtmax" THEN OkLoad(p, h, 1, TicketName(p, h, 1)) \o <<[a |-> "gtmax", v |-> TRUE]>>
  ELSE \* "dormant"
       OkLoad(p, h, 1, TicketName(p, h, 1)) \o <<[a |-> "elig", h |-> h, v |-> "dormant"]>>

RECURSIVE LoadOps(_, _)
LoadOps(p, k) ==
  IF k > Len(Canon) THEN <<>>
  ELSE LET h == Canon[k]
           here == IF sp # None /\ sp.pass = p /\ sp.head = h THEN SpecialLoad(p, h)
                   ELSE IF h \in BgHeads THEN OkLoad(p, h, 1, TicketName(p, h, 1))
                   ELSE <<>>
       IN here \o LoadOps(p, k + 1)

AfterTick(p) == IF sp # None /\ sp.pass = p /\ sp.kind = "dormant"
                THEN <<[a |-> "elig", h |-> sp.head, v |-> "admitted"]>> ELSE <<>>

RepairOps == IF sp = None THEN <<>>
             ELSE IF sp.kind \in IntentFaults THEN <<[a |-> "arm", v |-> FALSE]>>
             ELSE IF sp.kind = "provgap" THEN <<[a |-> "provrepair", w |-> sp.head[1]]>>
             ELSE IF sp.kind = "tickmax" THEN <<[a |-> "tickmax", w |-> sp.head[1], v |-> FALSE]>>
             ELSE IF sp.kind = "gtmax" THEN <<[a |-> "gtmax", v |-> FALSE]>>
             ELSE <<>>
ActiveFaults == {f \in 1..Len(faults) : faults[f].status = "active"}
RECURSIVE ResolveOps(_)
ResolveOps(F) == IF F = {} THEN <<>>
                 ELSE LET m == CHOOSE x \in F : \A y \in F : x <= y
                      IN <<[a |-> "resolve", f |-> m]>> \o ResolveOps(F \ {m})
RecoverOps(mode) ==
  IF mode = "none" THEN <<>>
  ELSE IF mode = "resolve" THEN ResolveOps(ActiveFaults)
  ELSE IF mode = "repair" THEN RepairOps \o ResolveOps(ActiveFaults)
  ELSE RepairOps \o ResolveOps(ActiveFaults) \o <<[a |-> "resolve", f |-> CHOOSE x \in ActiveFaults : \A y \in ActiveFaults : x <= y]>>

\* ---- export ---------------------------------------------------------------------------
TgJson(tg) == IF tg.t = "exact" THEN [t |-> "exact", h |-> HeadName(tg.h)] ELSE [t |-> tg.t, w |-> tg.w]
OpJson(op) ==
  IF op.a \in {"ingest", "submit"} THEN [a |-> op.a, i |-> IntentName(op.i), tg |-> TgJson(op.tg)]
  ELSE IF op.a = "stage" THEN [a |-> op.a, i |-> IntentName(op.i), tg |-> TgJson(op.tg), t |-> op.t]
  ELSE IF op.a = "elig" THEN [a |-> op.a, h |-> HeadName(op.h), v |-> op.v]
  ELSE op
ScopeJson(s) == IF s = None THEN "none" ELSE IF s = RuntimeScope THEN "runtime" ELSE HeadName(s[2])
StepJson(st) == [head |-> HeadName(st.head), n |-> st.n, tickAfter |-> st.tickAfter, gt |-> st.gt, rejected |-> st.rejected]
ResJson(r) ==
  IF r.act = "tick" THEN [ok |-> r.ok, err |-> r.err, scope |-> ScopeJson(r.scope),
                          failHead |-> IF r.failHead = None THEN "none" ELSE HeadName(r.failHead),
                          steps |-> [k \in 1..Len(r.steps) |-> StepJson(r.steps[k])],
                          keys |-> [k \in 1..Len(r.keys) |-> HeadName(r.keys[k])]]
  ELSE IF r.act \in {"ingest", "submit", "stage"} THEN [ok |-> r.ok, err |-> r.err, disp |-> r.disp,
                          head |-> IF r.head = None THEN "none" ELSE HeadName(r.head)]
  ELSE [ok |-> r.ok, err |-> r.err]
\* the model-visible projection of the state AFTER the action (primed variables)
ProjNext ==
  [tick |-> [w \in PresentWls |-> tick'[w]], tickMax |-> [w \in PresentWls |-> tickMax'[w]],
   gt |-> globalTick', gtMax |-> gtMax',
   prov |-> [w \in PresentWls |-> prov'[w]],
   pend |-> [k \in 1..Len(canon) |-> Cardinality(pending'[canon[k]])],
   comm |-> {[h |-> HeadName(c[1]), i |-> IntentName(c[2])] : c \in UNION {committed'[w] : w \in PresentWls}},
   events |-> UNION {{[w |-> w, i |-> IntentName(i)] : i \in events'[w]} : w \in PresentWls},
   faults |-> [f \in 1..Len(faults') |-> [scope |-> ScopeJson(faults'[f].scope), status |-> faults'[f].status]],
   faulted |-> {HeadName(h) : h \in {x \in PresentHeads : faultedHeads'[x] # 0}},
   rtFault |-> runtimeFault',
   corr |-> {[h |-> HeadName(c.sub[1]), i |-> IntentName(c.sub[2]), ta |-> c.ta, gt |-> c.gt] : c \in corr'},
   wpend |-> Cardinality(wpending'), staged |-> Cardinality(DOMAIN staged'), witnessed |-> Cardinality(witnessed'),
   runnable |-> LET R == {h \in PresentHeads : elig'[h] = "admitted" /\ faultedHeads'[h] = 0 /\ runtimeFault' = 0}
                    s == SortHeads(R) IN [k \in 1..Len(s) |-> HeadName(s[k])]]

\* ---- generator ---------------------------------------------------------------------------
Perform(op) ==
  CASE op.a = "ingest" -> Ingest(op.i, op.tg)
    [] op.a = "submit" -> Submit(op.i, op.tg)
    [] op.a = "stage" -> Stage(op.i, op.tg, op.t)
    [] op.a = "elig" -> SetEligibility(op.h, op.v)
    [] op.a = "arm" -> Arm(op.v)
    [] op.a = "tickmax" -> SetTickMax(op.w, op.v)
    [] op.a = "gtmax" -> SetGtMax(op.v)
    [] op.a = "provinject" -> ProvInject(op.w)
    [] op.a = "provrepair" -> ProvRepair(op.w)
    [] op.a = "tick" -> SuperTick
    [] op.a = "resolve" -> ResolveFault(op.f)

Exec ==
  /\ todo # <<>>
  /\ Perform(Head(todo))
  /\ hist' = Append(hist, [a |-> OpJson(Head(todo)), r |-> ResJson(last'), s |-> ProjNext])
  /\ todo' = Tail(todo)
  /\ UNCHANGED <<topo, bg, tkt, sp, canon, pass, phase>>

PlanLoad ==
  /\ todo = <<>> /\ phase = "load"
  /\ todo' = LoadOps(pass, 1) \o <<[a |-> "tick"]>> \o AfterTick(pass)
  /\ phase' = "recover"
  /\ UNCHANGED <<vars, topo, bg, tkt, sp, canon, pass, hist>>

LastTickFailed == \E k \in 1..Len(hist) : /\ hist[k].a.a = "tick" /\ ~hist[k].r.ok
                                          /\ \A j \in (k + 1)..Len(hist) : hist[j].a.a # "tick"
PlanRecover ==
  /\ todo = <<>> /\ phase = "recover"
  /\ IF pass = NP THEN phase' = "done" /\ todo' = <<>> /\ pass' = pass
     ELSE /\ phase' = "load" /\ pass' = pass + 1
          /\ IF LastTickFailed /\ ActiveFaults # {}
             THEN \E m \in RecoverModes : todo' = RecoverOps(m)
             ELSE todo' = <<>>
  /\ UNCHANGED <<vars, topo, bg, tkt, sp, canon, hist>>

MC_Init ==
  /\ topo \in Topos /\ bg \in BgModes /\ tkt \in TktModes
  /\ sp \in {None} \cup [pass : SpecialPasses, head : MC_Heads, kind : SpecialKinds]
  /\ (sp # None => Present(sp.head))
  /\ canon = SortHeads(PresentHeads)
  /\ pass = 1 /\ phase = "load" /\ todo = <<>> /\ hist = <<>>
  /\ elig = [h \in MC_Heads |-> IF Present(h) THEN "admitted" ELSE "absent"]
  /\ Init0

MC_Next == Exec \/ PlanLoad \/ PlanRecover
MC_Spec == MC_Init /\ [][MC_Next]_allvars

Done == phase = "done"
CaseJson == [topo |-> topo, bg |-> bg, tkt |-> tkt,
             sp |-> IF sp = None THEN [kind |-> "none"] ELSE [kind |-> sp.kind, pass |-> sp.pass, head |-> HeadName(sp.head)],
             heads |-> [k \in 1..Len(Canon) |-> HeadName(Canon[k])],
             hist |-> hist]
Inv_Export == (Export /\ Done) => PrintT(<<"CASE", ToJson(CaseJson)>>)

\* ---- topology sets for the cfg files (cfg files cannot contain tuples) ---------------------
Topos_tiny  == {<<2, 1>>}
Topos_quick == {<<1>>, <<2>>, <<1, 1>>, <<2, 1>>, <<1, 2, 1>>}
Topos_six1  == {<<4, 2>>}
Topos_six   == {<<4, 2>>, <<2, 2, 2>>}
Topos_all   == {<<1>>, <<2>>, <<3>>, <<4>>, <<1, 1>>, <<1, 2>>, <<2, 1>>, <<1, 3>>, <<1, 4>>, <<2, 2>>, <<2, 3>>, <<2, 4>>, <<4, 2>>,
                <<3, 3>>, <<1, 1, 1>>, <<1, 1, 2>>, <<1, 1, 3>>, <<1, 1, 4>>, <<1, 2, 2>>, <<1, 2, 3>>, <<3, 2, 1>>, <<2, 2, 2>>}
=============================================================================
