----------------------------- MODULE Scheduler -----------------------------
(***************************************************************************)
(* The reserve phase of a tick (Engine::reserve_for_receipt over the        *)
(* drained, canonically ordered candidates), for both scheduler kinds, and *)
(* the declarative law it must implement: the canonical greedy independent *)
(* set with exact blocking witnesses.                                      *)
(*                                                                         *)
(* `cands` is the drained sequence (ascending (scope hash, rule id) order);*)
(* each element is a footprint.  Receipt indices are 0-based in the code;  *)
(* here they are 1-based positions and converted on export.                *)
(***************************************************************************)
EXTENDS Footprint, Sequences

\* ---- declarative oracle -------------------------------------------------
\* GreedyAdmit(c)[i] = TRUE iff candidate i conflicts with no accepted j < i.
RECURSIVE GreedyRec(_, _, _)
GreedyRec(c, i, acc) ==
  IF i > Len(c) THEN acc
  ELSE LET ok == \A j \in 1..(i - 1) : acc[j] => ~Conflicts(c[i], c[j])
       IN GreedyRec(c, i + 1, Append(acc, ok))
GreedyAdmit(c) == GreedyRec(c, 1, <<>>)

\* exact blocking witnesses of a rejected candidate
Blockers(c, acc, i) == {j \in 1..(i - 1) : acc[j] /\ Conflicts(c[i], c[j])}

\* ---- the two implementations, one candidate per step --------------------
\* Radix: check against marks, then mark; a rejected candidate marks nothing.
RadixStep(marks, f) == IF HasConflict(marks, f) THEN [ok |-> FALSE, marks |-> marks]
                       ELSE [ok |-> TRUE, marks |-> MarkAll(marks, f)]
\* Legacy: pairwise independence against the frontier of accepted footprints.
LegacyStep(frontier, f) ==
  IF \E k \in 1..Len(frontier) : ~Independent(f, frontier[k])
  THEN [ok |-> FALSE, frontier |-> frontier]
  ELSE [ok |-> TRUE, frontier |-> Append(frontier, f)]

\* reserve_for_receipt's blocker attribution: prior RESERVED rewrites that footprints_conflict
AttributedBlockers(c, acc, i) == {j \in 1..(i - 1) : acc[j] /\ FootprintsConflict(c[i], c[j])}

\* masks are "sound" when any two conflicting candidates share a mask bit
MasksSound(c) == \A i, j \in 1..Len(c) : Conflicts(c[i], c[j]) => Meets(c[i].mask, c[j].mask)
=============================================================================
