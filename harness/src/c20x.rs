//! C20, second stage: causal-history export profiles of the WSC snapshot store
//! (`crates/warp-core/src/wsc/store.rs`): self-contained, CAS-addressed, reference-only.
//!
//! Input: `{"kind":"export","subs":[..],"mats":[..],"profile":"self"|"cas"|"ref",
//!          "tampers":[{"k":"withhold"|"corrupt","x":"seg"|"m0"|..}],"expect":"ok"|"err"}`
//! exported by TLC from spec/MC_C20x.tla (spec/CasExport.tla).
//!
//! For each case the harness builds a real filesystem WAL holding the source record set
//! (a base submission + one submission/tick pair per label in `subs`, one retained reading
//! per label in `mats`), projects its root, pushes the records through the export profile,
//! applies the tamper steps to the material the export references (embedded bytes for the
//! self-contained profile; the CAS - a real `MemoryTier`, a real `DiskTier` with file faults,
//! and a lying port - for the CAS-addressed profile) and re-imports with
//! `validate_wsc_*_wal_export`.  Decided here, independent of the model:
//!   * untampered: the import succeeds and returns exactly the source records / material
//!   * tampered  : the import (or the exporter) answers a typed error; a successful import
//!     whose content differs from the source is a violation
//!   * every envelope of an untampered export, byte-corrupted, decodes to a typed obstruction
//!     or makes the import fail; stored in a `FilesystemWscStore` with the file corrupted /
//!     truncated / deleted, `read_envelope` answers a typed obstruction or the same envelope.
//! The model's predicted outcome (`expect`) is compared as well; a difference with the property
//! intact is drift.

use std::collections::BTreeMap;
use std::path::{Path, PathBuf};
use std::sync::atomic::{AtomicU64, Ordering};

use echo_cas::{blob_hash, BlobHash, BlobStore, DiskTier, MemoryTier};
use serde::Deserialize;
use serde_json::{json, Value};
use warp_core::causal_wal::{
    build_recovery_certificate, build_retained_reading_transaction, build_submission_acceptance_transaction,
    build_tick_transaction, project_filesystem_wal_recovery, recover_filesystem_store, AffectedFrontier,
    AffectedFrontierKind, EvidenceMaterialPosture, FilesystemWalStore, Lsn, PayloadCodecId, PayloadSchemaId,
    ReadingRefRecord, RecoveryAccessMode, RetainedMaterialKind, RetainedMaterialRecord, SubmissionAcceptanceRecord,
    TickReceiptRecord, WalAppendAuthority, WalCommittedTransaction, WalDurabilityMode, WalManifest,
    WalReceiptCorrelationRecord, WalRecoveryProjectionPosture, WalRoot, WalSegmentId, WalStorePort, WalTickDecision,
    WalTransactionBuilder, WalTransactionId, WalTransactionKind, WalWriterEpoch, WriterEpochId, WriterEpochRequest,
};
use warp_core::wsc::{
    validate_wsc_cas_addressed_wal_export, validate_wsc_ref_only_wal_export, validate_wsc_self_contained_wal_export,
    wsc_cas_addressed_wal_export, wsc_ref_only_wal_export, wsc_self_contained_wal_export, FilesystemWscStore,
    WscCasAddressedRetainedMaterialReference, WscCasAddressedWalSegmentMaterial, WscCasBlobStorePort,
    WscSelfContainedRetainedMaterial, WscSelfContainedWalSegmentMaterial, WscStoreEnvelope, WscStorePort,
    WscWalCausalHistoryRecords,
};
use warp_core::{CausalTickReceiptRef, GlobalTick, Hash, WorldlineId, WorldlineTick};

use crate::util;

#[derive(Deserialize, Clone)]
struct Tamper {
    k: String,
    x: String,
}

#[derive(Deserialize)]
struct Case {
    subs: Vec<String>,
    mats: Vec<String>,
    profile: String,
    tampers: Vec<Tamper>,
    expect: String,
}

fn digest(label: &str) -> Hash {
    blake3::hash(label.as_bytes()).into()
}

fn epoch_id() -> WriterEpochId {
    WriterEpochId::from_hash(digest("epoch:1"))
}

fn builder(tx: &str, first_lsn: Lsn, authority: WalAppendAuthority, kind: WalTransactionKind) -> WalTransactionBuilder {
    WalTransactionBuilder::new(
        epoch_id(),
        WalSegmentId::from_raw(1),
        WalTransactionId::from_hash(digest(tx)),
        kind,
        authority,
        first_lsn,
        digest("previous-frame"),
        digest("previous-commit"),
        WalDurabilityMode::Buffered,
        PayloadCodecId::from_hash(digest("codec")),
        PayloadSchemaId::from_hash(digest("schema")),
        1,
        1,
        digest("domain"),
    )
}

fn frontier(kind: AffectedFrontierKind, before: &str, after: &str) -> AffectedFrontier {
    AffectedFrontier { kind, before_digest: digest(before), after_digest: digest(after) }
}

fn acceptance(label: &str) -> SubmissionAcceptanceRecord {
    SubmissionAcceptanceRecord {
        submission_id: digest(&format!("submission:{label}")),
        canonical_envelope_digest: digest(&format!("envelope:{label}")),
        idempotency_key_digest: None,
        acceptance_evidence_digest: digest(&format!("accepted-evidence:{label}")),
    }
}

fn receipt_ref(label: &str) -> CausalTickReceiptRef {
    CausalTickReceiptRef {
        worldline_id: WorldlineId::from_bytes(digest(&format!("worldline:{label}"))),
        worldline_tick_after: WorldlineTick::from_raw(1),
        commit_global_tick: GlobalTick::from_raw(1),
        commit_hash: digest(&format!("commit:{label}")),
        submission_id: digest(&format!("submission:{label}")),
        ticket_digest: digest(&format!("ticket:{label}")),
        receipt_content_digest: digest(&format!("receipt:{label}")),
    }
}

fn payload(label: &str, seed: u64) -> Vec<u8> {
    let mut hasher = blake3::Hasher::new();
    hasher.update(b"echo-verif/c20x/payload/");
    hasher.update(label.as_bytes());
    hasher.update(&seed.to_le_bytes());
    let len = 24 + (label.as_bytes().last().copied().unwrap_or(0) as usize % 7) * 11;
    let mut out = vec![0u8; len];
    hasher.finalize_xof().fill(&mut out);
    out
}

struct Source {
    root: WalRoot,
    segment_id: WalSegmentId,
    segment_bytes: Vec<u8>,
    acceptances: Vec<SubmissionAcceptanceRecord>,
    receipts: Vec<TickReceiptRecord>,
    correlations: Vec<WalReceiptCorrelationRecord>,
    materials: Vec<(String, RetainedMaterialRecord, Vec<u8>)>,
    readings: Vec<ReadingRefRecord>,
}

static DIR_N: AtomicU64 = AtomicU64::new(0);

fn scratch(tag: &str) -> PathBuf {
    let base = std::env::var("VERIF_C20_SCRATCH").unwrap_or_else(|_| "/verif/work/agent_c20/scratch".to_string());
    let p = Path::new(&base).join(format!("c20x_{}_{}_{}", std::process::id(), tag, DIR_N.fetch_add(1, Ordering::Relaxed)));
    let _ = std::fs::remove_dir_all(&p);
    p
}

fn next_lsn(tx: &WalCommittedTransaction) -> Result<Lsn, String> {
    tx.commit.last_lsn.checked_next().ok_or_else(|| "lsn overflow".to_string())
}

/// Builds a sealed, published filesystem WAL holding the record set and projects its root.
fn build_source(subs: &[String], mats: &[String], seed: u64) -> Result<Source, String> {
    let dir = scratch("wal");
    let e = |what: &str, err: String| format!("fixture: {what}: {err}");
    let mut store = FilesystemWalStore::open(&dir, WalSegmentId::from_raw(1)).map_err(|x| e("open", format!("{x:?}")))?;
    let writer_epoch = store
        .acquire_writer_epoch(WriterEpochRequest {
            epoch_id: epoch_id(),
            storage_fencing_token: digest("fencing"),
            process_identity: digest("process"),
            host_identity: digest("host"),
            started_at_lsn: Lsn::from_raw(0),
            previous_epoch_id: None,
            previous_epoch_final_commit_digest: None,
            lease_or_lock_evidence: digest("lease"),
        })
        .map_err(|x| e("acquire_writer_epoch", format!("{x:?}")))?;
    let mut acceptances = Vec::new();
    let mut receipts = Vec::new();
    let mut correlations = Vec::new();
    let mut materials = Vec::new();
    let mut readings = Vec::new();
    let mut lsn = Lsn::from_raw(0);
    let mut labels = vec!["base".to_string()];
    labels.extend(subs.iter().cloned());
    for l in &labels {
        let acc = acceptance(l);
        let tx = build_submission_acceptance_transaction(
            builder(&format!("tx:submission:{l}"), lsn, WalAppendAuthority::SubmissionIntake, WalTransactionKind::SubmissionIntake),
            acc,
            vec![frontier(AffectedFrontierKind::SubmissionQueue, &format!("queue:{l}:before"), &format!("queue:{l}:after"))],
        )
        .map_err(|x| e("build submission tx", format!("{x:?}")))?;
        lsn = next_lsn(&tx)?;
        store.append_transaction(tx).map_err(|x| e("append submission", format!("{x:?}")))?;
        let rec = TickReceiptRecord { receipt_ref: receipt_ref(l), decision: WalTickDecision::Applied };
        let cor = WalReceiptCorrelationRecord { receipt_ref: receipt_ref(l), causal_parent_receipts: Vec::new() };
        let tx = build_tick_transaction(
            builder(&format!("tx:tick:{l}"), lsn, WalAppendAuthority::TrustedScheduler, WalTransactionKind::SchedulerTick),
            rec,
            cor.clone(),
            digest(&format!("state-delta:{l}")),
            vec![
                frontier(AffectedFrontierKind::RuntimeState, &format!("state:{l}:before"), &format!("state:{l}:after")),
                frontier(AffectedFrontierKind::ReceiptIndex, &format!("receipt:{l}:before"), &format!("receipt:{l}:after")),
            ],
        )
        .map_err(|x| e("build tick tx", format!("{x:?}")))?;
        lsn = next_lsn(&tx)?;
        store.append_transaction(tx).map_err(|x| e("append tick", format!("{x:?}")))?;
        acceptances.push(acc);
        receipts.push(rec);
        correlations.push(cor);
    }
    for m in mats {
        let bytes = payload(m, seed);
        let coordinate = digest(&format!("coordinate:{m}"));
        let material = RetainedMaterialRecord {
            material_digest: blake3::hash(&bytes).into(),
            semantic_coordinate_digest: coordinate,
            kind: RetainedMaterialKind::ReadingPayload,
            posture: EvidenceMaterialPosture::Present,
        };
        let reading = ReadingRefRecord {
            reading_id: digest(&format!("reading:{m}")),
            semantic_coordinate_digest: coordinate,
            payload_digest: material.material_digest,
            envelope_digest: digest(&format!("reading-envelope:{m}")),
            posture: EvidenceMaterialPosture::Present,
        };
        let tx = build_retained_reading_transaction(
            builder(&format!("tx:reading:{m}"), lsn, WalAppendAuthority::TrustedScheduler, WalTransactionKind::SchedulerTick),
            std::slice::from_ref(&material),
            reading,
            vec![frontier(AffectedFrontierKind::ReadingIndex, &format!("reading:{m}:before"), &format!("reading:{m}:after"))],
        )
        .map_err(|x| e("build reading tx", format!("{x:?}")))?;
        lsn = next_lsn(&tx)?;
        store.append_transaction(tx).map_err(|x| e("append reading", format!("{x:?}")))?;
        materials.push((m.clone(), material, bytes));
        readings.push(reading);
    }
    store.seal_segment(epoch_id(), WalSegmentId::from_raw(1)).map_err(|x| e("seal", format!("{x:?}")))?;
    let segment_bytes = std::fs::read(store.segment_path()).map_err(|x| e("read segment", x.to_string()))?;
    let last = store.read_commits().last().cloned().ok_or_else(|| "fixture: no commits".to_string())?;
    store
        .publish_manifest(
            epoch_id(),
            WalManifest {
                manifest_digest: digest("c20x:manifest"),
                last_committed_lsn: Some(last.last_lsn),
                last_commit_digest: Some(last.commit_digest),
                sealed_segment_count: 1,
            },
        )
        .map_err(|x| e("publish_manifest", format!("{x:?}")))?;
    let report = recover_filesystem_store(&dir, RecoveryAccessMode::ReadOnly).map_err(|x| e("recover", format!("{x:?}")))?;
    let certificate = build_recovery_certificate(&report, None, 0, digest("c20x:frontier"), digest("c20x:indexes"));
    let we = WalWriterEpoch::from_writer_epoch(&writer_epoch);
    let projection = project_filesystem_wal_recovery(&dir, &report, std::slice::from_ref(&we), Some(&certificate));
    drop(store);
    let _ = std::fs::remove_dir_all(&dir);
    if projection.posture != WalRecoveryProjectionPosture::Present {
        return Err(format!("fixture: projection posture {:?}: {:?}", projection.posture, projection.obstructions));
    }
    let root = projection.root.ok_or_else(|| "fixture: no root".to_string())?;
    let segment_id = root.segments.first().map(|s| s.segment_id).ok_or_else(|| "fixture: root has no segment".to_string())?;
    Ok(Source { root, segment_id, segment_bytes, acceptances, receipts, correlations, materials, readings })
}

fn sorted_dbg<T: std::fmt::Debug>(v: &[T]) -> Vec<String> {
    let mut s: Vec<String> = v.iter().map(|x| format!("{x:?}")).collect();
    s.sort();
    s
}

/// Compares the imported record families with the source; returns the differing families.
fn record_diffs(
    src: &Source,
    acc: &[SubmissionAcceptanceRecord],
    rec: &[TickReceiptRecord],
    cor: &[WalReceiptCorrelationRecord],
    mats: &[RetainedMaterialRecord],
    readings: &[ReadingRefRecord],
) -> Vec<&'static str> {
    let mut d = Vec::new();
    if sorted_dbg(acc) != sorted_dbg(&src.acceptances) {
        d.push("accepted_submissions");
    }
    if sorted_dbg(rec) != sorted_dbg(&src.receipts) {
        d.push("receipts");
    }
    if sorted_dbg(cor) != sorted_dbg(&src.correlations) {
        d.push("correlations");
    }
    let src_mats: Vec<RetainedMaterialRecord> = src.materials.iter().map(|m| m.1).collect();
    if sorted_dbg(mats) != sorted_dbg(&src_mats) {
        d.push("retention.materials");
    }
    if sorted_dbg(readings) != sorted_dbg(&src.readings) {
        d.push("retention.readings");
    }
    d
}

fn records<'a>(src: &'a Source, mats: &'a [RetainedMaterialRecord]) -> WscWalCausalHistoryRecords<'a> {
    WscWalCausalHistoryRecords {
        retained_materials: mats,
        reading_refs: &src.readings,
        accepted_submissions: &src.acceptances,
        receipts: &src.receipts,
        correlations: &src.correlations,
        causal_anchors: &[],
    }
}

fn variant_name<E: std::fmt::Debug>(e: &E) -> String {
    let s = format!("{e:?}");
    s.split(|c: char| !(c.is_alphanumeric() || c == '_')).next().unwrap_or("").to_string()
}

/// Corrupts `bytes`: a bit flip at `pos` (length preserved), or, for `pos == usize::MAX`,
/// the last byte dropped (length changed).
fn flip(bytes: &[u8], pos: usize) -> Vec<u8> {
    let mut b = bytes.to_vec();
    if pos == usize::MAX {
        b.pop();
        return b;
    }
    if !b.is_empty() {
        let p = pos % b.len();
        b[p] ^= 0x20 | (1 << (p % 8));
    }
    b
}

/// Final status of every referenced blob after the tamper sequence.
fn statuses(case: &Case) -> BTreeMap<String, &'static str> {
    let mut st: BTreeMap<String, &'static str> = BTreeMap::new();
    st.insert("seg".to_string(), "ok");
    for m in &case.mats {
        st.insert(m.clone(), "ok");
    }
    for t in &case.tampers {
        st.insert(t.x.clone(), if t.k == "withhold" { "absent" } else { "corrupt" });
    }
    st
}

/// What one attempt produced.
enum Outcome {
    /// import succeeded; families whose content differs from the source
    Ok(Vec<&'static str>),
    /// typed error at export or import: (stage, variant)
    Err(&'static str, String),
}

struct MemPort<'a>(&'a MemoryTier);
impl WscCasBlobStorePort for MemPort<'_> {
    fn cas_blob_bytes(&self, content_hash: &Hash) -> Option<Vec<u8>> {
        self.0.get(&BlobHash::from_bytes(*content_hash)).map(|b| b.to_vec())
    }
}
struct DiskPort<'a>(&'a DiskTier);
impl WscCasBlobStorePort for DiskPort<'_> {
    fn cas_blob_bytes(&self, content_hash: &Hash) -> Option<Vec<u8>> {
        // a typed read error of the tier is absence for the importer
        self.0.get(&BlobHash::from_bytes(*content_hash)).ok().flatten().map(|b| b.to_vec())
    }
}
/// A CAS that answers whatever it was told to (models a store without read verification).
struct LyingPort(BTreeMap<Hash, Vec<u8>>);
impl WscCasBlobStorePort for LyingPort {
    fn cas_blob_bytes(&self, content_hash: &Hash) -> Option<Vec<u8>> {
        self.0.get(content_hash).cloned()
    }
}

fn run_self(src: &Source, st: &BTreeMap<String, &'static str>, pos: usize) -> Outcome {
    let seg: Vec<WscSelfContainedWalSegmentMaterial> = match st["seg"] {
        "ok" => vec![WscSelfContainedWalSegmentMaterial { segment_id: src.segment_id, segment_bytes: src.segment_bytes.clone() }],
        "corrupt" => vec![WscSelfContainedWalSegmentMaterial { segment_id: src.segment_id, segment_bytes: flip(&src.segment_bytes, pos) }],
        _ => vec![],
    };
    let mut payloads = Vec::new();
    for (l, m, bytes) in &src.materials {
        match st[l] {
            "ok" => payloads.push(WscSelfContainedRetainedMaterial { material: *m, material_bytes: bytes.clone() }),
            "corrupt" => payloads.push(WscSelfContainedRetainedMaterial { material: *m, material_bytes: flip(bytes, pos) }),
            _ => {}
        }
    }
    let mats: Vec<RetainedMaterialRecord> = src.materials.iter().map(|m| m.1).collect();
    let export = match wsc_self_contained_wal_export(&src.root, &seg, &payloads, records(src, &mats)) {
        Ok(x) => x,
        Err(e) => return Outcome::Err("export", variant_name(&e)),
    };
    import_self(src, &export)
}

fn import_self(src: &Source, export: &warp_core::wsc::WscSelfContainedWalExport) -> Outcome {
    match validate_wsc_self_contained_wal_export(export, &src.root) {
        Ok(imp) => {
            let mut d = record_diffs(src, &imp.accepted_submissions, &imp.receipts, &imp.correlations, &imp.retention.materials, &imp.retention.readings);
            let want: Vec<(RetainedMaterialRecord, Vec<u8>)> = src.materials.iter().map(|m| (m.1, m.2.clone())).collect();
            let got: Vec<(RetainedMaterialRecord, Vec<u8>)> = imp.retained_payloads.iter().map(|p| (p.material, p.material_bytes.clone())).collect();
            if sorted_dbg(&got) != sorted_dbg(&want) {
                d.push("retained_payloads");
            }
            let seg_ok = imp.segment_recoveries.len() == 1
                && src.root.segments.first().is_some_and(|s| imp.segment_recoveries[0].segment_digest == s.segment_digest && imp.segment_recoveries[0].segment_id == s.segment_id);
            if !seg_ok {
                d.push("segment_recoveries");
            }
            if imp.root_identity_digest != src.root.identity_digest() {
                d.push("root_identity_digest");
            }
            Outcome::Ok(d)
        }
        Err(e) => Outcome::Err("import", variant_name(&e)),
    }
}

fn cas_export(src: &Source) -> Result<warp_core::wsc::WscCasAddressedWalExport, String> {
    let seg = [WscCasAddressedWalSegmentMaterial {
        segment_id: src.segment_id,
        content_hash: *blob_hash(&src.segment_bytes).as_bytes(),
        semantic_coordinate_digest: digest("c20x:segment"),
        byte_len: src.segment_bytes.len() as u64,
    }];
    let refs: Vec<WscCasAddressedRetainedMaterialReference> = src
        .materials
        .iter()
        .map(|(_, m, bytes)| WscCasAddressedRetainedMaterialReference {
            material_kind: m.kind,
            content_hash: *blob_hash(bytes).as_bytes(),
            semantic_coordinate_digest: m.semantic_coordinate_digest,
            byte_len: bytes.len() as u64,
        })
        .collect();
    let mats: Vec<RetainedMaterialRecord> = src.materials.iter().map(|m| m.1).collect();
    wsc_cas_addressed_wal_export(&src.root, &seg, &refs, records(src, &mats)).map_err(|e| variant_name(&e))
}

fn cas_outcome<P: WscCasBlobStorePort>(src: &Source, export: &warp_core::wsc::WscCasAddressedWalExport, port: &P) -> Outcome {
    match validate_wsc_cas_addressed_wal_export(export, &src.root, port) {
        Ok(imp) => {
            let mut d = record_diffs(src, &imp.accepted_submissions, &imp.receipts, &imp.correlations, &imp.retention.materials, &imp.retention.readings);
            let mut want: Vec<Hash> = src.materials.iter().map(|m| *blob_hash(&m.2).as_bytes()).collect();
            want.sort();
            let mut got: Vec<Hash> = imp.cas_references.retained_materials.iter().map(|r| r.content_hash).collect();
            got.sort();
            if want != got {
                d.push("cas_references.retained_materials");
            }
            if imp.cas_references.segments.len() != 1 || imp.cas_references.segments[0].content_hash != *blob_hash(&src.segment_bytes).as_bytes() {
                d.push("cas_references.segments");
            }
            if imp.segment_recoveries.len() != 1 || src.root.segments.first().map(|s| s.segment_digest) != Some(imp.segment_recoveries[0].segment_digest) {
                d.push("segment_recoveries");
            }
            Outcome::Ok(d)
        }
        Err(e) => Outcome::Err("import", variant_name(&e)),
    }
}

/// (label, bytes) of every blob the CAS-addressed export references.
fn cas_blobs(src: &Source) -> Vec<(String, Vec<u8>)> {
    let mut v = vec![("seg".to_string(), src.segment_bytes.clone())];
    for (l, _, b) in &src.materials {
        v.push((l.clone(), b.clone()));
    }
    v
}

fn run_cas(src: &Source, st: &BTreeMap<String, &'static str>, pos: usize) -> Vec<(&'static str, Outcome)> {
    let export = match cas_export(src) {
        Ok(x) => x,
        Err(v) => return vec![("exporter", Outcome::Err("export", v))],
    };
    let mut out = Vec::new();
    // (a) the real memory tier; a corrupt blob cannot be expressed there, use the lying port for it
    let mut mem = MemoryTier::new();
    let mut lying = BTreeMap::new();
    let any_corrupt = st.values().any(|s| *s == "corrupt");
    for (l, bytes) in cas_blobs(src) {
        match st[&l] {
            "ok" => {
                mem.put(&bytes);
                lying.insert(*blob_hash(&bytes).as_bytes(), bytes.clone());
            }
            "corrupt" => {
                lying.insert(*blob_hash(&bytes).as_bytes(), flip(&bytes, pos));
            }
            _ => {}
        }
    }
    if any_corrupt {
        out.push(("lying-port", cas_outcome(src, &export, &LyingPort(lying))));
    } else {
        out.push(("memory-tier", cas_outcome(src, &export, &MemPort(&mem))));
    }
    // (b) the real disk tier: withhold = never stored / file deleted, corrupt = byte flipped in the file
    let dir = scratch("cas");
    if let Ok(disk) = DiskTier::open(&dir) {
        for (l, bytes) in cas_blobs(src) {
            let h = match disk.put(&bytes) {
                Ok(h) => h,
                Err(_) => continue,
            };
            let hex = util::hex32(h.as_bytes());
            let file = dir.join("blobs").join(&hex[..2]).join(&hex);
            match st[&l] {
                "corrupt" => {
                    let _ = std::fs::write(&file, flip(&bytes, pos));
                }
                "absent" => {
                    let _ = std::fs::remove_file(&file);
                }
                _ => {}
            }
        }
        out.push(("disk-tier", cas_outcome(src, &export, &DiskPort(&disk))));
    }
    let _ = std::fs::remove_dir_all(&dir);
    out
}

fn run_ref(src: &Source) -> Outcome {
    let mats: Vec<RetainedMaterialRecord> = src.materials.iter().map(|m| m.1).collect();
    let export = match wsc_ref_only_wal_export(&src.root, records(src, &mats)) {
        Ok(x) => x,
        Err(e) => return Outcome::Err("export", variant_name(&e)),
    };
    match validate_wsc_ref_only_wal_export(&export, &src.root) {
        Ok(imp) => {
            let mut d = record_diffs(src, &imp.accepted_submissions, &imp.receipts, &imp.correlations, &imp.retention.materials, &imp.retention.readings);
            if imp.segment_dependencies.len() != src.root.segments.len()
                || imp.segment_dependencies.first().map(|s| s.segment_digest) != src.root.segments.first().map(|s| s.segment_digest)
            {
                d.push("segment_dependencies");
            }
            Outcome::Ok(d)
        }
        Err(e) => Outcome::Err("import", variant_name(&e)),
    }
}

/// Byte-corrupts every envelope of an untampered export: decode must be a typed obstruction
/// (or give back the same envelope); stored in a FilesystemWscStore with the file damaged,
/// read_envelope must be a typed obstruction or the same envelope.
fn envelope_sweep(
    envelopes: &[(&'static str, &WscStoreEnvelope)],
    reimport: &dyn Fn(&str, WscStoreEnvelope) -> Outcome,
    viol: &mut Vec<(String, String)>,
    evals: &mut u64,
) {
    for (name, env) in envelopes {
        let bytes = env.encode();
        let n = bytes.len();
        let mut positions: Vec<usize> = vec![0, 7, 8, 9, 10, 40, 100, 123, 124, n / 2, n - 1];
        positions.extend((0..n).step_by((n / 23).max(1)));
        for p in positions {
            if p >= n {
                continue;
            }
            *evals += 1;
            let mut b = bytes.clone();
            b[p] ^= 1 << (p % 8);
            match WscStoreEnvelope::decode(&b) {
                Err(_) => {}
                Ok(e2) => {
                    // an envelope on its own carries no anchor for its basis digest / kind: the
                    // importer must refuse it (or the imported content must still equal the source)
                    if &e2 != *env {
                        if let Outcome::Ok(diffs) = reimport(name, e2) {
                            if !diffs.is_empty() {
                                viol.push(("export_envelope_corruption_imported".to_string(), format!("{name} envelope: flipping bit {} of byte {p}/{n} decodes Ok and the import succeeds with different content {diffs:?}", p % 8)));
                            }
                        }
                    }
                }
            }
        }
        for cut in [0usize, 1, 8, 123, 124, n / 2, n - 1] {
            if cut < n {
                *evals += 1;
                if let Ok(e2) = WscStoreEnvelope::decode(&bytes[..cut]) {
                    if &e2 != *env {
                        if let Outcome::Ok(diffs) = reimport(name, e2) {
                            if !diffs.is_empty() {
                                viol.push(("export_envelope_truncation_imported".to_string(), format!("{name} envelope truncated to {cut}/{n} decodes Ok and imports with different content {diffs:?}")));
                            }
                        }
                    }
                }
            }
        }
        // through the filesystem store
        let dir = scratch("wscstore");
        if let Ok(mut store) = FilesystemWscStore::open(&dir) {
            if let Ok(receipt) = store.write_envelope((*env).clone()) {
                let id = receipt.envelope_id;
                let path = store.envelope_path(id);
                let marker = store.commit_marker_path(id);
                let orig = std::fs::read(&path).unwrap_or_default();
                let morig = std::fs::read(&marker).unwrap_or_default();
                let mut probes: Vec<(String, Box<dyn Fn()>)> = Vec::new();
                for p in [0usize, 9, orig.len() / 2, orig.len().saturating_sub(1)] {
                    let (pa, o) = (path.clone(), orig.clone());
                    probes.push((format!("envelope file bit flip at {p}"), Box::new(move || {
                        let mut b = o.clone();
                        if p < b.len() {
                            b[p] ^= 4;
                        }
                        let _ = std::fs::write(&pa, b);
                    })));
                }
                let (pa, o) = (path.clone(), orig.clone());
                probes.push(("envelope file truncated".to_string(), Box::new(move || {
                    let _ = std::fs::write(&pa, &o[..o.len() / 2]);
                })));
                let pa = path.clone();
                probes.push(("envelope file deleted".to_string(), Box::new(move || {
                    let _ = std::fs::remove_file(&pa);
                })));
                let (ma, mo) = (marker.clone(), morig.clone());
                probes.push(("commit marker bit flip".to_string(), Box::new(move || {
                    let mut b = mo.clone();
                    let p = b.len() / 2;
                    if p < b.len() {
                        b[p] ^= 4;
                    }
                    let _ = std::fs::write(&ma, b);
                })));
                let ma = marker.clone();
                probes.push(("commit marker deleted".to_string(), Box::new(move || {
                    let _ = std::fs::remove_file(&ma);
                })));
                for (what, apply) in probes {
                    *evals += 1;
                    apply();
                    if let Ok(got) = store.read_envelope(id) {
                        if &got != *env {
                            viol.push(("wsc_store_returned_damaged_envelope".to_string(), format!("{name} envelope, {what}: read_envelope answered Ok with different content")));
                        }
                    }
                    let _ = std::fs::write(&path, &orig);
                    let _ = std::fs::write(&marker, &morig);
                }
                match store.read_envelope(id) {
                    Ok(got) if &got == *env => {}
                    other => viol.push(("wsc_store_roundtrip".to_string(), format!("{name} envelope: restored store answers {:?}", other.map(|_| "different envelope").map_err(|o| format!("{:?}", o.kind))))),
                }
            }
        }
        let _ = std::fs::remove_dir_all(&dir);
    }
}

pub struct XStats {
    pub attempts: u64,
    pub envelope_evals: u64,
}

pub struct Sources {
    cache: BTreeMap<(Vec<String>, Vec<String>), Result<std::sync::Arc<Source>, String>>,
}

impl Sources {
    pub fn new() -> Self {
        Self { cache: BTreeMap::new() }
    }
    fn get(&mut self, subs: &[String], mats: &[String], seed: u64) -> Result<std::sync::Arc<Source>, String> {
        let key = (subs.to_vec(), mats.to_vec());
        self.cache
            .entry(key)
            .or_insert_with(|| match util::catch(|| build_source(subs, mats, seed)) {
                Ok(Ok(s)) => Ok(std::sync::Arc::new(s)),
                Ok(Err(e)) => Err(e),
                Err(p) => Err(format!("fixture panicked: {p}")),
            })
            .clone()
    }
}

pub fn run_case(i: usize, v: &Value, seed: u64, sources: &mut Sources, stats: &mut XStats) -> Value {
    let case: Case = match serde_json::from_value(v.clone()) {
        Ok(c) => c,
        Err(e) => {
            eprintln!("case {i}: cannot decode export case: {e}");
            std::process::exit(2)
        }
    };
    let mut subs = case.subs.clone();
    subs.sort();
    let mut mats = case.mats.clone();
    mats.sort();
    let src = match sources.get(&subs, &mats, seed) {
        Ok(s) => s,
        Err(e) => {
            // the WAL fixture is harness machinery: not being able to build it is tool trouble
            eprintln!("case {i}: {e}");
            std::process::exit(2)
        }
    };
    let st = statuses(&case);
    let tampered = st.values().any(|s| *s != "ok") && case.profile != "ref";
    let mut viol: Vec<(String, String)> = Vec::new();
    let mut drift: Vec<String> = Vec::new();
    let positions: Vec<usize> = if tampered && st.values().any(|s| *s == "corrupt") { vec![0, 3, 17, 64, 1_000_003, usize::MAX] } else { vec![0] };
    let r = util::catch(|| {
        let mut attempts: Vec<(String, Outcome)> = Vec::new();
        for pos in &positions {
            match case.profile.as_str() {
                "self" => attempts.push((format!("self@{pos}"), run_self(&src, &st, *pos))),
                "cas" => {
                    for (port, o) in run_cas(&src, &st, *pos) {
                        attempts.push((format!("cas/{port}@{pos}"), o));
                    }
                }
                _ => attempts.push(("ref".to_string(), run_ref(&src))),
            }
        }
        attempts
    });
    let attempts = match r {
        Ok(a) => a,
        Err(p) => return json!({"i": i, "v": "violation", "kind": "export_panic", "detail": format!("panic in code under test: {p}")}),
    };
    let mut errors_seen: Vec<String> = Vec::new();
    for (what, o) in &attempts {
        stats.attempts += 1;
        match o {
            Outcome::Ok(diffs) => {
                if tampered {
                    // referenced material was withheld / altered: the property demands a typed error
                    let what_t: Vec<String> = case.tampers.iter().map(|t| format!("{} {}", t.k, t.x)).collect();
                    if diffs.is_empty() {
                        viol.push((format!("export_{}_tamper_not_detected", case.profile), format!("{what}: import succeeded although referenced material was tampered ({what_t:?}); imported records equal the source")));
                    } else {
                        viol.push((format!("export_{}_imported_tampered_material", case.profile), format!("{what}: import succeeded with different content ({diffs:?}) after {what_t:?}")));
                    }
                } else if !diffs.is_empty() {
                    viol.push((format!("export_{}_roundtrip_differs", case.profile), format!("{what}: untampered export re-imports to different records: {diffs:?}")));
                }
                if case.expect != "ok" && !tampered {
                    drift.push(format!("{what}: model predicted err, import Ok"));
                }
            }
            Outcome::Err(stage, variant) => {
                errors_seen.push(format!("{what}:{stage}:{variant}"));
                if !tampered {
                    viol.push((format!("export_{}_roundtrip_failed", case.profile), format!("{what}: untampered {stage} failed with {variant}")));
                }
            }
        }
        let got = if matches!(o, Outcome::Ok(_)) { "ok" } else { "err" };
        if got != case.expect && drift.len() < 3 && viol.is_empty() {
            drift.push(format!("{what}: outcome {got}, model predicted {}", case.expect));
        }
    }
    // byte-level damage of every envelope of the untampered exports (once per source and profile)
    if !tampered && case.tampers.is_empty() {
        let mats_rec: Vec<RetainedMaterialRecord> = src.materials.iter().map(|m| m.1).collect();
        let r = util::catch(|| {
            let mut v = Vec::new();
            let mut n = 0u64;
            match case.profile.as_str() {
                "self" => {
                    let seg = [WscSelfContainedWalSegmentMaterial { segment_id: src.segment_id, segment_bytes: src.segment_bytes.clone() }];
                    let pl: Vec<WscSelfContainedRetainedMaterial> = src.materials.iter().map(|m| WscSelfContainedRetainedMaterial { material: m.1, material_bytes: m.2.clone() }).collect();
                    if let Ok(x) = wsc_self_contained_wal_export(&src.root, &seg, &pl, records(&src, &mats_rec)) {
                        let re = |name: &str, e2: WscStoreEnvelope| -> Outcome {
                            let mut y = x.clone();
                            match name {
                                "projection" => y.projection_envelope = e2,
                                "segment_material" => y.segment_material_envelope = e2,
                                "retained_material" => y.retained_material_envelope = e2,
                                "retention" => y.retention_envelope = e2,
                                "accepted_submission" => y.accepted_submission_envelope = e2,
                                _ => y.receipt_correlation_envelope = e2,
                            }
                            import_self(&src, &y)
                        };
                        envelope_sweep(
                            &[
                                ("projection", &x.projection_envelope),
                                ("segment_material", &x.segment_material_envelope),
                                ("retained_material", &x.retained_material_envelope),
                                ("retention", &x.retention_envelope),
                                ("accepted_submission", &x.accepted_submission_envelope),
                                ("receipt_correlation", &x.receipt_correlation_envelope),
                            ],
                            &re,
                            &mut v,
                            &mut n,
                        );
                    }
                }
                "cas" => {
                    if let Ok(x) = cas_export(&src) {
                        let mut mem = MemoryTier::new();
                        for (_, bytes) in cas_blobs(&src) {
                            mem.put(&bytes);
                        }
                        let re = |name: &str, e2: WscStoreEnvelope| -> Outcome {
                            let mut y = x.clone();
                            match name {
                                "projection" => y.projection_envelope = e2,
                                "cas_reference" => y.cas_reference_envelope = e2,
                                "retention" => y.retention_envelope = e2,
                                "accepted_submission" => y.accepted_submission_envelope = e2,
                                _ => y.receipt_correlation_envelope = e2,
                            }
                            cas_outcome(&src, &y, &MemPort(&mem))
                        };
                        envelope_sweep(
                            &[
                                ("projection", &x.projection_envelope),
                                ("cas_reference", &x.cas_reference_envelope),
                                ("retention", &x.retention_envelope),
                                ("accepted_submission", &x.accepted_submission_envelope),
                                ("receipt_correlation", &x.receipt_correlation_envelope),
                            ],
                            &re,
                            &mut v,
                            &mut n,
                        );
                    }
                }
                _ => {}
            }
            (v, n)
        });
        match r {
            Ok((v, n)) => {
                stats.envelope_evals += n;
                viol.extend(v);
            }
            Err(p) => viol.push(("export_panic".to_string(), format!("panic during envelope sweep: {p}"))),
        }
    }
    if let Some((k, d)) = viol.first() {
        return json!({"i": i, "v": "violation", "kind": k, "detail": d, "all": viol.iter().map(|x| x.0.clone()).collect::<Vec<_>>(), "drift": drift});
    }
    if !drift.is_empty() {
        return json!({"i": i, "v": "drift", "detail": drift, "errors": errors_seen});
    }
    json!({"i": i, "v": "ok", "errors": errors_seen})
}
