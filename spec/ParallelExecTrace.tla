-------------------------- MODULE ParallelExecTrace --------------------------
(***************************************************************************)
(* Trace validation of REAL racing worker threads (execute_work_queue,     *)
(* unscripted).  The claim hook records, per worker, the units it claimed  *)
(* in its own claim order (a per-worker sequence; no wall clock).          *)
(* A run is: run(workers, units), claims(w, units)*, end(same).            *)
(* Accepted iff the claim logs are a behaviour of ParallelExec's Claim     *)
(* action - every unit 0..U-1 claimed exactly once, each worker's claims   *)
(* strictly increasing (the shared counter only grows) - and the committed *)
(* outcome was bit-identical to the one-worker run.                        *)
(***************************************************************************)
EXTENDS Naturals, Sequences, FiniteSets, TLC, Json, IOUtils

Rec == ndJsonDeserialize(IOEnv.TRACE)

VARIABLES l, units, seen, nclaimed
vars == <<l, units, seen, nclaimed>>

IsEvent(e) == l <= Len(Rec) /\ Rec[l].event = e /\ l' = l + 1
Increasing(s) == \A k \in 1..(Len(s) - 1) : s[k] < s[k + 1]
SeqSet(s) == {s[k] : k \in 1..Len(s)}

Init == l = 1 /\ units = 0 /\ seen = {} /\ nclaimed = 0
TRun == IsEvent("run") /\ units' = Rec[l].units /\ seen' = {} /\ nclaimed' = 0
TClaims == /\ IsEvent("claims")
           /\ Increasing(Rec[l].units)
           /\ SeqSet(Rec[l].units) \cap seen = {}
           /\ \A u \in SeqSet(Rec[l].units) : u < units
           /\ seen' = seen \cup SeqSet(Rec[l].units)
           /\ nclaimed' = nclaimed + Len(Rec[l].units)
           /\ UNCHANGED units
TEnd == /\ IsEvent("end")
        /\ Cardinality(seen) = units /\ nclaimed = units
        /\ Rec[l].same = TRUE
        /\ UNCHANGED <<units, seen, nclaimed>>
Next == TRun \/ TClaims \/ TEnd
Spec == Init /\ [][Next]_vars

Accepted ==
  LET d == TLCGet("stats").diameter
  IN IF d - 1 = Len(Rec) THEN TRUE
     ELSE Print(<<"REJECTED_AT", d, IF d <= Len(Rec) THEN Rec[d].event ELSE "eof">>, FALSE)
=============================================================================
