SPECIFICATION Spec
CONSTANTS
  Warps = {"w0"}
  Nodes = {"n0", "n1", "n2"}
  Edges = {"e0", "e1"}
  Types = {"tA", "tB"}
  Atoms = {"p0", "p1"}
  RankW <- MC_RankW
  RankN <- MC_RankN
  RankE <- MC_RankE
  Prog <- MC_Prog
  KeyRank <- MC_KeyRank
  Root <- MC_Root
  CandU <- MC_CandU_life
  AbortSets <- MC_AbortSets_one
  MaxTicks = 3
  MaxCands = 2
  MaxAborts = 1
  MaxJumps = 0
  PreNames = {"edges"}
  Export = FALSE
  None = None
INVARIANTS Inv_SliceDefs Inv_SliceWeak Inv_Unproduced
PROPERTIES Prop_AbortNoTrace
CHECK_DEADLOCK FALSE
