"""C17, filesystem leg (keys `fs:`) - the external-action lifecycle over the REAL `FilesystemWalStore` with a PHYSICAL crash.

MC : spec/ExtActionFs.tla EXTENDS ExtAction.tla: the durable log becomes a byte-level object (every frame FrameLen bytes, every
     commit marker MarkLen bytes); CrashAt(o) keeps, of the transaction in flight, the byte prefix o for EVERY o between the
     synced and the written length (torn frame, complete frame without marker, torn marker, complete marker that was never
     acknowledged), CrashIdle between two steps; the fresh process: Scan (read-only tail posture Clean / WouldTruncateAfter /
     WouldTruncateAll + the bare coordinator's answer - refusal only for a COMPLETE uncommitted frame, as built), Repair
     (writable recovery: truncate to the last complete committed transaction), FsRecover, then Record/Claim/Settle/Retry go on.
     Invariants: the 13 of ExtAction that do not concern store faults, lifted to the cut log, plus Inv_FsDurableBeforeReturn,
     Inv_FsCommittedPrefix (recovered index / root / outstanding grants == the uninterrupted run cut at the last commit marker
     ending at or before the crash offset), Inv_FsNoHalfApplied, Inv_FsIdempotent, Inv_FsBareRefusesTail, Inv_FsShape.
     thorough: a two-crash configuration (invariants only, history hidden by VIEW) and two model mutants (a torn marker counts
     as committed; repair drops one transaction too many) that TLC must REJECT.
RP : every exported behaviour (operations, crash cut as (transaction, frame|marker, class 0 / 1 byte / middle / all-but-one /
     complete), predicted posture, refusal, result classes and postures after recovery and after each later operation) is run by
     harness/src/c17fs.rs as three real processes over one directory under work/c17fs/: live run with the real segment lengths
     recorded after every store call, the crash = the directory as it was before the interrupted operation with the segment cut
     at the REAL byte the class maps to, the fresh process (read-only scan twice, bare coordinator recovery, writable repair
     twice, fresh writer epoch, coordinator recovery, the remaining operations, final recovery by yet another process).
     The harness decides the property on the real outcome (recovered coordinator == live coordinator after the last transaction
     whose marker ends at or before the cut; every returned authority reconstructible; <= 1 claim grant per request across the
     crash; gap-free LSNs; retry == retained settlement); differences from the model that keep it are drift.
BP : bare path - when the coordinator ACCEPTS a directory whose read-only scan is not clean, the harness goes on without the repair (fresh
     writer epoch, one lawful operation); if that operation returns its authority, the next stop + prescribed recovery must reconstruct
     it and everything acknowledged before, else fs:bare_recover_accepts_torn_tail:ack_lost|log_unreadable (finding F17).  A refusal is
     lawful.  Model: AsBuiltBareRecover (default FALSE = repaired law); MC_C17fs_asbuilt_bare.cfg keeps the counterexample (thorough).
SW : byte sweep - scripted lifecycles cut at EVERY byte offset of the segment (quick: a stride, all record boundaries +-1).
"""
import concurrent.futures
import json
import os
import time

from lib import *

P = "fs:"
RUNS = {"quick": ["MC_C17fs_quick.cfg"], "thorough": ["MC_C17fs_thorough.cfg"]}
INV_ONLY = {"thorough": ["MC_C17fs_two.cfg"]}
MUTANTS = ["MC_C17fs_mut_torn.cfg", "MC_C17fs_mut_deep.cfg"]
ASBUILT = ("MC_C17fs_asbuilt_bare.cfg", "Inv_FsBareRefusesTail")     # finding F17: the counterexample TLC must keep finding
BARE = "bare_recover_accepts_torn_tail"
SWEEPS = {"quick": [("life", 24), ("interleaved", 61), ("unknown", 83)],
          "thorough": [("life", 1), ("interleaved", 2), ("unknown", 3)]}
PROCS = 4
QUICK_STRIDE = 3


def _split(binp, tag, cases, timeout):
    n = max(1, min(PROCS, len(cases) // 200 or 1))
    size = (len(cases) + n - 1) // n
    chunks = [c for c in (cases[k * size:(k + 1) * size] for k in range(n)) if c]

    def one(k):
        cin = write_ndjson(os.path.join(WORK, f"{tag}.{k}.cases"), chunks[k])
        cout = os.path.join(WORK, f"{tag}.{k}.results")
        harness(binp, ["c17fs", cin, cout], timeout=timeout)
        res = read_ndjson(cout)
        if len(res) != len(chunks[k]):
            raise ToolError("c17fs: harness result count mismatch")
        return res

    with concurrent.futures.ThreadPoolExecutor(max_workers=len(chunks)) as ex:
        parts = list(ex.map(one, range(len(chunks))))
    return [r for part in parts for r in part]


def _crash_step(case):
    for st in case.get("steps", []):
        if st[0] == "crash":
            return st
    return None


def run_leg(ck, binp, tier, replay=None):
    t_leg = time.time()
    if replay:
        obj = json.load(open(replay))["case"]
        if obj.get("leg") != "fs":
            return
        cases = obj.get("cases", [])
        results = _split(binp, "c17fs_replay", cases, 3600) if cases else []
        for c, r in zip(cases, results):
            if r["verdict"] == "tool_error":
                raise ToolError(f"c17fs harness: {r.get('detail')}")
            if r["verdict"] == "violation":
                for kind in (r.get("by_kind") or {r["kind"]: 0}):
                    ck.violation(f"{P}{'sweep:' if 'sweep' in c else ''}{kind}", (r.get("by_kind", {}).get(kind) or {}).get("detail") or r.get("detail", ""),
                                 {"leg": "fs", "cases": [c], "result": {k: v for k, v in r.items() if k != "by_kind"}})
        ck.cov["fs"] = {"replayed": len(cases)}
        return

    spec_mutants = {}
    stats = {"behaviours": 0, "cuts_by_class": {}, "tails": {}, "refused": 0, "repairs": 0, "continued_runs": 0, "continued_ops": 0,
             "drift": 0, "bare_accepted_unclean_tail": 0, "torn_cuts": 0, "roots": 0}
    seen = {}
    drift_samples = []

    # ---- byte sweeps run beside TLC (separate processes, I/O bound)
    def sweeps():
        out = []
        with concurrent.futures.ThreadPoolExecutor(max_workers=3) as ex:
            def one(ns):
                name, stride = ns
                cin = write_ndjson(os.path.join(WORK, f"c17fs_sweep_{name}.cases"), [{"sweep": name, "stride": stride}])
                cout = os.path.join(WORK, f"c17fs_sweep_{name}.results")
                t0 = time.time()
                harness(binp, ["c17fs", cin, cout], timeout=7200)
                r = read_ndjson(cout)
                if len(r) != 1:
                    raise ToolError(f"c17fs sweep {name}: no result")
                return name, stride, r[0], time.time() - t0
            out = list(ex.map(one, SWEEPS[tier]))
        return out

    def mc(cfg, export=True):
        return tlc("MC_C17fs", cfg, workers=6 if tier == "thorough" else 4, timeout=3600, tags=("CASE",) if export else ("NONE",),
                   out_name=f"c17fs_{cfg.replace('.cfg', '')}", heap="8g")

    with concurrent.futures.ThreadPoolExecutor(max_workers=2) as pool:
        fsw = pool.submit(sweeps)
        model_runs = []
        for cfg in RUNS[tier]:
            res = mc(cfg)
            ck.add_tlc(res)
            if res.violation:
                ck.violation(f"{P}spec:{cfg}:{res.violation}", "TLC invariant violated on the filesystem-leg model:\n" + res.error_text[:3000],
                             {"leg": "fs_spec", "cfg": cfg, "invariant": res.violation, "trace": res.error_text[:20000]})
                continue
            if not res.lines:
                raise ToolError(f"{cfg}: nothing exported")
            model_runs.append((cfg, [c for _, c in res.lines], res))
            res.lines = []
        for cfg in INV_ONLY.get(tier, []):
            res = mc(cfg, export=False)
            ck.add_tlc(res)
            if res.violation:
                ck.violation(f"{P}spec:{cfg}:{res.violation}", "TLC invariant violated on the filesystem-leg model:\n" + res.error_text[:3000],
                             {"leg": "fs_spec", "cfg": cfg, "invariant": res.violation, "trace": res.error_text[:20000]})
            elif res.distinct == 0:
                raise ToolError(f"{cfg}: no states")
            stats.setdefault("invariant_only_runs", {})[cfg] = {"states": res.distinct}
        if tier == "thorough":
            for cfg in MUTANTS:
                res = tlc("MC_C17fs", cfg, workers=4, timeout=900, tags=("NONE",), out_name=f"c17fs_{cfg.replace('.cfg', '')}")
                spec_mutants[cfg] = res.violation
                if not res.violation:
                    raise ToolError(f"the model mutant {cfg} satisfies every invariant of ExtActionFs.tla: the properties are vacuous")
            res = tlc("MC_C17fs", ASBUILT[0], workers=4, timeout=900, tags=("NONE",), out_name=f"c17fs_{ASBUILT[0].replace('.cfg', '')}")
            spec_mutants[ASBUILT[0]] = res.violation
            if res.violation != ASBUILT[1]:
                raise ToolError(f"{ASBUILT[0]} (bare coordinator recovery as built before the repair: a torn partial record is not refused) no longer "
                                f"violates {ASBUILT[1]} (TLC reported {res.violation}): the as-built counterexample of F17 is lost")

        # ---- model behaviours into the real store
        per_cfg = {}
        for cfg, cases, res in model_runs:
            exported = len(cases)
            if tier == "quick":
                # quick replays a seeded third of the exported behaviours (TLC checked all of them); the export order interleaves
                # scripts, cuts and continuations, and the guards below require every cut class; thorough replays everything
                cases.sort(key=lambda c: json.dumps(c, sort_keys=True))          # TLC's print order depends on worker scheduling
                cases = cases[seed() % QUICK_STRIDE::QUICK_STRIDE]
            t0 = time.time()
            results = _split(binp, f"c17fs_{cfg.replace('.cfg', '')}", cases, 7200)
            log(f"[c17fs] {cfg}: {len(cases)} behaviours replayed in {time.time() - t0:.1f}s")
            per_cfg[cfg] = {"behaviours": len(cases), "exported": exported, "states": res.distinct, "tlc_s": round(res.wall, 1), "replay_s": round(time.time() - t0, 1)}
            roots = set()
            for c, r in zip(cases, results):
                stats["behaviours"] += 1
                if r["verdict"] == "tool_error":
                    raise ToolError(f"c17fs harness: {r.get('detail')}")
                cr = _crash_step(c) or ["crash", "?", "?", "?", 0, "?", "?", 0, 0]
                cls = f"{cr[5]}:{cr[6]}"
                if r["verdict"] == "violation":
                    key = f"{P}{r['kind']}"
                    seen[key] = seen.get(key, 0) + 1
                    if seen[key] <= 2:
                        ci = c["steps"].index(cr) if cr in c["steps"] else 0
                        pre = [st[1:4] for st in c["steps"][:ci] if st[0] == "op"]
                        ck.violation(key, f"{cfg}: after {json.dumps(pre)} crash of {cr[1]} {cr[2]} at {cls} (byte {r.get('info', {}).get('cut')}): {r.get('detail')}"[:3000],
                                     {"leg": "fs", "cfg": cfg, "script": pre + [cr[1:4]], "byte_offset": r.get("info", {}).get("cut"), "cases": [c], "result": r})
                    if not all(k.startswith(BARE) for k in r.get("all", [r["kind"]])) or "tail" not in r:
                        continue
                    stats["bare_path_violations"] = stats.get("bare_path_violations", 0) + 1          # the prescribed path is still accounted below
                stats["cuts_by_class"][cls] = stats["cuts_by_class"].get(cls, 0) + 1
                if cr[6] in ("1", "middle", "all_but_one"):
                    stats["torn_cuts"] += 1
                stats["tails"][r["tail"]] = stats["tails"].get(r["tail"], 0) + 1
                stats["refused"] += 1 if r["refused"] else 0
                stats["repairs"] += 1 if r["repaired"] else 0
                if r["continued"]:
                    stats["continued_runs"] += 1
                    stats["continued_ops"] += r["continued"]
                if r["tail"] != "clean" and r["bare"] == "Ok":
                    stats["bare_accepted_unclean_tail"] += 1
                if r.get("norepair"):
                    k = r["norepair"]
                    stats.setdefault("no_repair_probe", {})[k] = stats.get("no_repair_probe", {}).get(k, 0) + 1
                roots.add(r.get("root"))
                if r["verdict"] == "drift":
                    other = [d for d in r["drift"] if not d.startswith("bare coordinator recovery")]
                    if not other:
                        stats["drift_bare_answer_only"] = stats.get("drift_bare_answer_only", 0) + 1          # as-built vs repaired bare answer (F17)
                        continue
                    stats["drift"] += 1
                    if len(drift_samples) < 4:
                        drift_samples.append({"cfg": cfg, "steps": c["steps"], "drift": other[:3]})
            stats["roots"] += len(roots)
            if cases:
                mid = cases[len(cases) // 2]
                ck.sample({"fs_cfg": cfg, "steps": mid["steps"]}, limit=6)
        sweep_res = fsw.result()

    sw_cov = {}
    sw_offsets = sw_refused = sw_cont = 0
    for name, stride, r, secs in sweep_res:
        if r["verdict"] == "tool_error":
            raise ToolError(f"c17fs sweep {name}: {r.get('detail')}")
        if r["verdict"] == "violation":
            kinds = r.get("by_kind") or {r["kind"]: {"detail": r.get("detail"), "offset": None}}
            for kind, w in kinds.items():
                key = f"{P}sweep:{kind}"
                seen[key] = seen.get(key, 0) + 1
                only = {"only": [w["offset"]]} if w.get("offset") is not None else {"stride": stride}
                ck.violation(key, f"byte sweep {name} ({r.get('by_kind_count', {}).get(kind, 1)} cuts): {w.get('detail')}"[:3000],
                             {"leg": "fs", "script": name, "byte_offset": w.get("offset"), "cases": [dict({"sweep": name}, **only)],
                              "result": {k: v for k, v in r.items() if k != "by_kind"}})
            if not all(k.startswith(BARE) for k in kinds) or "sweep" not in r:
                continue
        s = r["sweep"]
        sw_cov[name] = dict(s, stride=stride, segment_bytes=r["info"]["seg_len"], record_bounds=r["info"]["bounds"], seconds=round(secs, 1))
        sw_offsets += s["offsets"]
        sw_refused += s["refused"]
        sw_cont += s["continued_ops"]
        log(f"[c17fs] sweep {name}: {s['offsets']} cuts of a {r['info']['seg_len']}-byte segment (stride {stride}) in {secs:.1f}s")

    if not seen:
        if stats["behaviours"] == 0 or stats["torn_cuts"] == 0 or stats["refused"] == 0 or stats["continued_runs"] == 0 or stats["repairs"] == 0:
            raise ToolError(f"c17fs: vacuous replay: {stats}")
        if sw_offsets == 0 or sw_refused == 0 or sw_cont == 0:
            raise ToolError(f"c17fs: vacuous byte sweep: {sw_cov}")
        want = {"frame:0", "frame:1", "frame:middle", "frame:all_but_one", "frame:complete", "marker:1", "marker:middle", "marker:all_but_one",
                "marker:complete", "-:idle"}
        missing = sorted(want - set(stats["cuts_by_class"]))
        if missing:
            raise ToolError(f"c17fs: no behaviour with a cut of class {missing}")

    ck.cov["traces_validated_against_impl"] += stats["behaviours"]
    ck.cov["evaluations"] += stats["behaviours"] + sw_offsets
    ck.cov["distinct_nontrivial"] += stats["torn_cuts"]
    ck.cov["rule"] += ("; filesystem leg: every behaviour of %s (one crash at every abstract byte offset of the interrupted transaction, then "
                       "scan / repair / recover and PostOps more operations) on the real FilesystemWalStore, plus byte sweeps %s (script, stride); "
                       "non-trivial = the cut tears a record" % (RUNS[tier], SWEEPS[tier]))
    stats["per_cfg"] = per_cfg
    stats["byte_sweeps"] = sw_cov
    stats["byte_sweep_offsets"] = sw_offsets
    stats["unclean_tails_refused"] = stats["refused"] + sw_refused
    stats["model_mutants_rejected_by"] = spec_mutants
    stats["violation_keys"] = dict(seen)
    stats["seconds"] = round(time.time() - t_leg, 1)
    ck.cov["fs"] = stats
    accepted = stats["bare_accepted_unclean_tail"] + sum(v["bare_accepted_unclean"] for v in sw_cov.values())
    if accepted:
        nr = dict(stats.get("no_repair_probe", {}))
        for v in sw_cov.values():
            for k, n in v.get("norepair", {}).items():
                nr[k] = nr.get(k, 0) + n
        ck.notes.append({"fs_observation": "unclean (torn-record) tails the bare ExternalActionCoordinatorV1::recover accepted; decided by the bare path "
                         f"(keys {P}{BARE}:ack_lost|log_unreadable)", "accepted_unclean_tails": accepted, "bare_path_outcomes": nr})
    if stats["drift"]:
        ck.notes.append({"fs_model_drift": f"{stats['drift']} behaviours where the real store / coordinator deviates from ExtActionFs.tla while the property holds",
                         "samples": drift_samples})
        log(f"[c17fs] DRIFT in {stats['drift']} behaviours, e.g. {json.dumps(drift_samples[:1])[:600]}")
    log(f"[c17fs] filesystem leg: {stats['behaviours']} behaviours, {sw_offsets} sweep cuts, {time.time() - t_leg:.1f}s")
    ck.assumptions += [
        "filesystem leg: one active segment (segment 1), 2 request ids, one argument variant per operation in the model (the byte sweeps use ok2 / s2 / "
        "rej / fail / unk and 3 ids); the crash is a process stop that keeps a byte prefix of the segment not shorter than the last synced commit marker "
        "(no reordering of sectors, no corruption inside the kept prefix); the writer-epoch ledger is the one on disk before the interrupted "
        "operation (the sweeps also take the ledger written after it when the cut is exactly a transaction boundary)",
        "filesystem leg: the fresh process follows the host's order (recover_filesystem_store(Writable), acquire_fresh_writer_epoch at the recovered "
        "continuation, ExternalActionCoordinatorV1::recover); authorities after recovery are the ones reconstructed by recorded_request / claim_grant",
        "filesystem leg: the reference for 'the uninterrupted run' is the live coordinator cloned after every operation (C17's main leg ties that "
        "to recovery from the store)",
    ]
