SPECIFICATION Spec
CONSTANTS
  None = None
  Subs = {s1, s2}
  s1 = s1
  s2 = s2
  MaxTx = 3
  MaxFrames = 1
  MaxCycles = 2
  RewriteAtomic = TRUE
  EpochGapRepaired = FALSE
  Mutant = "none"
  Repaired = FALSE
SYMMETRY SubSymmetry
INVARIANTS
  Inv_AckedSurvive Inv_PublishedSurvive Inv_RecoverSucceeds Inv_LogAlwaysRecoverable Inv_ScanIsOracle Inv_RecoveredIsCommittedPrefix Inv_NoPartialTransactionVisible Inv_RecoverIdempotent Inv_RetryAfterRecoveryIsDuplicate Inv_ExactlyOnce Inv_LedgerCoexists
CHECK_DEADLOCK FALSE
