------------------------------ MODULE MC_C11 ------------------------------
(***************************************************************************)
(* C11 instance of Wal.tla: a committed log A of NT transactions x NF      *)
(* frames (and a second log B with the same LSNs and different content),   *)
(* ONE corruption edit, then the transcribed recovery scan.                *)
(*                                                                         *)
(* Every initial state is one edit (kind x record x region / position).    *)
(* Property: Recover(corrupted) is an error or a PREFIX (identity and      *)
(* content) of the committed history.                                      *)
(* With Repaired = FALSE the scan is the code as built; each case is       *)
(* exported with the predicted class per entry point and decided on the    *)
(* real bytes by the harness (c11.rs).  With Repaired = TRUE (chain        *)
(* fields compared, first LSN pinned, commit markers chained) the property *)
(* is an invariant of the model.                                           *)
(***************************************************************************)
EXTENDS Wal, Json

CONSTANTS NT, NF, Export

VARIABLE e
allv == <<vars, e>>

LogA == BuildLog("A", NT, NF, 1)
LogB == BuildLog("B", NT, NF, 1)
N == Len(LogA)

Ed(k, i, j, t, region) == [k |-> k, i |-> i, j |-> j, t |-> t, region |-> region]
Edits ==
       {Ed("damage", i, 0, 0, r) : i \in 1..N, r \in Regions}
  \cup {Ed("truncate", b, 0, 0, "-") : b \in 0..(Bytes(LogA) - 1)}
  \cup {Ed("delete", i, 0, 0, "-") : i \in 1..N}
  \cup {Ed("duplicate", i, j, 0, "-") : i \in 1..N, j \in 1..N}
  \cup {Ed("swap", i, 0, 0, "-") : i \in 1..(N - 1)}
  \cup {Ed("transplant", i, 0, 0, "-") : i \in 1..N}
  \cup {Ed("transplant_tx", 0, 0, t, "-") : t \in 1..NT}
  \cup {Ed("delete_tx", 0, 0, t, "-") : t \in 1..NT}

Init11 == Init /\ e \in Edits
Next11 == UNCHANGED allv
Spec11 == Init11 /\ [][Next11]_allv

Corrupted == ApplyEdit(LogA, LogB, e)
Out(path) == Scan(Corrupted, path)
ClassOf(path) == Class(LogA, Out(path))

\* the property on the model
Inv_C11 == \A path \in {"bytes", "fs"} : ClassOf(path) \in {"err", "prefix"}

HJson(h) == [i \in 1..Len(h) |-> [src |-> h[i].src, tx |-> h[i].tx]]
CaseJson ==
  [e |-> e,
   pred |-> [bytes |-> ClassOf("bytes"), fs |-> ClassOf("fs")],
   hist |-> [bytes |-> HJson(Out("bytes").h), fs |-> HJson(Out("fs").h)],
   nt |-> NT, nf |-> NF]
Inv_Export == Export => PrintT(<<"CASE", ToJson(CaseJson)>>)
=============================================================================
