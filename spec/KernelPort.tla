------------------------------ MODULE KernelPort ------------------------------
(***************************************************************************)
(* The host-facing kernel port: `WarpKernel` (the engine-backed            *)
(* `KernelPort` + `TrustedKernelControlPort` implementation) as the host   *)
(* sees it - one action per entry point.                                   *)
(*                                                                         *)
(* Transcribed from                                                        *)
(*   crates/warp-wasm/src/warp_kernel.rs                                   *)
(*       WarpKernel::{with_engine, dispatch_intent, apply_control_intent,  *)
(*       dispatch_control_intent_trusted, current_work_state,              *)
(*       refresh_scheduler_status, clear_active_run_state,                 *)
(*       scheduler_status, observe, current_head}                          *)
(*   crates/echo-wasm-abi/src/kernel_port.rs                               *)
(*       SchedulerStatus, SchedulerState, WorkState, RunCompletion,        *)
(*       DispatchResponse, ControlIntentV1, error_codes                    *)
(*   crates/warp-core/src/coordinator.rs                                   *)
(*       WorldlineRuntime::{ingest, set_head_eligibility},                 *)
(*       SchedulerCoordinator::super_tick (what one cycle does)            *)
(*                                                                         *)
(* Topology (as `with_engine` builds it, there is no way to change it      *)
(* through the port): ONE worldline, ONE writer head "default" with        *)
(* InboxPolicy::AcceptAll, which is also the worldline's default writer.   *)
(* Every port call takes `&mut self`: one call = one critical section =    *)
(* one action.  `Start` runs its whole loop of scheduler passes inside the *)
(* call, so the loop is a state function here (Loop), one unfolding per    *)
(* cycle.                                                                  *)
(*                                                                         *)
(* Relation to Runtime.tla: Runtime.tla is the general runtime (many       *)
(* worldlines / heads / policies / tickets / restart, 24 variables).  With *)
(* one AcceptAll head its SuperTick degenerates to "the head is runnable   *)
(* and something is pending => ONE commit of the whole pending SET, else   *)
(* an empty pass; either way the global tick advances; a failure restores  *)
(* everything and records a fault (panic => runtime-wide, typed engine     *)
(* error => the head is quarantined)".  That degenerate pass is written    *)
(* out below (Pass) instead of instantiating Runtime.tla; the pass itself  *)
(* is bound to the code by the C09 main leg, the port layer by this leg.   *)
(*                                                                         *)
(* Behaviour classes of an application intent (BehOf), by the rule the     *)
(* host installed for its op id:                                           *)
(*   "ok"    an honest command rule matches: committed with an effect      *)
(*   "none"  no rule matches: still committed (the ingress event is        *)
(*           materialised, the tick advances), no further effect           *)
(*   "panic" the executor panics: super_tick restores the pass, records a  *)
(*           runtime-wide fault and RE-RAISES the panic through            *)
(*           apply_control_intent (the run state is left as it was)        *)
(*   "badop" footprint-honest but inapplicable op: typed                   *)
(*           EngineError::InternalCorruption, head-scoped fault            *)
(* Dispatch inputs that never reach ingress (BadInputs): "malformed" (not  *)
(* an EINT envelope), "control" (the reserved control op id),              *)
(* "import_malformed" (import-suffix op id with an undecodable payload).   *)
(***************************************************************************)
EXTENDS Naturals, Sequences, FiniteSets, TLC

CONSTANTS
  Intents,       \* application intents (identity = their bytes)
  BehOf(_),      \* intent -> behaviour class
  BadInputs,     \* subset of {"malformed", "control", "import_malformed"}
  DupMode,       \* "code" | "reenqueue"    model mutant: a retry of a committed intent is enqueued again
  LimitMode,     \* "code" | "off_by_one"   model mutant: the run stops one cycle after the limit
  RunnableMode,  \* "code" | "ignore_elig"  model mutant: a dormant head is still scheduled
  None

VARIABLES
  pending,      \* SUBSET Intents           the default head's inbox (a set keyed by ingress id)
  committed,    \* SUBSET Intents           committed-ingress ledger of the worldline
  hist,         \* Seq of [batch, gt, wt]   provenance of the worldline: one entry per commit
  wtick,        \* Nat                      frontier tick of the worldline
  gtick,        \* Nat                      runtime.global_tick
  elig,         \* "admitted" | "dormant"   eligibility of the default head
  headFault,    \* BOOLEAN                  the default head is quarantined (head-scoped scheduler fault)
  rtFault,      \* BOOLEAN                  a runtime-wide scheduler fault is active
  wit,          \* Seq of Intents           witnessed submissions in generation order (generation = index)
  st,           \* SchedulerStatus          [state, mode, work, run, cyc, com, quies, done]
  nextRun,      \* Nat                      next_run_id
  usedRuns,     \* history: run ids handed out so far
  commitCount,  \* history: [Intents -> Nat] how often an intent was committed
  hung,         \* BOOLEAN                  the last call never returns (unbounded Start that cannot make progress)
  prev,         \* history: the state before the last call
  last          \* the response of the last call

core == <<pending, committed, hist, wtick, gtick, elig, headFault, rtFault, wit, st, nextRun>>
vars == <<core, usedRuns, commitCount, hung, prev, last>>

Snapshot == [pending |-> pending, committed |-> committed, hist |-> hist, wtick |-> wtick, gtick |-> gtick,
             elig |-> elig, headFault |-> headFault, rtFault |-> rtFault, wit |-> wit, st |-> st,
             nextRun |-> nextRun, usedRuns |-> usedRuns, commitCount |-> commitCount]

Range(f) == {f[x] : x \in DOMAIN f}
IndexOf(s, x) == CHOOSE k \in 1..Len(s) : s[k] = x

\* ---- scheduler status (warp_kernel.rs) ------------------------------------------------------------
\* option_abi_global_tick: tick 0 is reported as "none"
Opt(g) == IF g = 0 THEN None ELSE g

\* current_work_state: looks at eligibility and the inbox only (NOT at fault quarantine)
WorkState(p, e) == IF e = "admitted" /\ p # {} THEN "runnable_pending"
                   ELSE IF p # {} THEN "blocked_only" ELSE "quiescent"

\* refresh_scheduler_status
Refresh(s, p, e, g) == [s EXCEPT !.work = WorkState(p, e), !.cyc = Opt(g)]

\* clear_active_run_state(clear_run_id)
ClearRun(s, clearId, p, e, g) ==
  Refresh([s EXCEPT !.state = "inactive", !.mode = None, !.run = IF clearId THEN None ELSE @], p, e, g)

InitStatus == [state |-> "inactive", mode |-> None, work |-> "quiescent", run |-> None,
               cyc |-> None, com |-> None, quies |-> None, done |-> None]

\* ---- one scheduler cycle = SchedulerCoordinator::super_tick on the one-head topology ---------------
\* S = the part of the kernel a pass works on
Work == [pending |-> pending, committed |-> committed, hist |-> hist, wtick |-> wtick, gtick |-> gtick,
         headFault |-> headFault, rtFault |-> rtFault, log |-> <<>>]

HeadRunnable(S, e) == (RunnableMode = "ignore_elig" \/ e = "admitted") /\ ~S.headFault     \* refresh_runnable

Pass(S, e) ==
  IF S.rtFault THEN [kind |-> "err", S |-> S, n |-> 0]                                      \* SchedulerRuntimeFaultActive
  ELSE IF ~HeadRunnable(S, e) \/ S.pending = {}
       THEN [kind |-> "ok", S |-> [S EXCEPT !.gtick = @ + 1], n |-> 0]                      \* empty pass: the global tick still advances
  ELSE IF \E i \in S.pending : BehOf(i) = "panic"
       THEN [kind |-> "panic", S |-> [S EXCEPT !.rtFault = TRUE], n |-> 0]                  \* restore ; runtime fault ; resume_unwind
  ELSE IF \E i \in S.pending : BehOf(i) = "badop"
       THEN [kind |-> "err", S |-> [S EXCEPT !.headFault = TRUE], n |-> 0]                  \* restore ; head fault ; Err
  ELSE [kind |-> "ok", n |-> 1,
        S |-> [S EXCEPT !.pending = {}, !.committed = @ \cup S.pending,
                        !.hist = Append(@, [batch |-> S.pending, gt |-> S.gtick + 1, wt |-> S.wtick + 1]),
                        !.wtick = @ + 1, !.gtick = @ + 1, !.log = Append(@, S.pending)]]

LimitHit(c, limit) == IF LimitMode = "off_by_one" THEN c > limit ELSE c >= limit

\* the loop of apply_control_intent(Start); stop conditions in the code's order:
\*   Quiescent  >  (no records /\ BlockedOnly)  >  cycle limit
\* s = scheduler status as the loop has updated it so far
RECURSIVE Loop(_, _, _, _, _, _)
Loop(S, s, e, limit, cycles, commits) ==
  LET r == Pass(S, e) IN
  IF r.kind = "err" THEN
    [kind |-> "err", S |-> r.S, s |-> ClearRun(s, TRUE, r.S.pending, e, r.S.gtick), cycles |-> cycles, commits |-> commits]
  ELSE IF r.kind = "panic" THEN
    [kind |-> "panic", S |-> r.S, s |-> s, cycles |-> cycles, commits |-> commits]
  ELSE
    LET s1 == Refresh(s, r.S.pending, e, r.S.gtick)
        s2 == IF r.n > 0 THEN [s1 EXCEPT !.com = Opt(r.S.gtick)] ELSE s1
        c  == cycles + 1
        k  == commits + r.n
        fin(sx) == [kind |-> "done", S |-> r.S, s |-> ClearRun(sx, FALSE, r.S.pending, e, r.S.gtick), cycles |-> c, commits |-> k]
    IN IF s2.work = "quiescent" THEN fin([s2 EXCEPT !.quies = Opt(r.S.gtick), !.done = "quiesced"])
       ELSE IF r.n = 0 /\ s2.work = "blocked_only" THEN fin([s2 EXCEPT !.done = "blocked_only"])
       ELSE IF limit # None /\ LimitHit(c, limit) THEN fin([s2 EXCEPT !.done = "cycle_limit_reached"])
       ELSE IF limit = None /\ r.n = 0
            \* an empty pass that did not end the run leaves everything but the global tick as it was: with no
            \* cycle limit the loop never terminates (quarantined head with pending work: work_state stays
            \* RunnablePending because current_work_state ignores the quarantine)
            THEN [kind |-> "diverges", S |-> S, s |-> s, cycles |-> cycles, commits |-> commits]
       ELSE Loop(r.S, s2, e, limit, c, k)

RECURSIVE BagAdd(_, _)
BagAdd(B, seq) == IF seq = <<>> THEN B
                  ELSE BagAdd([i \in Intents |-> IF i \in Head(seq) THEN B[i] + 1 ELSE B[i]], Tail(seq))

\* ---- responses -------------------------------------------------------------------------------------
\* DispatchResponse / AbiError as the host sees them; `status` is the status carried by the response
\* (an error carries none: None)
Resp(act, arg, ok, err, extra) == [act |-> act, arg |-> arg, ok |-> ok, err |-> err] @@ extra
NoChange == UNCHANGED <<core, usedRuns, commitCount, hung>>
Refuse(act, arg, err) == /\ last' = Resp(act, arg, FALSE, err, [status |-> None]) /\ NoChange

(***************************************************************************)
(* dispatch_intent                                                         *)
(***************************************************************************)
Gen(w, i) == IndexOf(w, i)
Dispatch(x) ==
  /\ ~hung /\ prev' = Snapshot
  /\ IF x \in BadInputs THEN
       Refuse("dispatch", x, IF x = "control" THEN "FORBIDDEN_CONTROL_INTENT" ELSE "INVALID_INTENT")
     ELSE IF (x \in committed /\ DupMode = "code") \/ x \in pending THEN       \* ingest: ledger first, then the inbox
       LET s == Refresh(st, pending, elig, gtick) IN
       /\ st' = s
       /\ last' = Resp("dispatch", x, TRUE, "", [accepted |-> FALSE, id |-> x, gen |-> Gen(wit, x), status |-> s])
       /\ UNCHANGED <<pending, committed, hist, wtick, gtick, elig, headFault, rtFault, wit, nextRun, usedRuns, commitCount, hung>>
     ELSE
       LET p == pending \cup {x}
           w == IF x \in Range(wit) THEN wit ELSE Append(wit, x)               \* record_witnessed_submission is idempotent
           s == Refresh(st, p, elig, gtick) IN
       /\ pending' = p /\ wit' = w /\ st' = s
       /\ last' = Resp("dispatch", x, TRUE, "", [accepted |-> TRUE, id |-> x, gen |-> Gen(w, x), status |-> s])
       /\ UNCHANGED <<committed, hist, wtick, gtick, elig, headFault, rtFault, nextRun, usedRuns, commitCount, hung>>

(***************************************************************************)
(* dispatch_control_intent_trusted(Start { UntilIdle { cycle_limit } })    *)
(***************************************************************************)
Install(S) == /\ pending' = S.pending /\ committed' = S.committed /\ hist' = S.hist /\ wtick' = S.wtick
              /\ gtick' = S.gtick /\ headFault' = S.headFault /\ rtFault' = S.rtFault
              /\ commitCount' = BagAdd(commitCount, S.log)

Start(limit) ==
  /\ ~hung /\ prev' = Snapshot
  /\ IF st.state \in {"running", "stopping"} THEN Refuse("start", limit, "INVALID_CONTROL")     \* "scheduler is already active"
     ELSE IF limit = 0 THEN Refuse("start", limit, "INVALID_CONTROL")                            \* "cycle_limit must be non-zero"
     ELSE
       LET s0 == Refresh([st EXCEPT !.state = "running", !.mode = [limit |-> limit], !.run = nextRun, !.done = None],
                         pending, elig, gtick)
           r  == Loop(Work, s0, elig, limit, 0, 0)
           x  == [cycles |-> r.cycles, commits |-> r.commits, run |-> nextRun]
       IN /\ nextRun' = nextRun + 1 /\ usedRuns' = usedRuns \cup {nextRun}
          /\ Install(r.S) /\ st' = r.s
          /\ UNCHANGED <<elig, wit>>
          /\ hung' = (r.kind = "diverges")
          /\ last' = CASE r.kind = "done"  -> Resp("start", limit, TRUE, "", x @@ [accepted |-> TRUE, status |-> r.s])
                       [] r.kind = "err"   -> Resp("start", limit, FALSE, "ENGINE_ERROR", x @@ [status |-> None])
                       [] r.kind = "panic" -> Resp("start", limit, FALSE, "PANIC", x @@ [status |-> None])
                       [] OTHER            -> Resp("start", limit, FALSE, "DIVERGES", x @@ [status |-> None])

(***************************************************************************)
(* dispatch_control_intent_trusted(Stop)                                   *)
(***************************************************************************)
Stop ==
  /\ ~hung /\ prev' = Snapshot
  /\ LET s == IF st.state = "inactive" THEN Refresh(st, pending, elig, gtick)
              ELSE ClearRun([st EXCEPT !.done = "stopped"], FALSE, pending, elig, gtick) IN
     /\ st' = s
     /\ last' = Resp("stop", None, TRUE, "", [accepted |-> TRUE, status |-> s])
     /\ UNCHANGED <<pending, committed, hist, wtick, gtick, elig, headFault, rtFault, wit, nextRun, usedRuns, commitCount, hung>>

(***************************************************************************)
(* dispatch_control_intent_trusted(SetHeadEligibility { head, e })         *)
(***************************************************************************)
SetElig(h, e) ==
  /\ ~hung /\ prev' = Snapshot
  /\ IF h # "default" THEN Refuse("elig", <<h, e>>, "INVALID_CONTROL")                           \* RuntimeError::UnknownHead
     ELSE LET s == Refresh(st, pending, e, gtick) IN
          /\ elig' = e /\ st' = s
          /\ last' = Resp("elig", <<h, e>>, TRUE, "", [accepted |-> TRUE, status |-> s])
          /\ UNCHANGED <<pending, committed, hist, wtick, gtick, headFault, rtFault, wit, nextRun, usedRuns, commitCount, hung>>

(***************************************************************************)
(* scheduler_status / observe(frontier head) / registry_info: &self        *)
(***************************************************************************)
HeadView == [wt |-> wtick, cgt |-> IF hist = <<>> THEN None ELSE hist[Len(hist)].gt, n |-> Len(hist)]
Read(k) ==
  /\ ~hung /\ prev' = Snapshot
  /\ last' = Resp("read", k, TRUE, "", [status |-> st, head |-> HeadView])
  /\ NoChange

Init0 ==
  /\ pending = {} /\ committed = {} /\ hist = <<>> /\ wtick = 0 /\ gtick = 0 /\ elig = "admitted"
  /\ headFault = FALSE /\ rtFault = FALSE /\ wit = <<>> /\ st = InitStatus /\ nextRun = 1
  /\ usedRuns = {} /\ commitCount = [i \in Intents |-> 0] /\ hung = FALSE
  /\ last = [act |-> "init", arg |-> None, ok |-> TRUE, err |-> "", status |-> InitStatus]
  /\ prev = Snapshot

(***************************************************************************)
(* Properties (C09 / C08 as seen through the port)                         *)
(***************************************************************************)
IsStart == last.act = "start" /\ "cycles" \in DOMAIN last
Unchanged(S) == /\ pending = S.pending /\ committed = S.committed /\ hist = S.hist /\ wtick = S.wtick
                /\ gtick = S.gtick /\ elig = S.elig /\ headFault = S.headFault /\ rtFault = S.rtFault
                /\ wit = S.wit /\ st = S.st /\ nextRun = S.nextRun /\ usedRuns = S.usedRuns
                /\ commitCount = S.commitCount
IsPrefix(a, b) == Len(a) <= Len(b) /\ \A k \in 1..Len(a) : a[k] = b[k]

\* C09: the global tick advances by exactly one per completed cycle, the worldline tick and the provenance
\* by exactly one per committing cycle, and nothing advances outside a run
TicksAdvanceOnlyByCycles ==
  IF IsStart
  THEN /\ gtick = prev.gtick + last.cycles
       /\ wtick = prev.wtick + last.commits
       /\ Len(hist) = Len(prev.hist) + last.commits
       /\ last.commits <= last.cycles
       /\ \A k \in (Len(prev.hist) + 1)..Len(hist) :
            /\ hist[k].wt = k /\ hist[k].gt > prev.gtick /\ hist[k].gt <= gtick
            /\ (k > 1 => hist[k].gt > hist[k - 1].gt)
  ELSE gtick = prev.gtick /\ wtick = prev.wtick
\* committed history is append-only, and only a run appends
HistoryAppendOnly == /\ IsPrefix(prev.hist, hist) /\ prev.committed \subseteq committed
                     /\ (~IsStart => (hist = prev.hist /\ committed = prev.committed))
                     /\ Len(hist) = wtick
\* C08: at most once, whatever is retried whenever
AtMostOnce == \A i \in Intents : commitCount[i] <= 1
LedgerIsLog == /\ committed = {i \in Intents : commitCount[i] > 0}
               /\ committed = UNION {hist[k].batch : k \in 1..Len(hist)}
               /\ pending \cap committed = {}
\* a duplicate dispatch changes nothing and answers with the identity of the first submission
DuplicateChangesNothing ==
  (last.act = "dispatch" /\ last.ok /\ ~last.accepted) =>
     /\ Unchanged(prev)
     /\ last.arg \in Range(prev.wit) /\ last.gen = IndexOf(prev.wit, last.arg) /\ last.id = last.arg
     /\ (last.arg \in prev.pending \/ last.arg \in prev.committed)
AcceptedIsNew ==
  (last.act = "dispatch" /\ last.ok /\ last.accepted) =>
     /\ last.arg \notin prev.pending /\ last.arg \notin prev.committed
     /\ pending = prev.pending \cup {last.arg}
\* what a run commits is the pending SET (arrival order and retries are not part of the state at all)
RunCommitsPendingSet ==
  (IsStart /\ last.commits > 0) =>
     /\ last.commits = 1
     /\ hist[Len(hist)].batch = prev.pending /\ prev.pending # {}
     /\ pending = {}
\* run ids strictly increase and are never reused
RunIdsFresh ==
  /\ nextRun >= prev.nextRun
  /\ \A r \in usedRuns : r < nextRun
  /\ (st.run # None => st.run \in usedRuns)
  /\ (IsStart => (last.run \notin prev.usedRuns /\ last.run = prev.nextRun /\ nextRun = prev.nextRun + 1))
  /\ (~IsStart => (nextRun = prev.nextRun /\ usedRuns = prev.usedRuns))
\* after Start returns: inactive, completion consistent with the work state
StartCompletionConsistent ==
  (IsStart /\ last.ok) =>
     /\ st.state = "inactive" /\ st.mode = None /\ st.run = last.run /\ st.done # None
     /\ last.cycles >= 1
     /\ (st.done = "quiesced" => (pending = {} /\ st.work = "quiescent" /\ st.quies = Opt(gtick)))
     /\ (st.done = "blocked_only" => (pending # {} /\ st.work = "blocked_only" /\ elig = "dormant" /\ last.commits = 0))
     /\ (st.done = "cycle_limit_reached" => (last.arg # None /\ last.cycles = last.arg /\ st.work # "quiescent"))
     /\ st.done # "stopped"
     /\ st.cyc = Opt(gtick)
     /\ (last.commits > 0 => st.com = hist[Len(hist)].gt)
\* the status never lies about the work state or the latest cycle once a call has returned normally
StatusFresh == st.work = WorkState(pending, elig) /\ st.cyc = Opt(gtick)
\* a refused call changes nothing
RefusedChangesNothing ==
  (~last.ok /\ last.err \in {"INVALID_CONTROL", "INVALID_INTENT", "FORBIDDEN_CONTROL_INTENT"}) => Unchanged(prev)
\* a failed run (engine error / panic) commits nothing: only fault evidence, the run counter and the status move
FailedRunCommitsNothing ==
  (IsStart /\ ~last.ok) =>
     /\ last.commits = 0 => (hist = prev.hist /\ committed = prev.committed /\ pending = prev.pending /\ wtick = prev.wtick)
     /\ last.err = "ENGINE_ERROR" => (st.state = "inactive" /\ st.run = None /\ st.mode = None /\ st.done = None)
     /\ last.err = "PANIC" => (st.state = "running" /\ st.run = last.run)
\* a dormant head is never committed and is not runnable work
DormantNeverCommitted ==
  /\ (IsStart /\ last.commits > 0) => prev.elig = "admitted"
  /\ (elig = "dormant" => st.work # "runnable_pending")
\* the status carried by a response is the status the kernel reports afterwards
ResponseCarriesStatus == (last.act # "init" /\ last.status # None) => last.status = st
\* read-only calls change nothing
ReadChangesNothing == last.act = "read" => Unchanged(prev)
TypeOK == /\ pending \subseteq Intents /\ committed \subseteq Intents /\ wtick \in Nat /\ gtick \in Nat
          /\ st.state \in {"inactive", "running"} /\ st.work \in {"quiescent", "runnable_pending", "blocked_only"}
=============================================================================
