SPECIFICATION MC_Spec
CONSTANTS
  Worldlines <- MC_Worldlines
  Heads <- MC_Heads
  WlOf <- MC_WlOf
  HeadRank <- MC_HeadRank
  DefaultOf <- MC_DefaultOf
  NamedOf <- MC_NamedOf
  Intents = {}
  KindOf <- MC_KindOf
  BehOf <- MC_BehOf
  IdRank <- MC_IdRank
  None = None
  Topos <- Topos_all
  NP = 3
  BgModes = {"all"}
  TktModes = {TRUE}
  SpecialKinds <- AllSpecialKinds
  SpecialPasses = {1, 2, 3}
  RecoverModes = {"none", "resolve", "repair", "again"}
  Export = TRUE
INVARIANTS FailedPassChangesOnlyFaultEvidence SuccessAdvancesByOne HeadOrderCanonical FaultedHeadSkipped UnrelatedHeadsProceed LawfulRejectionIsReceiptNotFault FaultIndexesConsistent AtMostOncePerHead CommittedIsLog PendingIsSet AdmittedInIdOrder CorrelationsSound Inv_Export
CHECK_DEADLOCK FALSE
