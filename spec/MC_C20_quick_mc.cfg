\* C20 quick, MC leg: full state space of both tiers, 2 blobs, all faults (no history variable)
SPECIFICATION Spec
CONSTANTS
  Blobs = {"a", "b"}
  Coords = {"k0", "k1"}
  Tiers = {"mem", "disk"}
  Faults = {"flip", "trunc", "swap", "delete", "tmp", "junk", "dir"}
  MaxFaults = 3
  Size <- MC_Size
  MaxBytes = 2
  MemFastPath = FALSE
  ReadOps = TRUE
  WithIndex = TRUE
  Export = FALSE
  MaxLen = 0
INVARIANTS TypeOK Inv_GetIntact Inv_MemWellFormed Inv_CorruptionDetected Inv_HasMeansGet Inv_LoadIntact
PROPERTIES P_MismatchRefused P_PutIdempotent P_PinKeepsContent P_ReadsReadOnly P_Reopen P_IndexStable
CONSTRAINT DepthBound
CHECK_DEADLOCK FALSE
