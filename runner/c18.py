"""C18 - materialized output is independent of emission order.

MC : spec/Bus.tla (Register / Emit / Finalize / Clear transcribed from materialization/bus.rs, the
     eight reducers from reduce_op.rs, EmitKey order from emit_key.rs) checked by MC_C18.tla:
       perm cfgs - TLC walks EVERY order of EVERY subset (<= MaxN) of a token universe, repeats of a
                   (channel, key) included; invariants: pending is the SET of accepted emissions,
                   an emit is rejected iff its (channel, key) was seen, a rejected emit changes
                   nothing, finalize = the order-free oracle of the accepted set (which for the
                   commutative reducers only sees the payload BAG = re-keying invariance).
       set cfgs  - TLC walks every repeat-free subset once (sizes up to 7) and is the oracle.
RP : every finalized behaviour is exported (policies, emission sequence as taken, predicted
     report + accepted flags) and replayed on the real MaterializationBus (through ScopedEmitter);
     for set cfgs the harness replays ALL permutations (5040 for 7 emissions) of each set.
MR : decided here on the REAL outcomes: behaviours with the same policies and the same set of
     first arrivals must have identical finalized bytes, conflicts, compute_emissions_digest,
     encode_frames and encode_v2_packet bytes; commutative-reducer channels with the same payload bag
     must have identical bytes whatever the keys (and channel); a repeated (channel, key) must be
     rejected and must not change the outcome; digest/encodings are a 1:1 function of the output.
TV : seeded random sets (8..40 emissions, <= 12 of 16 channels, several shuffles each, some with
     repeats) are run on the real bus, logged, and validated by BusTrace.tla (same actions, same
     invariants); MR across the shuffles as above.
A difference between the real outcome and the model's prediction that leaves the property intact
is reported as drift (evidence note + DRIFT line on stderr), never as a violation.
"""
import hashlib
import os
import random
from lib import *

COMMUTATIVE = {"Sum", "Max", "Min", "BitOr", "BitAnd"}
W = os.path.join(WORK, "agent_c18") if os.path.isdir(os.path.join(WORK, "agent_c18")) else WORK
TLC_WORKERS = int(os.environ.get("C18_TLC_WORKERS", "6"))

QUICK = [("MC_C18_quick.cfg", {}), ("MC_C18_set_quick.cfg", {})]
THOROUGH = [("MC_C18_quick.cfg", {}), ("MC_C18_thorough.cfg", {}), ("MC_C18_perm4.cfg", {}),
            ("MC_C18_set_quick.cfg", {}), ("MC_C18_set_thorough_A.cfg", {}), ("MC_C18_set_thorough_B.cfg", {}),
            ("MC_C18_set_thorough_C.cfg", {}), ("MC_C18_set_env.cfg", {"env_table": True})]


def h(obj):
    return hashlib.blake2b(json.dumps(obj, sort_keys=True, separators=(",", ":")).encode(), digest_size=12).digest()


def extract_cases(tlc_out, dest):
    """Streams the CASE lines of a TLC output file into an ndjson file (no json parsing of the cases)."""
    n = 0
    pre = '<<"CASE", '
    with open(tlc_out) as f, open(dest, "w") as o:
        for line in f:
            if line.startswith(pre):
                s = line.rstrip()
                try:
                    o.write(json.loads(s[len(pre):-2]))
                except Exception:
                    raise ToolError(f"cannot decode TLC print line: {line[:200]}")
                o.write("\n")
                n += 1
    return n


def seeded_token_table(rng):
    """A 10-token table for the set model: 2 channels, 6 distinct keys, mixed payload lengths."""
    keys = []
    while len(keys) < 6:
        k = [rng.randrange(0, 5), rng.randrange(0, 5), rng.randrange(0, 5)]
        if k not in keys:
            keys.append(k)
    lens = [0, 1, 1, 2, 2, 3, 8, 9, 9, 12]
    rng.shuffle(lens)
    toks = []
    slots = [(c, k) for c in (0, 1) for k in range(6)]
    rng.shuffle(slots)
    slots = sorted(slots[:10])
    # make channel 0 the crowded one
    for (c, k), n in zip(slots, lens):
        data = [rng.choice([0, 1, 127, 128, 255]) if rng.random() < 0.7 else rng.randrange(256) for _ in range(n)]
        toks.append({"ch": c, "key": keys[k], "data": data, "id": 0})
    return toks


class Decider:
    """Decides the property on real outcomes across all behaviours fed to it."""

    def __init__(self, ck):
        self.ck = ck
        self.groups = {}       # (pol, first-arrival set) -> (signature hash, case, real, n_orders)
        self.orders = {}       # group key -> number of behaviours seen
        self.rekey = {}        # (policy, payload bag) -> (bytes, case)
        self.out2dig = {}      # channels signature -> (digest, frames, v2)
        self.dig2out = {}      # digest -> channels signature
        self.drift = 0
        self.drift_examples = []
        self.n_perm_cases = 0
        self.n_set_cases = 0
        self.n_bus_runs = 0
        self.n_repeat_cases = 0
        self.n_nontrivial = 0
        self.multi = {}        # (pol, multiset of ALL attempted emissions, repeats included) -> set of output hashes

    def note_drift(self, what, case, real):
        self.drift += 1
        if len(self.drift_examples) < 5:
            self.drift_examples.append({"what": what, "case": case, "real": real})

    def load(self, ref):
        """ref = (cases path, results path, line index) -> (case, real)"""
        cin, cout, idx = ref
        with open(cin) as f:
            for i, ln in enumerate(f):
                if i == idx:
                    case = json.loads(ln)
                    break
        with open(cout) as f:
            for i, ln in enumerate(f):
                if i == idx:
                    return case, json.loads(ln)["real"]
        raise ToolError("dangling case reference")

    def v(self, key, desc, obj):
        if len(self.ck.violations) < 50:        # enough to report; keeps memory bounded under a broken build
            self.ck.violation(key, desc, obj)

    def feed(self, case, r, ref):
        ck = self.ck
        if r.get("verdict") == "tool_error":
            raise ToolError(f"harness: {r.get('detail')}")
        if r.get("verdict") == "panic":
            self.v("panic_in_bus", f"the real bus panicked: {r.get('detail')}", {"cases": [case], "result": r})
            return
        real = r["real"]
        emits = case["emits"]
        pol = tuple(case["pol"])
        # --- repeated (channel, key): rejected, first arrival kept (decided from the sequence itself)
        seen = {}
        first = []
        expect_ok = []
        for e in emits:
            k = (e["ch"], tuple(e["key"]))
            if k in seen:
                expect_ok.append(False)
            else:
                seen[k] = True
                expect_ok.append(True)
                first.append((e["ch"], tuple(e["key"]), tuple(e["data"])))
        has_repeat = not all(expect_ok)
        if has_repeat:
            self.n_repeat_cases += 1
        if real["ok"] != expect_ok:
            kind = "duplicate_not_rejected" if any(a and not b for a, b in zip(real["ok"], expect_ok)) else "fresh_emission_rejected"
            self.v(kind, f"accepted flags {real['ok']} but a (channel, key) may be accepted exactly once: expected {expect_ok}",
                         {"cases": [case], "result": r})
        # --- order independence / rejected emit leaves no trace: same first-arrival set => same everything
        sig = (real["channels"], real["errors"], real["digest"], real["frames"], real["v2"])
        gk = h([pol, sorted(first)])
        sh = h(sig)
        g = self.groups.get(gk)
        if g is None:
            self.groups[gk] = (sh, ref)
            self.orders[gk] = 1
        else:
            self.orders[gk] += 1
            if g[0] != sh:
                ocase, oreal = self.load(g[1])
                kind = "rejected_emit_changed_outcome" if has_repeat or len(ocase["emits"]) != len(emits) else "order_dependent_outcome"
                self.v(kind, "same policies and same emission set, different finalized output / digest / encoding:\n"
                             f"  A emits={ocase['emits']}\n    real={oreal}\n  B emits={emits}\n    real={real}",
                             {"cases": [ocase, case], "results": [oreal, real]})
        if has_repeat:
            # observation only: a conflicting repeat keeps the FIRST arrival, so the multiset of attempts does not fix the output
            mk = h([pol, sorted((e["ch"], e["key"], e["data"]) for e in emits)])
            self.multi.setdefault(mk, set()).add(sh)
        # --- set mode: the harness replayed every permutation itself
        if case["mode"] == "set":
            self.n_set_cases += 1
            self.n_bus_runs += r.get("perms", 0)
            self.orders[gk] += r.get("perms", 1) - 1
            if r.get("perms_differing", 0) > 0:
                self.v("order_dependent_outcome",
                             f"{r['perms_differing']} of {r['perms']} permutations of the set give a different output/digest/encoding; "
                             f"first: {r.get('first_order_dependence')}", {"cases": [case], "result": r})
            if r.get("perms_mismatching_model", 0) > 0:
                self.note_drift(f"{r['perms_mismatching_model']} permutations differ from the model: {r.get('first_mismatch')}", case, real)
        else:
            self.n_perm_cases += 1
            self.n_bus_runs += 1
        # --- re-keying of commutative reducers (harness-side direct check + grouping across behaviours)
        if "rekey_violation" in r:
            self.v("rekey_changes_commutative_output", f"moving payloads to other keys changed a commutative channel: {r['rekey_violation']}",
                         {"cases": [case], "result": r})
        for ch, data in real["channels"]:
            p = pol[ch] if ch < len(pol) else "Unreg"
            if p in COMMUTATIVE:
                bag = sorted(d for (c, _, d) in first if c == ch)
                rk = (p, h(bag))
                old = self.rekey.get(rk)
                if old is None:
                    self.rekey[rk] = (data, ref)
                elif old[0] != data:
                    self.v("rekey_changes_commutative_output",
                                 f"{p}: same payload bag {bag}, different bytes {old[0]} vs {data}",
                                 {"cases": [self.load(old[1])[0], case]})
        if real.get("present_ok") is False:
            self.v("digest_depends_on_channel_presentation_order",
                   f"compute_emissions_digest of the same finalized channels {real['channels']} differs when the slice is reversed / rotated",
                   {"cases": [case], "result": r})
        # --- digest and encodings are a 1:1 function of the finalized channels
        ok_sig = h(real["channels"])
        d3 = (real["digest"], real["frames"], real["v2"])
        o = self.out2dig.get(ok_sig)
        if o is None:
            self.out2dig[ok_sig] = d3
        elif o != d3:
            self.v("digest_not_a_function_of_output", f"same finalized channels {real['channels']}, different digest/encoding", {"cases": [case]})
        for name, dv in zip(("digest", "frames", "v2"), d3):
            o = self.dig2out.get((name, dv))
            if o is None:
                self.dig2out[(name, dv)] = ok_sig
            elif o != ok_sig:
                self.v("digest_collision", f"different finalized channels share a {name}", {"cases": [case]})
        # --- conformance with the model's prediction
        if r.get("diff"):
            self.note_drift("; ".join(r["diff"]), case, real)
        for n in r.get("notes", []):
            self.note_drift(n, case, real)
        chan_load = {}
        for c, _, _ in first:
            chan_load[c] = chan_load.get(c, 0) + 1
        if g is None and chan_load and max(chan_load.values()) >= 2:
            self.n_nontrivial += 1


def run_mc(ck, dec, cfg, opts, binp, rng):
    env = {}
    if opts.get("env_table"):
        table = seeded_token_table(rng)
        path = os.path.join(W, "c18_env_tokens.json")
        with open(path, "w") as f:
            json.dump(table, f)
        env["VERIF_C18_TOKS"] = path
    res = tlc("MC_C18", cfg, workers=TLC_WORKERS, env=env, timeout=7200, tags=())
    ck.add_tlc(res)
    if res.violation:
        ck.violation(f"spec:{cfg}:{res.violation}", "TLC property violated on the model:\n" + res.error_text[:3000],
                     {"cfg": cfg, "invariant": res.violation, "trace": res.error_text[:20000]})
        return 0
    name = cfg.replace(".cfg", "")
    cin = os.path.join(W, f"c18_{name}.cases")
    n = extract_cases(res.stdout_path, cin)
    if n == 0:
        raise ToolError(f"{cfg}: nothing exported")
    replay_cases(ck, dec, binp, cin, os.path.join(W, f"c18_{name}.results"), cfg)
    return n


def replay_cases(ck, dec, binp, cin, cout, origin):
    t0 = time.time()
    harness(binp, ["c18", "replay", cin, cout], timeout=7200)
    n = 0
    with open(cin) as fc, open(cout) as fr:
        for lc, lr in zip(fc, fr):
            case = json.loads(lc)
            r = json.loads(lr)
            if r.get("i") != n:
                raise ToolError("harness result order mismatch")
            dec.feed(case, r, (cin, cout, n))
            if len(case["emits"]) >= 3 and n % 4999 == 11:
                ck.sample({"policies": case["pol"], "emits": case["emits"], "model": {"channels": case["channels"], "errors": case["errors"]},
                           "real": r["real"]}, limit=3)
            n += 1
    with open(cin) as fc:
        if sum(1 for _ in fc) != n:
            raise ToolError("harness result count mismatch")
    log(f"[c18] {origin}: {n} behaviours replayed and decided in {time.time() - t0:.1f}s")


# ------------------------------------------------------------------------------------------- TV leg

def first_arrivals(emits):
    seen = set()
    out = []
    flags = []
    for e in emits:
        k = (e[0], e[1], e[2], e[3])
        if k in seen:
            flags.append(False)
        else:
            seen.add(k)
            flags.append(True)
            out.append(tuple(e))
    return sorted(out), flags


def run_tv(ck, binp, tier, seed_val):
    sets, shuffles = (20, 3) if tier == "quick" else (400, 8)
    trace = os.path.join(W, "c18_trace.ndjson")
    resf = os.path.join(W, "c18_trace.results")
    harness(binp, ["c18", "trace", trace, resf], timeout=3600,
            env={"VERIF_SEED": str(seed_val), "C18_TV_SETS": str(sets), "C18_TV_SHUFFLES": str(shuffles)})
    runs = read_ndjson(resf)
    if not runs:
        raise ToolError("trace leg produced no runs")
    # MR on the real outcomes across the shuffles of a set
    groups = {}
    n_dup_runs = 0
    sizes = []
    for r in runs:
        if "panic" in r:
            ck.violation("panic_in_bus", f"the real bus panicked: {r['panic']}", {"tv": {"seed": seed_val, "set": r["set"], "tier": tier}})
            continue
        fa, flags = first_arrivals(r["emits"])
        if not all(flags):
            n_dup_runs += 1
        if r["ok"] != flags:
            ck.violation("duplicate_not_rejected" if any(a and not b for a, b in zip(r["ok"], flags)) else "fresh_emission_rejected",
                         f"trace set {r['set']} run {r['run']}: accepted flags {r['ok']} expected {flags}",
                         {"tv": {"seed": seed_val, "set": r["set"], "tier": tier}, "run": r})
        gk = (r["set"], h(fa))
        sig = (r["channels"], r["errors"], r["digest"], r["frames"], r["v2"])
        if gk in groups:
            if groups[gk][0] != sig:
                ck.violation("order_dependent_outcome" if r["dupfree"] else "rejected_emit_changed_outcome",
                             f"trace set {r['set']}: runs {groups[gk][1]['run']} and {r['run']} emit the same set in different orders and differ:\n"
                             f"  {groups[gk][0]}\n  {sig}", {"tv": {"seed": seed_val, "set": r["set"], "tier": tier}, "runs": [groups[gk][1], r]})
        else:
            groups[gk] = (sig, r)
        if "rekey_violation" in r:
            ck.violation("rekey_changes_commutative_output", f"trace set {r['set']}: {r['rekey_violation']}",
                         {"tv": {"seed": seed_val, "set": r["set"], "tier": tier}, "run": r})
        if r["run"] == 0:
            sizes.append(r["n"])
    # impl -> spec: BusTrace must accept the whole log; a rejected run is cut out (drift) and the rest re-validated
    lines = open(trace).read().splitlines()
    if os.environ.get("C18_SELFTEST") == "trace":
        # binding self-test: corrupt one logged finalize byte; BusTrace has to reject exactly that event
        k = [i for i, ln in enumerate(lines) if '"event":"finalize"' in ln and '"data":[' in ln and '"data":[]' not in ln][3]
        e = json.loads(lines[k])
        c = next(c for c in e["channels"] if c["data"])
        c["data"][-1] = (c["data"][-1] + 1) % 256
        lines[k] = json.dumps(e, separators=(",", ":"))
        log(f"[c18] SELFTEST: corrupted logged finalize bytes at trace event {k + 1}")
    skipped = []
    validated_events = 0
    for attempt in range(6):
        cur = os.path.join(W, f"c18_trace_{attempt}.ndjson")
        index_map = [i for i, _ in enumerate(lines, 1) if not any(a <= i <= b for a, b in skipped)]
        with open(cur, "w") as f:
            f.write("\n".join(lines[i - 1] for i in index_map) + "\n")
        name = f"BusTrace_c18_{attempt}"
        try:
            res = tlc("BusTrace", "BusTrace.cfg", workers=1, env={"VERIF_C18_TRACE": cur}, timeout=3600, tags=(),
                      java_opts="-Xss1g -Dtlc2.tool.queue.IStateQueue=StateDeque", out_name=name)
            txt = open(res.stdout_path).read()
            ck.add_tlc(res)
            violation = res.violation
            err = res.error_text
        except ToolError:
            # TLC exits 10 when the POSTCONDITION is false; that is a rejection, not tool trouble
            txt = open(os.path.join(WORK, f"tlc_{name}.out")).read()
            if '<<"REJECTED"' not in txt:
                raise
            violation, err = None, ""
        m = re.search(r'<<"REJECTED", (\d+), (\d+)>>', txt)
        if violation and not m:
            # events were accepted but a Bus invariant (finalize = order-free oracle, ...) failed on the run
            ck.violation(f"spec:BusTrace:{violation}", "a Bus invariant failed while replaying a real run:\n" + err[-3000:],
                         {"tv": {"seed": seed_val, "tier": tier}, "trace": cur})
            break
        if not m:
            validated_events = len(index_map)
            break
        orig = index_map[int(m.group(1)) - 1]
        run = next((r for r in runs if "start" in r and r["start"] <= orig <= r["end"]), None)
        if run is None:
            raise ToolError(f"BusTrace rejected event {orig} which belongs to no run")
        log(f"DRIFT property=C18 trace event {orig} (set {run['set']} run {run['run']}) rejected by BusTrace: {lines[orig - 1][:300]}")
        ck.notes.append(f"drift: BusTrace rejected event {orig} of set {run['set']} run {run['run']}: {lines[orig - 1][:300]}")
        ck.cov["drift"] = ck.cov.get("drift", 0) + 1
        skipped.append((run["start"], run["end"]))
    else:
        raise ToolError("more than 5 rejected runs in the trace leg")
    ck.cov["tv_runs"] = len(runs)
    ck.cov["tv_sets"] = len(set(r["set"] for r in runs))
    ck.cov["tv_events_validated"] = validated_events
    ck.cov["tv_runs_with_repeats"] = n_dup_runs
    ck.cov["tv_set_sizes"] = [min(sizes), max(sizes)] if sizes else []
    if len(ck.cov["samples"]) < 4 and runs:
        r = runs[len(runs) // 2]
        ck.cov["samples"].append({"trace_run": {k: r[k] for k in ("set", "run", "pol", "emits", "channels", "errors", "digest")}})
    return len(runs) - len(skipped)


# ------------------------------------------------------------------------------------------- entry

def run(tier, replay=None):
    ck = Check("C18", tier)
    binp = build_harness()
    rng = random.Random(ck.seed * 1000003 + 18)
    dec = Decider(ck)
    cfgs = QUICK if tier == "quick" else THOROUGH
    n_cases = 0
    tv_ok = 0
    if replay:
        obj = json.load(open(replay))["case"]
        if str(obj.get("leg", "")).startswith("truth"):
            pass                                     # a replay of the truth leg (runner/truth.py) skips the main leg
        elif "cases" in obj:
            cin = write_ndjson(os.path.join(W, "c18_replay.cases"), obj["cases"])
            replay_cases(ck, dec, binp, cin, os.path.join(W, "c18_replay.results"), "replay")
            n_cases = len(obj["cases"])
        elif "tv" in obj:
            tv_ok = run_tv(ck, binp, obj["tv"].get("tier", tier), obj["tv"]["seed"])
        elif "cfg" in obj:
            res = tlc("MC_C18", obj["cfg"], workers=TLC_WORKERS, timeout=7200, tags=())
            if res.violation:
                ck.violation(f"spec:{obj['cfg']}:{res.violation}", res.error_text[:3000], obj)
        else:
            raise ToolError("replay file has neither cases nor tv")
    else:
        only = os.environ.get("C18_ONLY", "")          # development aid: "tv" or "mc"
        for cfg, opts in ([] if only == "tv" else cfgs):
            n_cases += run_mc(ck, dec, cfg, opts, binp, rng)
        if tier != "quick" and only != "tv":
            # registering policies before the first emit or just before finalize must export the same behaviours
            sets = []
            for cfg in ("MC_C18_regfirst.cfg", "MC_C18_reglast.cfg"):
                res = tlc("MC_C18", cfg, workers=TLC_WORKERS, timeout=3600, tags=("CASE",))
                ck.add_tlc(res)
                if res.violation:
                    ck.violation(f"spec:{cfg}:{res.violation}", res.error_text[:3000], {"cfg": cfg})
                sets.append(set(json.dumps(c, sort_keys=True) for _, c in res.lines))
            if not sets[0] or sets[0] != sets[1]:
                ck.violation("spec:register_order", "registering policies first / last exports different behaviours",
                             {"cfg": "MC_C18_regfirst.cfg", "only_first": list(sets[0] - sets[1])[:3], "only_last": list(sets[1] - sets[0])[:3]})
        if only != "mc":
            tv_ok = run_tv(ck, binp, tier, ck.seed)
        multi = sum(1 for v in dec.orders.values() if v >= 2)
        if only == "tv":
            pass
        elif multi == 0:
            raise ToolError("no emission set was replayed in more than one order (vacuous)")
        elif dec.n_repeat_cases == 0:
            raise ToolError("no behaviour with a repeated (channel, key) was replayed (vacuous)")
        ck.cov["sets_replayed_in_2plus_orders"] = multi
    if dec.drift or ck.cov.get("drift"):
        for ex in dec.drift_examples[:3]:
            log(f"DRIFT property=C18 real bus differs from the prediction of Bus.tla: {ex['what'][:500]}\n   emits={ex['case']['emits']} pol={ex['case']['pol']}")
        ck.notes.append(f"drift: {dec.drift} replayed behaviours differ from the model's prediction while order independence holds; "
                        f"examples: {json.dumps(dec.drift_examples[:2])[:1500]}")
        ck.cov["drift"] = ck.cov.get("drift", 0) + dec.drift
    ck.cov["traces_validated_against_impl"] = dec.n_bus_runs + tv_ok
    ck.cov["evaluations"] = dec.n_bus_runs + ck.cov.get("tv_runs", 0)
    ck.cov["behaviours_exported_by_tlc"] = n_cases
    ck.cov["perm_behaviours"] = dec.n_perm_cases
    ck.cov["set_cases"] = dec.n_set_cases
    ck.cov["behaviours_with_repeated_key"] = dec.n_repeat_cases
    ck.cov["policy_x_emission_set_groups"] = len(dec.groups)
    ck.cov["attempt_multisets_with_repeat"] = len(dec.multi)
    ck.cov["attempt_multisets_with_repeat_whose_output_depends_on_arrival_order"] = sum(1 for v in dec.multi.values() if len(v) > 1)
    ck.cov["commutative_payload_bags"] = len(dec.rekey)
    ck.cov["distinct_outputs"] = len(dec.out2dig)
    ck.cov["distinct_nontrivial"] = dec.n_nontrivial
    ck.cov["rule"] = ("a group = (policy assignment, set of first-arrival emissions); every group is replayed on the real bus in every order "
                      "TLC walks (perm cfgs) or in all n! orders (set cfgs); non-trivial = groups where some channel receives >= 2 accepted "
                      "emissions; cfgs: %s" % [c for c, _ in cfgs])
    ck.cov["exhaustive"] = replay is None and not os.environ.get("C18_ONLY")
    ck.assumptions += [
        "bounded universes (cfg constants): 2-3 channels, <= 6 keys, payload alphabets {0,1,255,...} with lengths 0,1,2,3,8,9; larger sets only sampled (TV leg)",
        "abstract emit keys <<scope, rule, subkey>> are mapped by monotone tables to real EmitKeys (scope hashes differing at byte 0/16/31, u32 values 0,1,256,0x01000001,MAX); model channel i = i-th smallest real ChannelId",
        "BLAKE3 collision-freeness for 'different output => different digest'",
        "trusted base: TLC (+ its Java SequencesExt/FiniteSetsExt/Bitwise operators used by the transcription side; the oracle side uses its own bit arithmetic), the harness projection, serde_json",
        "a real-vs-model difference that leaves order independence intact is drift, not a violation",
    ]
    import truth                                     # truth leg: the bus inside a committed tick and its replay (spec/TruthBus.tla)
    truth.run_leg(ck, binp, tier, replay)
    return ck.finish()
