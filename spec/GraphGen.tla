------------------------------ MODULE GraphGen ------------------------------
(***************************************************************************)
(* Generators shared by the graph-level model-checking modules: the root   *)
(* state, the op batches that move between well-formed states, the id rank *)
(* table supplied by the harness, and the JSON projection used to hand     *)
(* states and ops to the harness.                                          *)
(***************************************************************************)
EXTENDS Graph, Json, IOUtils

CONSTANTS RootWarp, RootNode,     \* the root instance
          ChildWarps,             \* instances that may be opened as portals
          EdgeTypes, NodeTypes,   \* type universes actually explored
          FreeWarps,              \* instances that may be created unparented (unreachable content)
          Export                  \* TRUE: print one CASE line per explored state

IdRanks   == JsonDeserialize(IOEnv.VERIF_IDS)
MC_RankW  == [w \in Warps |-> IdRanks.warps[w]]
MC_RankN  == [n \in Nodes |-> IdRanks.nodes[n]]
MC_RankE  == [e \in Edges |-> IdRanks.edges[e]]

S0 == [EmptyState EXCEPT !.inst = Upd(@, RootWarp, InstRec(RootNode, None)),
                         !.node = Upd(@, NKey(RootWarp, RootNode), CHOOSE t \in NodeTypes : TRUE)]

\* Single ops and the small op batches needed to keep portal invariants.
Batches(s) ==
  LET W == DOMAIN s.inst
  IN    {<<OpUpsertNode(w, n, t)>> : w \in W, n \in Nodes, t \in NodeTypes}
   \cup {<<OpDeleteNode(w, n)>> : w \in W, n \in Nodes}
   \cup {<<OpUpsertEdge(kk[1][1], e, kk[1][2], kk[2][2], t)>> :
            kk \in {p \in (DOMAIN s.node) \X (DOMAIN s.node) : p[1][1] = p[2][1]}, e \in Edges, t \in EdgeTypes}
   \cup {<<OpDeleteEdge(k[1], s.edge[k].from, k[2])>> : k \in DOMAIN s.edge}
   \cup {<<OpSetAtt(NAtt(k[1], k[2]), v)>> : k \in DOMAIN s.node, v \in {Atom(p) : p \in Atoms} \cup {None}}
   \cup {<<OpSetAtt(EAtt(k[1], k[2]), v)>> : k \in DOMAIN s.edge, v \in {Atom(p) : p \in Atoms} \cup {None}}
   \cup {<<OpOpenPortal(NAtt(k[1], k[2]), cw, RootNode, <<"empty", t>>)>> :
            k \in DOMAIN s.node, cw \in ChildWarps \ W, t \in NodeTypes}
   \cup {<<OpOpenPortal(EAtt(k[1], k[2]), cw, RootNode, <<"empty", t>>)>> :
            k \in DOMAIN s.edge, cw \in ChildWarps \ W, t \in NodeTypes}
   \cup {<<OpDeleteInst(cw), OpSetAtt(s.inst[cw].parent, None)>> :
            cw \in {x \in W : s.inst[x].parent # None}}
   \cup {<<OpUpsertInst(fw, RootNode, None), OpUpsertNode(fw, RootNode, t)>> : fw \in FreeWarps \ W, t \in NodeTypes}
   \cup {<<OpDeleteInst(fw)>> : fw \in {x \in W \cap FreeWarps : s.inst[x].parent = None}}

StepOf(s, t) == \E ops \in Batches(s) :
                  LET r == ApplyOps(s, ops)
                  IN r.ok /\ WellFormed(r.s) /\ NKey(RootWarp, RootNode) \in DOMAIN r.s.node /\ t = r.s

\* ---- JSON projection ----------------------------------------------------
AttJson(v)  == IF v = None THEN [k |-> "none"] ELSE IF v[1] = "atom" THEN [k |-> "atom", p |-> v[2]] ELSE [k |-> "desc", w |-> v[2]]
KeyJson(k)  == [o |-> k[1], w |-> k[2], id |-> k[3]]
StateJson(s) ==
  [inst |-> {[w |-> w, root |-> s.inst[w].root,
              parent |-> IF s.inst[w].parent = None THEN [o |-> "none"] ELSE KeyJson(s.inst[w].parent)] : w \in DOMAIN s.inst},
   node |-> {[w |-> k[1], n |-> k[2], ty |-> s.node[k], att |-> AttJson(Get(s.natt, k))] : k \in DOMAIN s.node},
   edge |-> {[w |-> k[1], e |-> k[2], from |-> s.edge[k].from, to |-> s.edge[k].to, ty |-> s.edge[k].ty,
              att |-> AttJson(Get(s.eatt, k))] : k \in DOMAIN s.edge}]
OpJson(o) ==
  CASE o.op = "OpenPortal" -> [op |-> o.op, key |-> KeyJson(o.key), child |-> o.child, croot |-> o.croot,
                               init |-> o.init[1], ty |-> IF o.init[1] = "empty" THEN o.init[2] ELSE "none"]
    [] o.op = "UpsertWarpInstance" -> [op |-> o.op, w |-> o.w, root |-> o.root,
                               parent |-> IF o.parent = None THEN [o |-> "none"] ELSE KeyJson(o.parent)]
    [] o.op = "DeleteWarpInstance" -> [op |-> o.op, w |-> o.w]
    [] o.op = "UpsertNode" -> [op |-> o.op, w |-> o.w, n |-> o.n, ty |-> o.ty]
    [] o.op = "DeleteNode" -> [op |-> o.op, w |-> o.w, n |-> o.n]
    [] o.op = "UpsertEdge" -> [op |-> o.op, w |-> o.w, e |-> o.e, from |-> o.from, to |-> o.to, ty |-> o.ty]
    [] o.op = "DeleteEdge" -> [op |-> o.op, w |-> o.w, from |-> o.from, e |-> o.e]
    [] o.op = "SetAttachment" -> [op |-> o.op, key |-> KeyJson(o.key), value |-> AttJson(o.value)]
OpsJson(ops) == [i \in 1..Len(ops) |-> OpJson(ops[i])]

=============================================================================
