//! Self-contained reproductions of the two C15 findings, written against the public API of
//! warp-core only (features native_rule_bootstrap; no verification hooks).  Each function body can be
//! pasted as a `#[test]` into /repo/crates/warp-core/tests (replace the `return Err` lines by asserts).
//!
//!   stale_read            a strand tick that READ a slot the parent has changed since the fork is
//!                         imported (revalidation "Clean"): the parent takes a value derived from the stale read
//!   strand_write_dropped  a strand tick that declared a write of a slot with the value its basis already
//!                         had leaves no op in the (diff-based) patch; the parent changed the slot; the
//!                         entry is "imported" although the parent keeps its own, different value

use warp_core::{
    make_edge_id, make_head_id, make_intent_kind, make_node_id, make_strand_id, make_type_id, make_warp_id, ActorId,
    AdmissionScopeId, AtomPayload, AttachmentKey, AttachmentValue, AuthorityBinding, AuthorityDomainId,
    AuthorityDomainRef, CausalAuthority, CausalPosture, ConflictPolicy, EdgeRecord, Engine, EngineBuilder, Footprint,
    ForkStrandRequest, GraphStore, GraphView, InboxPolicy, IngressEnvelope, IngressTarget, NodeId, NodeKey, NodeRecord,
    OriginId, PatternGraph, PlaybackMode, PostureDerivation, ProvenanceService, RetentionContractId, RetentionPosture,
    RewriteRule, SchedulerCoordinator, SealStrength, SettlementDecision, SettlementService, StrandOverlapRevalidation,
    TickDelta, WarpOp, WorldlineId, WorldlineRuntime, WorldlineState, WorldlineTick, WriterHead, WriterHeadKey,
};

// intent bytes: [b'R', kind, value]; kind 0: a := value; kind 1: b := value of a
fn decode(view: GraphView<'_>, scope: &NodeId) -> Option<(u8, u8)> {
    match view.node_attachment(scope) {
        Some(AttachmentValue::Atom(p)) if p.bytes.len() == 4 && p.bytes[0] == b'R' => Some((p.bytes[1], p.bytes[2])),
        _ => None,
    }
}
fn atom(v: u8) -> AttachmentValue {
    AttachmentValue::Atom(AtomPayload::new(make_type_id("repro/atom"), bytes::Bytes::from(vec![v])))
}
fn matcher(view: GraphView<'_>, scope: &NodeId) -> bool {
    decode(view, scope).is_some()
}
fn executor(view: GraphView<'_>, scope: &NodeId, delta: &mut TickDelta) {
    let Some((kind, v)) = decode(view, scope) else { return };
    let w = view.warp_id();
    let key = |n: &str| AttachmentKey::node_alpha(NodeKey { warp_id: w, local_id: make_node_id(n) });
    if kind == 0 {
        delta.push(WarpOp::SetAttachment { key: key("a"), value: Some(atom(v)) });
    } else {
        let read = view.node_attachment(&make_node_id("a")).cloned();
        delta.push(WarpOp::SetAttachment { key: key("b"), value: read });
    }
}
fn footprint(view: GraphView<'_>, scope: &NodeId) -> Footprint {
    let w = view.warp_id();
    let nk = |n: NodeId| NodeKey { warp_id: w, local_id: n };
    let mut fp = Footprint { factor_mask: 1, ..Footprint::default() };
    fp.n_read.insert(nk(*scope));
    fp.a_read.insert(AttachmentKey::node_alpha(nk(*scope)));
    match decode(view, scope) {
        Some((0, _)) => {
            fp.a_write.insert(AttachmentKey::node_alpha(nk(make_node_id("a"))));
        }
        Some(_) => {
            fp.a_read.insert(AttachmentKey::node_alpha(nk(make_node_id("a"))));
            fp.a_write.insert(AttachmentKey::node_alpha(nk(make_node_id("b"))));
        }
        None => {}
    }
    fp
}

struct Repro {
    runtime: WorldlineRuntime,
    prov: ProvenanceService,
    engine: Engine,
    parent: WorldlineId,
    child: WorldlineId,
    nonce: u8,
}

impl Repro {
    fn new() -> Self {
        let warp = make_warp_id("repro");
        let mut store = GraphStore::new(warp);
        let ty = make_type_id("repro/node");
        for n in ["root", "a", "b"] {
            store.insert_node(make_node_id(n), NodeRecord { ty });
        }
        for n in ["a", "b"] {
            store.insert_edge(
                make_node_id("root"),
                EdgeRecord { id: make_edge_id(&format!("root->{n}")), from: make_node_id("root"), to: make_node_id(n), ty },
            );
        }
        let u0 = WorldlineState::from_root_store(store, make_node_id("root")).expect("u0");
        let parent = WorldlineId::from_bytes([1; 32]);
        let mut runtime = WorldlineRuntime::new();
        runtime.register_worldline(parent, u0.clone()).expect("register");
        let head = WriterHeadKey { worldline_id: parent, head_id: make_head_id("h") };
        runtime.register_writer_head(WriterHead::with_routing(head, PlaybackMode::Play, InboxPolicy::AcceptAll, None, true)).expect("head");
        let mut prov = ProvenanceService::new();
        prov.register_worldline(parent, &u0).expect("prov");
        let mut engine = EngineBuilder::from_state(u0.warp_state().clone(), *u0.root()).workers(1).build().expect("engine");
        engine
            .register_rule(RewriteRule {
                id: *blake3::hash(b"rule:cmd/repro").as_bytes(),
                name: "cmd/repro",
                left: PatternGraph { nodes: vec![] },
                matcher,
                executor,
                compute_footprint: footprint,
                factor_mask: 1,
                conflict_policy: ConflictPolicy::Abort,
                join_fn: None,
            })
            .expect("rule");
        Self { runtime, prov, engine, parent, child: WorldlineId::from_bytes([2; 32]), nonce: 0 }
    }

    fn tick(&mut self, lane: WorldlineId, kind: u8, v: u8) {
        self.nonce += 1;
        let env = IngressEnvelope::local_intent(
            IngressTarget::DefaultWriter { worldline_id: lane },
            make_intent_kind("repro"),
            vec![b'R', kind, v, self.nonce],
        );
        self.runtime.ingest(env).expect("ingest");
        let recs = SchedulerCoordinator::super_tick(&mut self.runtime, &mut self.prov, &mut self.engine).expect("super_tick");
        assert_eq!(recs.len(), 1);
    }

    fn fork(&mut self) {
        let origin = OriginId::from_bytes([0x51; 32]);
        let authority = CausalAuthority::new(
            origin,
            ActorId::from_bytes([0x53; 32]),
            AuthorityDomainRef::new(origin, AuthorityDomainId::from_bytes([0x52; 32])),
            AuthorityBinding::LocalUnbound { origin },
            SealStrength::Advisory,
        )
        .expect("authority");
        let posture = RetentionPosture::new(
            CausalPosture::Shared,
            PostureDerivation::ExplicitIntent,
            authority,
            RetentionContractId::from_bytes([0x54; 32]),
            Some(AdmissionScopeId::from_bytes([0x55; 32])),
        )
        .expect("posture");
        let head = WriterHeadKey { worldline_id: self.child, head_id: make_head_id("h") };
        self.runtime
            .fork_strand(
                &mut self.prov,
                ForkStrandRequest {
                    strand_id: make_strand_id("repro"),
                    source_lane_id: self.parent,
                    fork_tick: WorldlineTick::from_raw(0),
                    child_worldline_id: self.child,
                    writer_heads: vec![WriterHead::with_routing(head, PlaybackMode::Play, InboxPolicy::AcceptAll, None, true)],
                    retention_posture: posture,
                },
            )
            .expect("fork");
    }

    fn value(&self, lane: WorldlineId, node: &str) -> Option<u8> {
        let state = self.runtime.worldlines().get(&lane).expect("lane").state();
        match state.store(&make_warp_id("repro")).and_then(|s| s.node_attachment(&make_node_id(node))) {
            Some(AttachmentValue::Atom(p)) => Some(p.bytes[0]),
            _ => None,
        }
    }
}

/// parent: a:=0 | fork | parent: a:=1 | strand: b := a (reads a=0) | settle
pub fn stale_read() -> Result<String, String> {
    let mut r = Repro::new();
    r.tick(r.parent, 0, 0);
    r.fork();
    r.tick(r.parent, 0, 1);
    r.tick(r.child, 1, 0);
    let result = SettlementService::settle(&mut r.runtime, &mut r.prov, make_strand_id("repro")).map_err(|e| format!("{e:?}"))?;
    let imported_clean = matches!(
        result.plan.decisions.as_slice(),
        [SettlementDecision::ImportCandidate(c)] if matches!(c.overlap_revalidation, Some(StrandOverlapRevalidation::Clean { .. }))
    );
    let (a, b) = (r.value(r.parent, "a"), r.value(r.parent, "b"));
    // the entry read `a`, which the parent changed after the fork: it must be retained (conflict), or at
    // least the parent must not end with b = (old a)
    if imported_clean && a == Some(1) && b == Some(0) {
        return Err(format!("stale read imported: decisions {:?}; parent a={a:?} b={b:?} (b := a run on the parent gives b=1)",
            result.plan.decisions.iter().map(SettlementDecision::admission_outcome_kind).collect::<Vec<_>>()));
    }
    Ok(format!("not reproduced: imported_clean={imported_clean} a={a:?} b={b:?}"))
}

/// parent: a:=0 | fork | parent: a:=1 | strand: a:=0 (no-op against its basis) | settle
pub fn strand_write_dropped() -> Result<String, String> {
    let mut r = Repro::new();
    r.tick(r.parent, 0, 0);
    r.fork();
    r.tick(r.parent, 0, 1);
    r.tick(r.child, 0, 0);
    let result = SettlementService::settle(&mut r.runtime, &mut r.prov, make_strand_id("repro")).map_err(|e| format!("{e:?}"))?;
    let imported = matches!(result.plan.decisions.as_slice(), [SettlementDecision::ImportCandidate(_)]);
    let (pa, sa) = (r.value(r.parent, "a"), r.value(r.child, "a"));
    // both lanes wrote `a` with different values: a write-write conflict, yet the entry is "imported"
    // and the parent does not hold the strand's value on the slot the strand wrote
    if imported && result.appended_imports.len() == 1 && pa != sa {
        return Err(format!("conflicting write reported as import: parent a={pa:?}, strand a={sa:?}"));
    }
    Ok(format!("not reproduced: imported={imported} parent a={pa:?} strand a={sa:?}"))
}

pub fn run(_args: &[String]) -> i32 {
    println!("stale_read: {:?}", stale_read());
    println!("strand_write_dropped: {:?}", strand_write_dropped());
    0
}
