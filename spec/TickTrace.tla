------------------------------ MODULE TickTrace ------------------------------
(***************************************************************************)
(* Trace validation of the receipts of LARGE ticks committed through the   *)
(* public engine API (candidate sets on both sides of the scheduler's      *)
(* 1024-entry threshold).  A run is: reset, row*, end.  Each row is one    *)
(* receipt entry in receipt order with its sort key (scope hash ++ rule id *)
(* as 64 bytes), its declared footprint resources, the decision and the    *)
(* blockers.  Accepted iff rows are in strictly increasing key order and   *)
(* the decisions are the canonical greedy independent set of Scheduler.tla *)
(* with exact blocking witnesses.                                          *)
(***************************************************************************)
EXTENDS Scheduler, TLC, Json, IOUtils

Rec == ndJsonDeserialize(IOEnv.TRACE)

VARIABLES l, prev, accepted, nrows
vars == <<l, prev, accepted, nrows>>

RECURSIVE LexLessFrom(_, _, _)
LexLessFrom(a, b, i) ==
  IF i > Len(a) THEN FALSE
  ELSE IF a[i] < b[i] THEN TRUE
  ELSE IF a[i] > b[i] THEN FALSE
  ELSE LexLessFrom(a, b, i + 1)

SeqSet(s) == {s[k] : k \in 1..Len(s)}
RowFP(r) == FP(SeqSet(r.nr), SeqSet(r.nw), {}, {}, SeqSet(r.ar), SeqSet(r.aw), {}, {}, {0})
IsEvent(e) == l <= Len(Rec) /\ Rec[l].event = e /\ l' = l + 1

Init == l = 1 /\ prev = <<>> /\ accepted = <<>> /\ nrows = 0
TReset == IsEvent("reset") /\ prev' = <<>> /\ accepted' = <<>> /\ nrows' = 0
TRow ==
  /\ IsEvent("row")
  /\ Rec[l].ix = nrows
  /\ (prev = <<>> \/ LexLessFrom(prev, Rec[l].k, 1))
  /\ LET f == RowFP(Rec[l])
         blockers == {accepted[j].ix : j \in {x \in 1..Len(accepted) : Conflicts(f, accepted[x].fp)}}
     IN /\ Rec[l].acc = (blockers = {})
        /\ SeqSet(Rec[l].blk) = blockers
        /\ accepted' = IF blockers = {} THEN Append(accepted, [ix |-> Rec[l].ix, fp |-> f]) ELSE accepted
  /\ prev' = Rec[l].k /\ nrows' = nrows + 1
TEnd == IsEvent("end") /\ Rec[l].rows = nrows /\ UNCHANGED <<prev, accepted, nrows>>
Next == TReset \/ TRow \/ TEnd
Spec == Init /\ [][Next]_vars

Accepted ==
  LET d == TLCGet("stats").diameter
  IN IF d - 1 = Len(Rec) THEN TRUE
     ELSE Print(<<"REJECTED_AT", d, IF d <= Len(Rec) THEN Rec[d].event ELSE "eof">>, FALSE)
=============================================================================
