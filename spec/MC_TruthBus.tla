---------------------------- MODULE MC_TruthBus ----------------------------
(***************************************************************************)
(* C18, truth leg: TruthBus.tla explored in two phases.                    *)
(*                                                                         *)
(* Phase "life": ALL interleavings of begin / emit / commit / abort /      *)
(*   failed commit on an engine-owned bus, up to MaxCommit committed ticks *)
(*   and MaxAbort aborted transactions, <= MaxAttempts emit attempts per   *)
(*   transaction drawn from the token table TokAt(1..NTok) (repeats of a   *)
(*   (channel, key) with the same or another payload included).            *)
(* Phase "play": a committed history is first built by a fixed SCRIPT of   *)
(*   life calls (one script per member of Family, some with an aborted     *)
(*   transaction in between), then ALL interleavings of subscribe /        *)
(*   unsubscribe / set_active_cursor / seek / step / publish_truth /       *)
(*   clear_session / clear of up to MaxPlay calls.                         *)
(*                                                                         *)
(* With the VIEW (cfg) the witness path and, in phase "life", the older    *)
(* ticks are not part of a state's identity; the bus content is a function *)
(* (channel -> key -> payload), so arrival order only survives in the      *)
(* ghost `hist`, which the VIEW reduces to its length.  Every TRANSITION   *)
(* is exported with a witness path to its source state, the result of the  *)
(* call and the full projection the model predicts after it.  Without a    *)
(* VIEW (mutant cfgs, perm cfg) TLC walks every behaviour, i.e. every      *)
(* arrival order.                                                          *)
(***************************************************************************)
EXTENDS TruthBus, Json, IOUtils

CONSTANTS Phase, NTok, TokAt(_), PolSeq, Family, Cursor0,
          MaxAttempts, MaxCommit, MaxAbort, MaxFail, MaxPlay, MaxPub, Export

VARIABLES path,          \* calls so far (witness path)
          script,        \* phase "play": life calls still to be made before playback starts
          nAbort, nFail, nPlay, nPub
mvars == <<path, script, nAbort, nFail, nPlay, nPub>>
allvars == <<tvars, mvars>>

-----------------------------------------------------------------------------
(* universes *)

K1 == <<1, 0, 1>>
K2 == <<0, 2, 0>>
K3 == <<0, 1, 3>>
P1 == <<7>>
P2 == <<0, 255>>
P3 == <<>>
Tok(c, k, d) == [ch |-> c, key |-> k, data |-> d]

\* 6 tokens: on each channel two keys, and one key carrying two different payloads (a repeat that must be
\* rejected whichever arrives second).  Channel order 0 < 1, key order K2 < K1 (K3 < K2 < K1).
MC_Tok6_N == 6
MC_Tok6_At(i) == CASE i = 1 -> Tok(0, K1, P1) [] i = 2 -> Tok(0, K2, P2) [] i = 3 -> Tok(0, K1, P2)
                   [] i = 4 -> Tok(1, K1, P2) [] i = 5 -> Tok(1, K2, P1) [] i = 6 -> Tok(1, K2, P2)
\* 12 tokens: 2 channels x 3 keys x 2 payloads of unequal length
MC_Tok12_N == 12
MC_Tok12_At(i) == Tok((i - 1) \div 6, <<K1, K2, K3>>[(((i - 1) \div 2) % 3) + 1], <<P1, P2>>[((i - 1) % 2) + 1])
\* 10 tokens: the 6 above plus the empty payload and a third key
MC_Tok10_N == 10
MC_Tok10_At(i) == CASE i <= 6 -> MC_Tok6_At(i)
                    [] i = 7 -> Tok(0, K3, P3) [] i = 8 -> Tok(1, K3, P3) [] i = 9 -> Tok(1, K1, P1) [] i = 10 -> Tok(0, K2, P1)

\* policy assignments: channel 0 strict-single (conflicts arise), channel 1 a reducer / log
Pol(a, b) == [c \in {0, 1} |-> IF c = 0 THEN a ELSE b]
MC_PolQ == <<Pol("StrictSingle", "Concat")>>
MC_PolT == <<Pol("StrictSingle", "Concat"), Pol("StrictSingle", "Sum"), Pol("Log", "StrictSingle"), Pol("Max", "Last")>>

\* scripts of the play phase (token indices refer to the 6-token table)
B == <<"begin">>
C == <<"commit">>
A == <<"abort">>
E(i) == <<"emit", i>>
\* two ticks: {ch0 conflict, ch1 two keys} then {ch0 single, ch1 single}; emitted against channel / key order
MC_FamQ == << <<B, E(5), E(4), E(1), E(2), C, B, E(6), E(3), C>>,
              <<B, E(4), E(1), C, B, E(2), A, B, C>> >>
MC_FamT == MC_FamQ \o
           << <<B, C, B, E(1), E(3), E(5), C, B, E(2), C>>,
              <<B, E(2), E(1), C, B, E(5), E(6), E(4), C, B, E(4), E(3), A, B, E(1), C>>,
              <<B, E(6), A, B, E(5), E(2), C>> >>
MC_FamNone == <<>>

-----------------------------------------------------------------------------
(* export *)

SetSeq(S) == SetToSeq(S)
TickJson(r) == [emitted |-> r.emitted, channels |-> r.channels, errors |-> r.errors, ckey |-> r.ckey]
Proj ==
  [open |-> (tx = "open"), bus |-> PendingSet(pending), lm |-> report,
   ticks |-> [t \in 1..Len(ticks) |-> TickJson(ticks[t])],
   subs |-> subs, active |-> active, ctick |-> ctick, frames |-> frames,
   receipt |-> [s \in Sessions |-> IF receipt[s] = None THEN [tick |-> 0, commit |-> 0, cursor |-> ""] ELSE receipt[s]]]

ChanSeq == NatSeq(Channels)
Do(op, res) ==
  /\ path' = Append(path, op)
  /\ (Export =>
        PrintT(<<"CASE", ToJson([phase |-> Phase, pol |-> [i \in 1..Len(ChanSeq) |-> PolicyOf(policies, ChanSeq[i])],
                                 act0 |-> Cursor0, path |-> path', res |-> res, pred |-> Proj'])>>))

OpEmit(t) == [a |-> "emit", ch |-> t.ch, key |-> t.key, data |-> t.data]

-----------------------------------------------------------------------------
(* life calls *)

Scripted == script # <<>>
Free == Phase = "life" /\ ~Scripted
Want(kind) == Scripted /\ Head(script)[1] = kind
Advance == script' = (IF Scripted THEN Tail(script) ELSE script)
KeepCounters == UNCHANGED <<nAbort, nFail, nPlay, nPub>>

DoBegin ==
  /\ (Want("begin") \/ (Free /\ (Len(ticks) < MaxCommit \/ nAbort < MaxAbort)))
  /\ Begin /\ Do([a |-> "begin"], "ok") /\ Advance /\ KeepCounters
DoEmitTok(t) ==
  /\ EmitTx(t.ch, t.key, t.data)
  /\ Do(OpEmit(t), IF IsDuplicate(pending, t.ch, t.key) THEN "dup" ELSE "ok")
  /\ Advance /\ KeepCounters
DoEmit ==
  \/ /\ Want("emit") /\ DoEmitTok(TokAt(Head(script)[2]))
  \/ /\ Free /\ Len(hist) < MaxAttempts
     /\ \E i \in 1..NTok : DoEmitTok(TokAt(i))
DoCommit ==
  /\ (Want("commit") \/ (Free /\ Len(ticks) < MaxCommit))
  /\ Commit /\ Do([a |-> "commit"], "ok") /\ Advance /\ KeepCounters
DoAbort ==
  /\ (Want("abort") \/ (Free /\ nAbort < MaxAbort))
  /\ Abort /\ Do([a |-> "abort"], "ok") /\ Advance
  /\ nAbort' = nAbort + 1 /\ UNCHANGED <<nFail, nPlay, nPub>>
DoFailedCommit ==
  /\ Free /\ nFail < MaxFail
  /\ FailedCommit /\ Do([a |-> "badcommit"], "unknown_tx")
  /\ nFail' = nFail + 1 /\ UNCHANGED <<script, nAbort, nPlay, nPub>>

-----------------------------------------------------------------------------
(* playback calls *)

Play == Phase = "play" /\ ~Scripted /\ nPlay < MaxPlay
Played == nPlay' = nPlay + 1 /\ UNCHANGED <<script, nAbort, nFail>>
DoSubscribe   == \E s \in Sessions, ch \in Channels :
                   Play /\ Subscribe(s, ch) /\ Do([a |-> "sub", s |-> s, ch |-> ch], "ok") /\ Played /\ UNCHANGED nPub
DoUnsubscribe == \E s \in Sessions, ch \in Channels :
                   Play /\ Unsubscribe(s, ch) /\ Do([a |-> "unsub", s |-> s, ch |-> ch], "ok") /\ Played /\ UNCHANGED nPub
DoSetActive   == \E s \in Sessions, c \in Cursors :
                   Play /\ active[s] # c /\ SetActiveCursor(s, c) /\ Do([a |-> "setcur", s |-> s, c |-> c], "ok") /\ Played /\ UNCHANGED nPub
DoSeek        == \E c \in Cursors, t \in 0..MaxCommit :
                   Play /\ t # ctick[c] /\ Seek(c, t) /\ Do([a |-> "seek", c |-> c, t |-> t], "ok") /\ Played /\ UNCHANGED nPub
DoStep        == \E c \in Cursors :
                   Play /\ Step(c) /\ Do([a |-> "step", c |-> c], "ok") /\ Played /\ UNCHANGED nPub
DoPublish     == \E s \in Sessions :
                   Play /\ nPub < MaxPub /\ Publish(s)
                   /\ Do([a |-> "publish", s |-> s], IF ctick[active[s]] = 0 THEN "nothing" ELSE "ok")
                   /\ Played /\ nPub' = nPub + 1
DoClearSession == \E s \in Sessions :
                   Play /\ (frames[s] # <<>> \/ receipt[s] # None) /\ ClearSession(s)
                   /\ Do([a |-> "clearsession", s |-> s], "ok") /\ Played /\ UNCHANGED nPub
DoClear       == Play /\ (\E s \in Sessions : frames[s] # <<>> \/ receipt[s] # None) /\ ClearAll
                   /\ Do([a |-> "clear"], "ok") /\ Played /\ UNCHANGED nPub

MC_Init ==
  /\ \E i \in 1..Len(PolSeq) : TInit(PolSeq[i], Cursor0)
  /\ path = <<>>
  /\ IF Phase = "play" THEN \E f \in 1..Len(Family) : script = Family[f] ELSE script = <<>>
  /\ nAbort = 0 /\ nFail = 0 /\ nPlay = 0 /\ nPub = 0

Life == DoBegin \/ DoEmit \/ DoCommit \/ DoAbort \/ DoFailedCommit
Playback == DoSubscribe \/ DoUnsubscribe \/ DoSetActive \/ DoSeek \/ DoStep \/ DoPublish \/ DoClearSession \/ DoClear
MC_Next == Life \/ Playback
MC_Spec == MC_Init /\ [][MC_Next]_allvars

\* life phase: identity = bus content, number of attempts, last_* , open flag, number of ticks and the LAST tick
LastTick == IF ticks = <<>> THEN <<>> ELSE <<ticks[Len(ticks)]>>
MC_ViewLife == <<policies, pending, Len(hist), report, tx, Len(ticks), LastTick, nAbort, nFail>>
\* play phase: everything but the witness path
MC_ViewPlay == <<policies, tx, pending, Len(hist), ticks, script, subs, active, ctick, frames, receipt, nPlay, nPub>>
=============================================================================
