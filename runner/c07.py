"""C07 - replay is path-independent.

MC : MC_C07.tla over Provenance.tla: a history of N ticks, every checkpoint subset, the unforked
     worldline and a fork at every tick (the fork diverges and gets its own checkpoints), then every
     sequence of MaxLen cursor actions (seek_to / step under every mode / checkpoint-here).
     Invariants: cursor.materialized = StateAt(tick) (fold from U0), checkpoints = StateAt,
     replay entry point = StateAt, chain well-formed, fork copies prefix + checkpoints <= t+1,
     append-only.  The model also predicts the path (advance / from checkpoint c / from U0).
RP : every behaviour is replayed into the real PlaybackCursor / ProvenanceService over REAL histories
     produced by the real WorldlineRuntime + SchedulerCoordinator::super_tick (two heads), in two
     variants (entries exactly as appended with checkpoints from live frontier states; entries with
     recorded outputs and checkpoints from replayed states).  After every action the materialized state
     is compared with (a) the live record, (b) a checkpoint-free replay from U0, (c) the model.
TV : long seeded random histories (multi-head SuperTicks, link/unlink/retype ops) with random
     seek/step/mode/checkpoint/fork sessions; same oracles (a), (b); the recorded decisions (tick,
     path, restore base, mode, result) are validated by ProvenanceCursorTrace.tla.
"""
import concurrent.futures
import os
from lib import *

SHARDS = 6

LONG = {"quick": [(60, 400), (120, 400)], "thorough": [(50, 1500), (100, 1500), (150, 1500), (200, 2000), (200, 2000), (80, 3000)]}
MC = {"quick": ["MC_C07_quick.cfg"], "thorough": ["MC_C07_thorough_n5.cfg", "MC_C07_thorough_n4.cfg", "MC_C07_thorough_roles.cfg"]}


def scn_key(c):
    s = c["scn"]
    return (s["h"], s["n"], s["fork"], tuple(s["C"]), tuple(s["C2"]), s["pin"], s["role"])


def between(case):
    """Number of steps whose predicted path restores from a checkpoint strictly between the cursor
    and the target (the situation C07's why_tests_cant names)."""
    n = 0
    tick = 0
    for p in case["pred"]:
        if p["path"] == "ckpt" and p["res"] != "err" and tick < p["from"] < p["tick"]:
            n += 1
        tick = p["tick"]
    return n


def run(tier, replay=None):
    ck = Check("C07", tier)
    binp = build_harness()
    stats = {"paths": {}, "ckpt_strictly_between": 0, "forked_cases": 0, "drift": 0}
    total = 0
    def replay_job(label, hists, cases):
        nonlocal total
        # shards run in parallel processes; every shard rebuilds the (cheap) real histories first
        nsh = max(1, min(SHARDS, len(cases) // 2000 + 1))
        step = (len(cases) + nsh - 1) // nsh
        parts = [cases[k * step:(k + 1) * step] for k in range(nsh)]

        def shard(k):
            cin = write_ndjson(os.path.join(WORK, f"c07_{label}.{k}.cases"), hists + parts[k])
            cout = os.path.join(WORK, f"c07_{label}.{k}.results")
            harness(binp, ["c07", cin, cout], timeout=7200)
            rs = read_ndjson(cout)
            if len(rs) != len(hists) + len(parts[k]):
                raise ToolError("harness result count mismatch")
            for h, r in zip(hists, rs[:len(hists)]):
                if r["verdict"] == "violation":       # the code under test panicked while the honest history was produced
                    hist_viol[h.get("h")] = (h, r)
                elif r["verdict"] != "ok":
                    raise ToolError(f"history {h.get('h')} could not be produced by the real runtime: {r.get('detail')}")
            return rs[len(hists):]

        hist_viol = {}
        with concurrent.futures.ThreadPoolExecutor(max_workers=nsh) as ex:
            results = [r for rs in ex.map(shard, range(nsh)) for r in rs]
        for hid, (h, r) in sorted(hist_viol.items()):
            ck.violation(f"{r['kind']}", r.get("detail", ""), {"hists": [h], "cases": []})
        for c, r in zip(cases, results):
            if c.get("kind") == "long":
                continue
            if c.get("scn", {}).get("h") in hist_viol:
                continue
            total += 1
            if r["verdict"] == "violation":
                ck.violation(f"{r['kind']}", r.get("detail", ""), {"hists": hists, "cases": [c]})
                continue
            if r.get("drift"):
                stats["drift"] += 1
                if len(ck.notes) < 6:
                    ck.notes.append({"model_drift": r["drift"][:3], "scn": c["scn"], "steps": c["steps"]})
            for p in c["pred"]:
                stats["paths"][p["path"]] = stats["paths"].get(p["path"], 0) + 1
            b = between(c)
            stats["ckpt_strictly_between"] += 1 if b else 0
            if c["scn"]["fork"] >= 0:
                stats["forked_cases"] += 1
        if cases and cases[0].get("kind") != "long":
            inter = [c for c in cases[::97] if between(c) and c["scn"]["fork"] >= 0]
            mid = inter[len(inter) // 2] if inter else cases[len(cases) // 2]
            ck.sample({"scn": mid["scn"], "steps": mid["steps"], "pred": [{k: p[k] for k in ("tick", "path", "from", "res", "st")} for p in mid["pred"]]})

    replay_long = None
    if replay:
        obj = json.load(open(replay))["case"]
        if obj.get("long"):
            replay_long = dict(obj["long"], kind="long")
        else:
            replay_job("replay", obj["hists"], obj["cases"])
    else:
        for cfg in MC[tier]:
            res = tlc("MC_C07", cfg, workers=6, timeout=7200, tags=("CASE", "HIST"), out_name="c07_" + cfg.replace(".cfg", ""))
            ck.add_tlc(res)
            if res.violation:
                ck.violation(f"spec:{cfg}:{res.violation}", "TLC invariant violated on the model:\n" + res.error_text[:3000],
                             {"cfg": cfg, "invariant": res.violation, "trace": res.error_text[:20000]})
                continue
            hists = [dict(o, kind="hist") for t, o in res.lines if t == "HIST"]
            cases = [o for t, o in res.lines if t == "CASE"]
            res.lines = []
            if not cases or not hists:
                raise ToolError(f"{cfg}: nothing exported")
            cases.sort(key=scn_key)
            replay_job(cfg.replace(".cfg", ""), hists, cases)
            del cases
    # ---- long random histories (TV)
    long_total = 0
    long_stats = {}
    if not replay or replay_long:
        specs = [replay_long] if replay_long else [{"kind": "long", "seed": ck.seed * 1000 + i, "ticks": t, "actions": a} for i, (t, a) in enumerate(LONG[tier])]
        cin = write_ndjson(os.path.join(WORK, "c07_long.cases"), specs)
        cout = os.path.join(WORK, "c07_long.results")
        trace = os.path.join(WORK, "c07_long.trace.ndjson")
        harness(binp, ["c07", cin, cout, trace], timeout=7200)
        for spec, r in zip(specs, read_ndjson(cout)):
            long_total += 1
            if r["verdict"] == "violation":
                ck.violation(f"long:{r['kind']}", r.get("detail", ""), {"long": {k: spec[k] for k in ("seed", "ticks", "actions")}})
            elif r["verdict"] != "ok":
                raise ToolError(f"long history failed: {r}")
            else:
                for k, v in r["stats"].items():
                    long_stats[k] = long_stats.get(k, 0) + v
                long_stats["ticks"] = long_stats.get("ticks", 0) + r["ticks"]
                long_stats["lanes"] = long_stats.get("lanes", 0) + r["lanes"]
        nev = sum(1 for _ in open(trace))
        if nev and not replay:
            tr = tlc("ProvenanceCursorTrace", "ProvenanceCursorTrace.cfg", workers=1, env={"TRACE": trace}, timeout=3600,
                     java_opts="-Xss1g -Dtlc2.tool.queue.IStateQueue=StateDeque", tags=(), out_name="c07_trace")
            out = open(tr.stdout_path).read()
            m = re.search(r'"REJECTED_AT", (\d+)', out)
            if m or tr.postcondition_failed or tr.violation:
                idx = int(m.group(1)) if m else -1
                evs = read_ndjson(trace)
                # the materialized values were already decided against the live record and the U0 replay:
                # a control decision that differs from the model while the state is right is drift, not a violation
                stats["drift"] += 1
                ck.notes.append({"cursor_decision_drift": f"ProvenanceCursorTrace rejects event {idx}",
                                 "event": evs[idx - 1] if 0 < idx <= len(evs) else None, "before": evs[max(0, idx - 4):max(0, idx - 1)]})
                long_stats["trace_accepted_events"] = max(0, idx - 1)
            else:
                long_stats["trace_accepted_events"] = nev
            long_stats["trace_events"] = nev
    if not replay and long_stats.get("ckpt_between", 0) == 0:
        raise ToolError("vacuous: no long-history seek restored from a checkpoint strictly between cursor and target")
    if not replay and (stats["ckpt_strictly_between"] == 0 or stats["forked_cases"] == 0):
        raise ToolError("vacuous: the enumeration contains no checkpoint strictly between cursor and target, or no fork")
    ck.cov["traces_validated_against_impl"] = total + long_total
    ck.cov["evaluations"] = total * 2 * 3 + sum(a for _, a in LONG[tier])
    ck.cov["distinct_nontrivial"] = stats["ckpt_strictly_between"]
    ck.cov["rule"] = ("every behaviour of MaxLen cursor actions of the bounded model (%s), each replayed on two store variants; non-trivial = "
                      "at least one step restores from a checkpoint lying strictly between the cursor and the target" % ", ".join(MC[tier]))
    ck.cov["model_paths"] = stats["paths"]
    ck.cov["forked_cases"] = stats["forked_cases"]
    ck.cov["model_drift_cases"] = stats["drift"]
    ck.cov["long_histories"] = long_stats
    ck.cov["exhaustive"] = replay is None
    ck.assumptions += ["bounded model: history tables, N, MaxLen and the action alphabet in the cfg", "BLAKE3 collision-freeness",
                       "histories come from one cmd rule interpreting intent bytes (set/clear attachment, link, unlink, retype)",
                       "committed_ingress and last_materialization_errors are not compared (replay resets them by contract)",
                       "rules cannot emit to the materialization bus: recorded outputs of the 'outs' variant are synthesized on the entries",
                       "a cursor is not used after a SeekError other than the pre-mutation ones (pin / history bound)"]
    return ck.finish()
