------------------------------ MODULE MC_C05s ------------------------------
(***************************************************************************)
(* C05, transport leg: SuffixTransport.tla over the fixed store of         *)
(* MC_C05.tla (worldline a with 3 entries, its fork sibling f diverging    *)
(* after tick 0, the independent worldline b).                             *)
(*                                                                         *)
(* Behaviours: Init picks the importer's basis state (its copy of a: a     *)
(* prefix of 0..3 entries or the sibling's continuation under a's id; its  *)
(* copy of f: the fork point only or the full sibling); then               *)
(*   Export(a, from, to, boundary witness)  every range incl. empty / open *)
(*   Transport                                                             *)
(*   Tamper(part, field, variant, index, redigest)   optional, every item  *)
(*   EvaluateAdmission(target worldline)             pure                  *)
(*   Import, Import                                  the second = re-import *)
(* Every terminal state is exported as a CASE with the predicted outcomes  *)
(* and replayed on real values by harness/src/c05s.rs.  Export obstruction *)
(* cases (request x context x boundary witness) are initial states of      *)
(* their own (phase "xcase").                                              *)
(***************************************************************************)
EXTENDS SuffixStore, SuffixTransport, Json

CONSTANTS Tier        \* "quick" | "thorough": which cross products are explored

MC_WlRank(w) == CASE w = A -> 1 [] w = F -> 2 [] w = B -> 3 [] OTHER -> 9

MC_OtherWl(w) == IF w = B THEN A ELSE B

VARIABLES sc          \* the scenario chosen so far: [r (range), a, f (importer basis state), xc (export case)]
svars == <<entries, ckpts, cur, last, imp, seen, wire, phase, obs, sc>>

S == A                                            \* the exporting worldline
FA == [i \in 1..Len(EF) |-> RewriteForFork(EF[i], F, A)]      \* the sibling's history under a's id (a diverged replica)
ExStore == [x \in {A, F, B} |-> IF x = A THEN EA ELSE Others[x]]
NoCkT == [x \in {A, F, B} |-> {}]

\* ---- importer basis states ---------------------------------------------------------------------------
ImpAStates == {"p0", "p1", "p2", "p3", "d2", "d3"}
ImpFStates == {"point", "full"}
ImpA(s) == CASE s = "p0" -> <<>> [] s = "p1" -> SubSeq(EA, 1, 1) [] s = "p2" -> SubSeq(EA, 1, 2) [] s = "p3" -> EA
             [] s = "d2" -> SubSeq(FA, 1, 2) [] s = "d3" -> FA
ImpTable(a, f) == [x \in {A, F, B} |-> IF x = A THEN ImpA(a) ELSE IF x = F THEN (IF f = "point" THEN SubSeq(EF, 1, 1) ELSE EF) ELSE EB]

\* ---- ranges ---------------------------------------------------------------------------------------------
\* (from, to, bw): suffix (from, to] of a; to = -1 = open frontier; bw = boundary witness the context supplies
Ranges == {<<0, 1, "none">>, <<0, 2, "none">>, <<1, 2, "none">>, <<0, -1, "none">>, <<0, 2, "base">>, <<1, 2, "base">>,
           <<1, 1, "base">>, <<2, 2, "base">>, <<2, -1, "base">>, <<0, 0, "none">>, <<0, 2, "report">>, <<1, 2, "report">>}
BwOf(from, bwm) == IF bwm = "base" THEN RefOf(EA[from + 1]) ELSE None
HiOf(r) == IF r[2] < 0 THEN Len(EA) - 1 ELSE r[2]

\* ---- donors -------------------------------------------------------------------------------------------------
DonorSeq(k) == IF k = "sibling" THEN EF ELSE EB
DonorW(k) == IF k = "sibling" THEN F ELSE B
HasDonor(k, tick) == tick + 1 <= Len(DonorSeq(k))
DonorEnt(k, mode, tick) ==
  LET d == DonorSeq(k)[tick + 1]
  IN CASE mode = "verbatim" -> d [] mode = "claimed" -> [d EXCEPT !.w = A] [] mode = "rewritten" -> RewriteForFork(d, DonorW(k), A)

\* ---- tamper catalogue ------------------------------------------------------------------------------------------
NoTamper == [part |-> "none", field |-> "", variant |-> "", idx |-> -1, rd |-> "raw"]
T(part, field, variant, idx, rd) == [part |-> part, field |-> field, variant |-> variant, idx |-> idx, rd |-> rd]

BundleItems == {<<"base.w", "other">>, <<"base.tick", "plus1">>, <<"base.cid", "flip">>, <<"base", "sibling">>,
                <<"to.w", "other">>, <<"to.tick", "plus1">>, <<"to.cid", "flip">>}
ShellItems == {<<"w", "other">>, <<"start", "plus1">>, <<"start", "minus1">>, <<"end", "none">>, <<"end", "plus1">>, <<"end", "below">>,
               <<"bw", "base">>, <<"bw", "to">>, <<"bw", "foreign">>, <<"bw", "flip">>, <<"bw", "drop">>,
               <<"report", "stale">>, <<"report", "match">>, <<"report", "anchor">>}
RefItems == {<<"w", "other">>, <<"tick", "plus1">>, <<"tick", "minus1">>, <<"cid", "flip">>, <<"ref", "sibling">>, <<"ref", "sibling_claimed">>, <<"ref", "independent">>}
ListItems == {"drop", "duplicate", "dup_end", "swap", "truncate"}
SpliceItems == {<<k, m>> : k \in {"sibling", "independent"}, m \in {"verbatim", "claimed", "rewritten"}}
BtrHeaderItems == {<<"w", "other">>, <<"u0", "alter">>, <<"inH", "flip">>, <<"outH", "flip">>, <<"pw", "other">>, <<"start", "plus1">>,
                   <<"counter", "alter">>, <<"tag", "alter">>}
ReqItems == {<<"basis", "unknown">>, <<"basis", "stale">>, <<"basis", "foreign">>, <<"report", "stale">>, <<"report", "match">>}

TampersOf(pkg) ==
  LET b == pkg.bundle  sh == b.shell  n == Len(sh.refs)  m == Len(pkg.ents)
  IN {T("bundle", it[1], it[2], -1, rd) : it \in BundleItems, rd \in {"raw", "all"}}
     \cup {T("bundle", "bd", "flip", -1, "raw")}
     \cup {T("shell", it[1], it[2], -1, rd) : it \in ShellItems, rd \in {"raw", "all"}}
     \cup {T("shell", "wd", "flip", -1, "raw"), T("shell", "wd", "flip", -1, "bundle")}
     \cup {T("shell", "end", "none", -1, "shell"), T("shell", "start", "plus1", -1, "shell")}
     \cup {T("refs", it[1], it[2], i, rd) : it \in RefItems, i \in 0..(n - 1), rd \in {"raw", "all"}}
     \cup {T("refs", "list", v, i, rd) : v \in ListItems, i \in 0..(n - 1), rd \in {"raw", "all"}}
     \cup {T("ents", fv[1], fv[2], i, "raw") : fv \in AlterVariants, i \in 0..(m - 1)}
     \cup {T("ents", "list", v, i, "raw") : v \in ListItems \ {"dup_end"}, i \in 0..(m - 1)}
     \cup {T("ents", "splice", sp[1] \o "_" \o sp[2], i, "raw") : sp \in SpliceItems, i \in 0..(m - 1)}
     \cup (IF pkg.btr = None THEN {}
           ELSE {T("btr", it[1], it[2], -1, "raw") : it \in BtrHeaderItems}
                \cup {T("btr.ents", fv[1], fv[2], i, "raw") : fv \in AlterVariants, i \in 0..(m - 1)}
                \cup {T("btr.ents", "list", v, i, "raw") : v \in ListItems \ {"dup_end"}, i \in 0..(m - 1)}
                \cup {T("btr.ents", "splice", sp[1] \o "_" \o sp[2], i, "raw") : sp \in SpliceItems, i \in 0..(m - 1)})
     \cup {T("req", it[1], it[2], -1, "raw") : it \in ReqItems}
     \cup {T("compound", "donor", k, -1, "all") : k \in {"sibling", "independent"}}
     \* the same unbound entry field altered in the transported entry AND in the BTR payload
     \cup {T("compound", "entry+btr", "outputs_add", i, "raw") : i \in 0..(m - 1)}

SpliceKind(v) == IF v \in {"sibling_verbatim", "sibling_claimed", "sibling_rewritten"} THEN "sibling" ELSE "independent"
SpliceMode(v) == IF v \in {"sibling_verbatim", "independent_verbatim"} THEN "verbatim"
                 ELSE IF v \in {"sibling_claimed", "independent_claimed"} THEN "claimed" ELSE "rewritten"

\* does the catalogue item apply to this package
TamperOk(pkg, t) ==
  LET b == pkg.bundle  sh == b.shell  n == Len(sh.refs)  m == Len(pkg.ents)  i == t.idx + 1 IN
  CASE t.part = "bundle" /\ t.field = "base" -> HasDonor("sibling", b.base.tick)
    [] t.part = "shell" /\ t.field = "start" /\ t.variant = "minus1" -> sh.start > 0
    [] t.part = "shell" /\ t.field = "end" -> sh.end # None /\ (t.variant = "below" => sh.start > 0)
    [] t.part = "shell" /\ t.field = "bw" /\ t.variant \in {"flip", "drop"} -> sh.bw # None /\ (t.variant = "drop" => n > 0)
    [] t.part = "shell" /\ t.field = "bw" /\ t.variant = "base" -> sh.bw # b.base
    [] t.part = "refs" /\ t.field = "ref" /\ t.variant \in {"sibling", "sibling_claimed"} -> HasDonor("sibling", sh.refs[i].tick)
    [] t.part = "refs" /\ t.field = "ref" /\ t.variant = "independent" -> HasDonor("independent", sh.refs[i].tick)
    [] t.part = "refs" /\ t.field = "tick" -> IF t.variant = "plus1" THEN i = n ELSE i = 1      \* never two refs at one coordinate
    [] t.part = "refs" /\ t.field = "list" /\ t.variant = "swap" -> i + 1 <= n
    [] t.part = "refs" /\ t.field = "list" /\ t.variant = "dup_end" -> i = 1
    [] t.part \in {"ents", "btr.ents"} /\ t.field = "list" /\ t.variant = "swap" -> i + 1 <= m
    [] t.part \in {"ents", "btr.ents"} /\ t.field = "splice" -> HasDonor(SpliceKind(t.variant), pkg.ents[i].tick)
    [] t.part \in {"ents", "btr.ents"} /\ t.field \notin {"list", "splice"} -> Applicable(pkg.ents[i], <<t.field, t.variant>>)
    [] t.part = "compound" /\ t.field = "donor" -> n > 0 /\ HasDonor(t.variant, sh.refs[n].tick)
    [] OTHER -> TRUE

EditEnts(es, t) ==
  LET i == t.idx + 1 IN
  IF t.field = "list" THEN StructEdit(es, t.variant, i, None)
  ELSE IF t.field = "splice" THEN SeqSet(es, i, DonorEnt(SpliceKind(t.variant), SpliceMode(t.variant), es[i].tick))
  ELSE SeqSet(es, i, Alter(es[i], <<t.field, t.variant>>))

StaleReport(b) == [realized |-> [b.base EXCEPT !.cid = Flip(@)], tag |-> "r"]
MatchReport(b) == [realized |-> b.base, tag |-> "r"]
AnchorReport(b) == [realized |-> b.base, tag |-> "r2"]      \* same realized parent, another anchor

ApplyTamper(pkg, t) ==
  LET b == pkg.bundle  sh == b.shell  i == t.idx + 1
      rdg(b2) == IF t.rd = "bundle" THEN [b2 EXCEPT !.bd = BundleDigest(b2.base, b2.to, b2.shell.wd)] ELSE Redigest(b2, t.rd)
  IN
  CASE t.part = "bundle" ->
         [pkg EXCEPT !.bundle = rdg(
            CASE t.field = "base.w" -> [b EXCEPT !.base.w = B]
              [] t.field = "base.tick" -> [b EXCEPT !.base.tick = @ + 1]
              [] t.field = "base.cid" -> [b EXCEPT !.base.cid = Flip(@)]
              [] t.field = "base" -> [b EXCEPT !.base = RefOf(EF[b.base.tick + 1])]
              [] t.field = "to.w" -> [b EXCEPT !.to.w = B]
              [] t.field = "to.tick" -> [b EXCEPT !.to.tick = @ + 1]
              [] t.field = "to.cid" -> [b EXCEPT !.to.cid = Flip(@)]
              [] t.field = "bd" -> [b EXCEPT !.bd = Flip(@)])]
    [] t.part = "shell" ->
         [pkg EXCEPT !.bundle = rdg([b EXCEPT !.shell =
            CASE t.field = "w" -> [sh EXCEPT !.w = B]
              [] t.field = "start" -> [sh EXCEPT !.start = IF t.variant = "plus1" THEN @ + 1 ELSE @ - 1]
              [] t.field = "end" -> [sh EXCEPT !.end = IF t.variant = "none" THEN None ELSE IF t.variant = "plus1" THEN @ + 1 ELSE sh.start - 1]
              [] t.field = "bw" -> [sh EXCEPT !.bw = CASE t.variant = "base" -> b.base [] t.variant = "to" -> b.to
                                                     [] t.variant = "foreign" -> RefOf(EB[1]) [] t.variant = "flip" -> [@ EXCEPT !.cid = Flip(@)]
                                                     [] t.variant = "drop" -> None]
              [] t.field = "wd" -> [sh EXCEPT !.wd = Flip(@)]
              [] t.field = "report" -> [sh EXCEPT !.report = IF t.variant = "stale" THEN StaleReport(b) ELSE IF t.variant = "anchor" THEN AnchorReport(b) ELSE MatchReport(b)]])]
    [] t.part = "refs" ->
         [pkg EXCEPT !.bundle = rdg([b EXCEPT !.shell.refs =
            CASE t.field = "w" -> SeqSet(@, i, [@[i] EXCEPT !.w = B])
              [] t.field = "tick" -> SeqSet(@, i, [@[i] EXCEPT !.tick = IF t.variant = "plus1" THEN @ + 1 ELSE @ - 1])
              [] t.field = "cid" -> SeqSet(@, i, [@[i] EXCEPT !.cid = Flip(@)])
              [] t.field = "ref" -> SeqSet(@, i, CASE t.variant = "sibling" -> RefOf(EF[@[i].tick + 1])
                                                   [] t.variant = "sibling_claimed" -> [RefOf(EF[@[i].tick + 1]) EXCEPT !.w = A]
                                                   [] t.variant = "independent" -> RefOf(EB[@[i].tick + 1]))
              [] t.field = "list" -> StructEdit(@, t.variant, i, None)])]
    [] t.part = "ents" -> [pkg EXCEPT !.ents = EditEnts(@, t)]
    [] t.part = "btr" ->
         [pkg EXCEPT !.btr =
            CASE t.field = "w" -> [@ EXCEPT !.w = B] [] t.field = "u0" -> [@ EXCEPT !.u0 = "w1"]
              [] t.field = "inH" -> [@ EXCEPT !.inH = Flip(@)] [] t.field = "outH" -> [@ EXCEPT !.outH = Flip(@)]
              [] t.field = "pw" -> [@ EXCEPT !.pw = B] [] t.field = "start" -> [@ EXCEPT !.start = @ + 1]
              [] t.field = "counter" -> [@ EXCEPT !.counter = @ + 1] [] t.field = "tag" -> [@ EXCEPT !.tag = Append(@, "x")]]
    [] t.part = "btr.ents" -> [pkg EXCEPT !.btr.ents = EditEnts(@, t)]
    [] t.part = "req" -> [pkg EXCEPT !.reqedit = t.field \o "_" \o t.variant]
    [] t.part = "compound" /\ t.field = "donor" ->
         \* the donor's continuation after the base, every id rewritten to a, shell and bundle rebuilt: what fork() itself produces
         LET ticks == [j \in 1..Len(sh.refs) |-> sh.refs[j].tick]
             des == [j \in 1..Len(ticks) |-> DonorEnt(t.variant, "rewritten", ticks[j])]
             drefs == [j \in 1..Len(des) |-> RefOf(des[j])]
         IN [pkg EXCEPT !.ents = des,
                        !.bundle = MkBundle(b.base, drefs[Len(drefs)], [sh EXCEPT !.refs = drefs])]
    [] t.part = "compound" /\ t.field = "entry+btr" ->
         [pkg EXCEPT !.ents = SeqSet(@, i, Alter(@[i], <<"outputs", "add">>)),
                     !.btr = IF @ = None THEN None ELSE [@ EXCEPT !.ents = SeqSet(@, i, Alter(@[i], <<"outputs", "add">>))]]

DoImport(im, sn, pkg, tw) == ImportExec(im, sn, pkg, tw)
DoEval(im, pkg, tw) == EvalExec(im, pkg, tw)

\* ---- which cross products a tier explores -------------------------------------------------------------------------------
AtBasis(r) == CASE r[1] = 0 -> "p1" [] r[1] = 1 -> "p2" [] OTHER -> "p3"
AdmissionPart(t) == t.part \in {"bundle", "shell", "refs", "req", "compound"}
\* quick: every tamper on the importer standing at the basis; the tampers that can influence admission on every
\* importer state for the two-entry range; everything untampered everywhere
TamperAllowed(r, a, f, t) ==
  IF Tier = "thorough" THEN a \in {AtBasis(r), "p3", "d3", "p0"} \/ AdmissionPart(t)
  ELSE \/ (a = AtBasis(r) /\ f = "full" /\ r[3] = "none")
       \/ (a = AtBasis(r) /\ f = "full" /\ r = <<1, 1, "base">> /\ AdmissionPart(t))
       \/ (AdmissionPart(t) /\ r = <<0, 2, "none">> /\ (f = "full" \/ a = "p3"))
TargetAllowed(r, a, f, t, tw) ==
  IF t = NoTamper THEN TRUE
  ELSE IF Tier = "thorough" THEN tw = A \/ (AdmissionPart(t) /\ tw = F) \/ (t.part = "req" /\ tw = B)
  ELSE tw = A \/ (tw = F /\ AdmissionPart(t) /\ r = <<0, 2, "none">> /\ a = "p3")

\* ---- export obstruction cases (pure) ---------------------------------------------------------------------------------------------
XReqs == {"r01", "r02", "r12", "r0open", "r11", "r22", "base_other_w", "base_cid_flip", "base_beyond", "to_other_w", "to_below", "to_cid_flip",
          "to_beyond", "src_other"}
XCtxs == {"honest", "none", "all", "dup", "reversed", "foreign", "short"}
XBws == {"none", "base", "to", "mid", "foreign", "base_wrongcid", "below"}
RA(t) == RefOf(EA[t + 1])
XReq(x) ==
  LET mk(base, to) == [w |-> A, base |-> base, to |-> to, report |-> None] IN
  CASE x = "r01" -> mk(RA(0), RA(1)) [] x = "r02" -> mk(RA(0), RA(2)) [] x = "r12" -> mk(RA(1), RA(2)) [] x = "r0open" -> mk(RA(0), None)
    [] x = "r11" -> mk(RA(1), RA(1)) [] x = "r22" -> mk(RA(2), RA(2))
    [] x = "base_other_w" -> mk(RefOf(EB[1]), RA(2)) [] x = "base_cid_flip" -> mk([RA(0) EXCEPT !.cid = Flip(@)], RA(2))
    [] x = "base_beyond" -> mk([RA(2) EXCEPT !.tick = 5], None)
    [] x = "to_other_w" -> mk(RA(0), RefOf(EB[2])) [] x = "to_below" -> mk(RA(1), RA(0)) [] x = "to_cid_flip" -> mk(RA(0), [RA(2) EXCEPT !.cid = Flip(@)])
    [] x = "to_beyond" -> mk(RA(0), [RA(2) EXCEPT !.tick = 5])
    [] x = "src_other" -> [w |-> B, base |-> RA(0), to |-> RA(2), report |-> None]
\* tick-window context: the coordinates of a's entries in (base.tick, to.tick] without checking that base / to are held commits
WindowEntries(req) ==
  LET hi == IF req.to = None THEN Len(EA) - 1 ELSE req.to.tick
      ticks == {t \in 0..(Len(EA) - 1) : t > req.base.tick /\ t <= hi}
  IN [i \in 1..Cardinality(ticks) |-> RA(req.base.tick + i)]
XCtx(c, req) ==
  LET h == HonestSourceEntries(ExStore, req) IN
  CASE c = "honest" -> h
    [] c = "none" -> None
    [] c = "all" -> [i \in 1..Len(EA) |-> RA(i - 1)]
    [] c = "dup" -> IF WindowEntries(req) = <<>> THEN <<>> ELSE Append(WindowEntries(req), WindowEntries(req)[1])
    [] c = "reversed" -> LET s == WindowEntries(req) IN [i \in 1..Len(s) |-> s[Len(s) + 1 - i]]
    [] c = "foreign" -> Append(WindowEntries(req), RefOf(EB[2]))
    [] c = "short" -> LET s == WindowEntries(req) IN SubSeq(s, 1, Len(s) - 1)
XBw(b, req) ==
  CASE b = "none" -> None [] b = "base" -> req.base [] b = "to" -> IF req.to = None THEN RA(2) ELSE req.to
    [] b = "mid" -> RA(1) [] b = "foreign" -> RefOf(EB[1]) [] b = "base_wrongcid" -> [req.base EXCEPT !.cid = Flip(@)]
    [] b = "below" -> RA(0)
XCases == {[req |-> x, ctx |-> c, bw |-> b] : x \in XReqs, c \in XCtxs, b \in XBws}
XPred(xc) == LET req == XReq(xc.req) IN ExportSuffix(req, XCtx(xc.ctx, req), XBw(xc.bw, req))

\* ---- spec -----------------------------------------------------------------------------------------------------------------------------
Obs0 == [export |-> "", tamper |-> NoTamper, tw |-> "", eval |-> None, exec |-> "", before |-> None, reimport |-> "", btr |-> None]
Sc0 == [r |-> <<0, 0, "none">>, a |-> "", f |-> "", xc |-> None]

TInit ==
  /\ entries = ExStore /\ ckpts = NoCkT
  /\ cur = [w |-> A, tick |-> 0, role |-> "Reader", mode |-> Paused, mat |-> MatU0, pin |-> 0] /\ last = NoOutcome
  /\ seen = {} /\ wire = None /\ obs = Obs0
  /\ \/ \E a \in ImpAStates, f \in ImpFStates : imp = ImpTable(a, f) /\ phase = "idle" /\ sc = [Sc0 EXCEPT !.a = a, !.f = f]
     \/ \E xc \in XCases : imp = ImpTable("p0", "full") /\ phase = "xcase" /\ sc = [Sc0 EXCEPT !.xc = xc]

TExport == \E r \in Ranges : Export(S, r[1], r[2], BwOf(r[1], r[3]), r[3] = "report") /\ sc' = [sc EXCEPT !.r = r]
TTransport == Transport /\ UNCHANGED sc
TTamper ==
  /\ phase = "arrived"
  /\ \E t \in TampersOf(wire) :
        /\ TamperAllowed(sc.r, sc.a, sc.f, t) /\ TamperOk(wire, t)
        /\ LET edited == ApplyTamper(wire, t) IN edited # wire /\ TamperWith(edited, t)
  /\ UNCHANGED sc
TEvaluate ==
  /\ phase \in {"arrived", "tampered"}
  /\ \E tw \in {A, F, B} : TargetAllowed(sc.r, sc.a, sc.f, obs.tamper, tw) /\ EvaluateAdmission(tw)
  /\ UNCHANGED sc
TImport == Import /\ UNCHANGED sc
TValidateBtr == ValidateBtrStep /\ UNCHANGED sc

TNext == TExport \/ TTransport \/ TTamper \/ TEvaluate \/ TImport \/ TValidateBtr
TSpec == TInit /\ [][TNext]_svars

\* ---- honest reference ----------------------------------------------------------------------------------------------------------------------
HonestPkg(r) ==
  LET req == RangeRequest(S, r[1], r[2], r[3] = "report")
      x == ExportSuffix(req, HonestSourceEntries(ExStore, req), BwOf(r[1], r[3]))
      btr == BuildBtr(ExStore, S, r[1] + 1, HiOf(r) + 1, 7, <<"tag">>)
  IN [bundle |-> x.bundle, ents |-> SubSeq(EA, r[1] + 2, HiOf(r) + 1), btr |-> IF btr.ok THEN btr.rec ELSE None, reqedit |-> ""]
Cids(seq) == [i \in 1..Len(seq) |-> seq[i].cid]
IsCidPrefix(s, full) == Len(s) <= Len(full) /\ \A i \in 1..Len(s) : s[i].cid = full[i].cid
TickClasses(im, tw, orig) ==
  [t \in 1..(Len(im[tw]) + 1) |-> Classify(ReplayIn(im, NoCkT, tw, t - 1), IF t - 1 <= Len(orig) THEN AdvanceSeq(orig, MatU0, 0, t - 1).mat ELSE MatU0)]
AllSame(tc2) == \A i \in DOMAIN tc2 : tc2[i] = "same"
Changed == phase \in {"imported", "reimported"} /\ obs.exec \in {"admitted", "duplicate"}

\* the requirement on an untampered package, stated independently of Posture: what each importer basis state must answer
ExpectedClass(r, a, f, tw) ==
  LET from == r[1]  hi == HiOf(r)  empty == hi = from
      la == CASE a = "p0" -> 0 [] a = "p1" -> 1 [] a = "p2" -> 2 [] a = "p3" -> 3 [] a = "d2" -> 2 [] a = "d3" -> 3
      dv == a \in {"d2", "d3"}
  IN IF r[3] = "report" THEN (IF la = 0 \/ tw # A \/ a # AtBasis(r) THEN "obstructed" ELSE "admitted")   \* a report is realized at one basis only
     ELSE IF tw = B THEN (IF from > Len(EB) - 1 THEN "staged" ELSE "conflict:UnsupportedImport")   \* never into an unrelated lineage
     ELSE IF tw = F
          THEN IF from >= 1 THEN (IF f = "point" THEN "staged" ELSE "conflict:UnsupportedImport")   \* f's history at the base is not a's
               ELSE IF empty THEN "staged"
               ELSE IF f = "point" THEN "admitted" ELSE "plural"
     ELSE IF la = 0 THEN "obstructed"                                                \* no local basis
     ELSE IF la - 1 < from THEN "staged"                                              \* gap
     ELSE IF dv /\ from >= 1 THEN "conflict:BaseDivergence"                          \* another commit at the base
     ELSE IF empty THEN "staged"                                                      \* boundary only
     ELSE IF dv THEN "conflict:BaseDivergence"                                        \* fork divergence inside the suffix (la >= 2)
     ELSE IF la - 1 >= hi THEN "duplicate" ELSE "admitted"

\* ---- invariants ------------------------------------------------------------------------------------------------------------------------------
Untampered == obs.tamper = NoTamper
Inv_UntamperedOutcome ==
  (phase \in {"imported", "reimported"} /\ Untampered) =>
     /\ obs.exec = ExpectedClass(sc.r, sc.a, sc.f, obs.tw)
     /\ (obs.exec \in {"admitted", "duplicate"} =>
           LET hi == HiOf(sc.r) IN
           /\ Len(imp[obs.tw]) >= hi + 1
           /\ \A i \in 1..(hi + 1) : imp[obs.tw][i].cid = EA[i].cid /\ imp[obs.tw][i].root = EA[i].root
           /\ (obs.tw = S => SubSeq(imp[S], 1, hi + 1) = SubSeq(EA, 1, hi + 1))        \* exactly the exporter's entries
           /\ AllSame(TickClasses([imp EXCEPT ![obs.tw] = SubSeq(@, 1, hi + 1)], obs.tw, EA))
           /\ (obs.tw = S /\ wire.btr # None => ValidateBtr(imp, wire.btr) = "ok"))
\* every exportable range exports, and the untampered BTR validates where the history is held
Inv_ExportOk == (phase = "exported") => (wire # None /\ (wire.btr # None => ValidateBtr(entries, wire.btr) = "ok"))
Inv_ExportObstructedOnlyWithoutWitness == (phase = "obstructed") => (HiOf(sc.r) = sc.r[1] /\ sc.r[3] = "none")

\* fields the digests / the chain bind: a tampered package never changes the importer except to exactly the original result
Unbound(t) == \/ (t.part = "ents" /\ (t.field \in {"patch.plan", "patch.rewrites", "outputs"} \/ (t.field = "receipt" /\ t.variant = "none")))
              \/ (t.part = "compound")
Inv_TamperEvident ==
  (Changed /\ ~Untampered /\ ~Unbound(obs.tamper)) =>
     /\ IsCidPrefix(imp[obs.tw], EA)
     /\ AllSame(TickClasses(imp, obs.tw, EA))
\* a consistently rebuilt donor package is accepted only as the donor worldline's own verified history
Inv_DonorIsDonorHistory ==
  (Changed /\ obs.tamper.part = "compound" /\ obs.tamper.field = "donor") =>
     LET d == IF obs.tamper.variant = "sibling" THEN EF ELSE EB IN IsCidPrefix(imp[obs.tw], d) /\ AllSame(TickClasses(imp, obs.tw, d))
\* whatever happened, the importer retains only verified history of one of the exporter's worldlines
Inv_VerifiedHistoryOnly ==
  (phase \in {"imported", "reimported"}) =>
     /\ \A t \in 0..Len(imp[obs.tw]) : ReplayIn(imp, NoCkT, obs.tw, t).ok
     /\ \E d \in {EA, EF, EB} : IsCidPrefix(imp[obs.tw], d)
\* fork lineage rule: history enters another worldline's lineage only as the source's verified history on a shared base
Inv_ForkLineage ==
  (Changed /\ obs.tw # S /\ obs.exec = "admitted" /\ obs.tamper.part # "compound") =>
     /\ obs.tw = F /\ obs.before[F] = SubSeq(EF, 1, 1)
     /\ IsCidPrefix(imp[F], EA) /\ AllSame(TickClasses(imp, F, EA))
\* shell level: raw alterations of bundle / shell / refs and altered requests are never admitted with another answer
\* what import_suffix returns (the reason and the source-ref descriptor are the model's annotations)
ResultOf(e) == [bd |-> e.bd, digest |-> e.adm.digest, basis |-> e.adm.basis, out |-> e.adm.out]
HonestEval == DoEval(obs.before, HonestPkg(sc.r), obs.tw)
ShellLevel(t) == \/ (t.part \in {"bundle", "shell", "refs"} /\ t.rd \in {"raw", "shell", "bundle"})
                 \/ (t.part = "req" /\ ((t.field = "basis" /\ t.variant \in {"unknown", "foreign"}) \/ (t.field = "report" /\ t.variant = "stale")))
Inv_ShellLevel ==
  (phase = "imported" /\ ~Untampered /\ ShellLevel(obs.tamper)) => (obs.eval.adm.out.kind # "Admitted" \/ ResultOf(obs.eval) = ResultOf(HonestEval))
\* an admission names a basis the importer holds
Inv_AdmittedBasisHeld == (phase = "imported" /\ obs.eval.adm.out.kind = "Admitted") => Held(obs.before, obs.eval.adm.basis)
\* the cmd/import_suffix_intent rule never records an admission
Inv_IntentRuleOnlyStages == (phase \in {"arrived", "tampered"}) => StagedIntentResult(ReqOf(imp, wire, S)).out.kind = "Staged"
\* BTR: a tampered record is refused where the history is held, or attests exactly the original segment
Inv_BtrEvident ==
  (phase = "tampered" /\ obs.tamper.part \in {"btr", "btr.ents"}) =>
     (ValidateBtr(entries, wire.btr) # "ok" \/ BtrSegment(wire.btr) = BtrSegment(HonestPkg(sc.r).btr))
\* ... and wherever a record validates, every payload entry IS the stored entry; after an untampered import at the basis it does
Inv_BtrBindsEntries ==
  (phase = "validated" /\ wire.btr # None) =>
     /\ (obs.btr.after = "ok" => \A i \in 1..Len(wire.btr.ents) : imp[wire.btr.w][wire.btr.ents[i].tick + 1] = wire.btr.ents[i])
     /\ (obs.btr.holder = "ok" => \A i \in 1..Len(wire.btr.ents) : entries[wire.btr.w][wire.btr.ents[i].tick + 1] = wire.btr.ents[i])
\* the model never needs the byte order of two commit hashes
Inv_NoHashOrderNeeded == (wire # None) => RefsHashOrderFree(wire.bundle.shell.refs)
Inv_XNoHashOrder == (phase = "xcase") => LET req == XReq(sc.xc.req) x == XCtx(sc.xc.ctx, req) IN (x = None \/ RefsHashOrderFree(x))

\* ---- export --------------------------------------------------------------------------------------------------------------------------------------
NoneInt(x) == IF x = None THEN -1 ELSE x
\* a commit id by name: the exporter entry that carries it (smallest worldline, tick), flipped or not
Coords == {<<x, i>> : x \in {A, F, B}, i \in 1..3}
CidJson(c) ==
  LET flipped == c[1] = "tampered"
      c0 == IF flipped THEN c[2] ELSE c
      hits == {p \in Coords : p[2] <= Len(ExStore[p[1]]) /\ ExStore[p[1]][p[2]].cid = c0}
      best == CHOOSE p \in hits : \A q \in hits : MC_WlRank(p[1]) < MC_WlRank(q[1]) \/ (p[1] = q[1] /\ p[2] <= q[2])
  IN IF hits = {} THEN [w |-> "?", t |-> -1, flip |-> flipped] ELSE [w |-> best[1], t |-> best[2] - 1, flip |-> flipped]
RefJson(r) == IF r = None THEN [w |-> "", t |-> -1, c |-> [w |-> "", t |-> -1, flip |-> FALSE]] ELSE [w |-> r.w, t |-> r.tick, c |-> CidJson(r.cid)]
ReportJson(p) == IF p = None THEN [some |-> FALSE, realized |-> RefJson(None), tag |-> ""] ELSE [some |-> TRUE, realized |-> RefJson(p.realized), tag |-> p.tag]
\* the content a shell digest covers, read back from the digest value itself
DigestContentJson(d) ==
  [w |-> d[2], start |-> d[3], end |-> NoneInt(d[4]), refs |-> [i \in 1..Len(d[5]) |-> RefJson(d[5][i])], bw |-> RefJson(d[6]), report |-> ReportJson(d[7])]
WdJson(wd) == IF wd[1] = "tampered" THEN [flip |-> TRUE, of |-> DigestContentJson(wd[2])] ELSE [flip |-> FALSE, of |-> DigestContentJson(wd)]
ShellKey(sh) == DigestContentJson(ShellDigest(sh))
BundleKey(b) == [base |-> RefJson(b.base), to |-> RefJson(b.to), wd |-> WdJson(b.shell.wd)]

EvalJson(e) ==
  [class |-> OutClass(e.adm.out), why |-> e.adm.why, srck |-> e.adm.srcd.k, srci |-> e.adm.srcd.i,
   nrefs |-> IF e.adm.out.kind \in {"Admitted", "Staged", "Plural"} THEN Len(e.adm.out.refs) ELSE 0,
   basis |-> RefJson(e.adm.basis)]

CaseJson ==
  LET after == imp
      tw == obs.tw
      orig == IF obs.tamper.part = "compound" /\ obs.tamper.field = "donor" THEN (IF obs.tamper.variant = "sibling" THEN EF ELSE EB) ELSE EA
      hp == HonestPkg(sc.r)
  IN [kind |-> "case", from |-> sc.r[1], to |-> sc.r[2], bw |-> sc.r[3], a |-> sc.a, f |-> sc.f, tw |-> tw,
      part |-> obs.tamper.part, field |-> obs.tamper.field, variant |-> obs.tamper.variant, idx |-> obs.tamper.idx, rd |-> obs.tamper.rd,
      eval |-> EvalJson(obs.eval), eval_same |-> (ResultOf(obs.eval) = ResultOf(DoEval(obs.before, hp, tw))),
      exec |-> obs.exec, reimport |-> obs.reimport, len_before |-> Len(obs.before[tw]), len_after |-> Len(after[tw]),
      ticks |-> IF obs.exec \in {"admitted", "duplicate"} THEN TickClasses(after, tw, orig) ELSE <<>>,
      cids |-> [i \in 1..Len(after[tw]) |-> CidJson(after[tw][i].cid)],
      btr_holder |-> obs.btr.holder, btr_before |-> obs.btr.before, btr_after |-> obs.btr.after,
      btr_same_segment |-> IF wire.btr = None THEN TRUE ELSE BtrSegment(wire.btr) = BtrSegment(hp.btr),
      shell_key |-> ShellKey(wire.bundle.shell), bundle_key |-> BundleKey(wire.bundle),
      staged_refs |-> Len(StagedIntentResult(ReqOf(obs.before, wire, tw)).out.refs),
      bound |-> ~Unbound(obs.tamper)]

XCaseJson ==
  LET xc == sc.xc
      p == XPred(xc)
  IN [kind |-> "xcase", req |-> xc.req, ctx |-> xc.ctx, bw |-> xc.bw, ok |-> p.ok,
      nrefs |-> IF p.ok THEN Len(p.bundle.shell.refs) ELSE -1,
      start |-> IF p.ok THEN p.bundle.shell.start ELSE -1, end |-> IF p.ok THEN NoneInt(p.bundle.shell.end) ELSE -1,
      to |-> IF p.ok THEN RefJson(p.bundle.to) ELSE RefJson(None),
      shell_key |-> IF p.ok THEN ShellKey(p.bundle.shell) ELSE ShellKey([w |-> "", start |-> 0, end |-> None, refs |-> <<>>, bw |-> None, wd |-> <<"zero">>, report |-> None]),
      bundle_key |-> IF p.ok THEN BundleKey(p.bundle) ELSE [base |-> RefJson(None), to |-> RefJson(None), wd |-> WdJson(<<"shell", "", 0, None, <<>>, None, None>>)]]

Inv_ExportCases ==
  /\ (phase = "validated") => PrintT(<<"CASE", ToJson(CaseJson)>>)
  /\ (phase = "xcase") => PrintT(<<"CASE", ToJson(XCaseJson)>>)
ASSUME PrintT(<<"STORE", ToJson(StoreJson)>>)
=============================================================================
