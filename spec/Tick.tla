-------------------------------- MODULE Tick --------------------------------
(***************************************************************************)
(* One engine tick (Engine::apply / commit_with_receipt):                  *)
(*   enqueue matched candidates (last-wins on (scope hash, rule)),         *)
(*   drain in canonical key order, reserve (greedy independent set),       *)
(*   execute every accepted rewrite AGAINST THE PRE-TICK STATE into        *)
(*   private deltas, merge canonically, apply, diff -> patch.              *)
(* Transcribed from crates/warp-core/src/engine_impl.rs (apply_in_warp,    *)
(* commit_with_receipt, reserve_for_receipt, apply_reserved_rewrites,      *)
(* merge_parallel_deltas, extend_slots_from_footprint).                    *)
(*                                                                         *)
(* Rewrite rules are data: a small program language interpreted both here  *)
(* and by the harness' table-driven rules (harness/src/programs.rs).       *)
(***************************************************************************)
EXTENDS Graph, Scheduler

CONSTANTS Prog,        \* rule index -> program record [kind, a, b, e, ty, p]; node params may be "S" (= scope)
          KeyRank      \* <<rule, warp, scope>> -> Nat : byte order of the real scope hashes

(***************************************************************************)
(* Programs                                                                *)
(***************************************************************************)
Res(x, scope) == IF x = "S" THEN scope ELSE x

\* declared (honest) footprint of program pr at (w, scope): every access the executor may make
\* and every write target the guard attributes to the ops it may emit.
DeclaredFP(pr, w, scope) ==
  LET a == Res(pr.a, scope)  b == Res(pr.b, scope)  e == pr.e
      nk(x) == {NKey(w, x)}  ek(x) == {EKey(w, x)}
      mk(nr, nw, er, ew, ar, aw) == FP(nr, nw, er, ew, ar, aw, {}, {}, {0})
  IN CASE pr.kind = "SetAtom"     -> mk(nk(a), {}, {}, {}, {NAtt(w, a)}, {NAtt(w, a)})
       [] pr.kind = "CopyAtt"     -> mk(nk(b), {}, {}, {}, {NAtt(w, a), NAtt(w, b)}, {NAtt(w, b)})
       [] pr.kind = "AddEdge"     -> mk(nk(a) \cup nk(b), nk(a), {}, ek(e), {}, {})
       [] pr.kind = "DelEdgeFrom" -> mk(nk(a), nk(a), {}, ek(e), {EAtt(w, e)}, {EAtt(w, e)})
       [] pr.kind = "SetEdgeAtom" -> mk({}, {}, ek(e), {}, {EAtt(w, e)}, {EAtt(w, e)})
       [] pr.kind = "UpsertNode"  -> mk({}, nk(a), {}, {}, {}, {})
       [] pr.kind = "RetypeByAtt" -> mk({}, nk(b), {}, {}, {NAtt(w, a)}, {})
       [] pr.kind = "DelNodeIso"  -> mk(nk(a), nk(a), {}, {}, {NAtt(w, a)}, {NAtt(w, a)})

\* ops emitted by executing pr at (w, scope) against state s (the executor reads s only)
Effects(pr, s, w, scope) ==
  LET a == Res(pr.a, scope)  b == Res(pr.b, scope)  e == pr.e
      hasN(x) == NKey(w, x) \in DOMAIN s.node
  IN CASE pr.kind = "SetAtom" ->
            IF hasN(a) /\ ~IsDesc(Get(s.natt, NKey(w, a))) THEN {OpSetAtt(NAtt(w, a), Atom(pr.p))} ELSE {}
       [] pr.kind = "CopyAtt" ->
            LET v == Get(s.natt, NKey(w, a))
            IN IF hasN(b) /\ ~IsDesc(v) /\ ~IsDesc(Get(s.natt, NKey(w, b))) THEN {OpSetAtt(NAtt(w, b), v)} ELSE {}
       [] pr.kind = "AddEdge" ->
            IF hasN(a) /\ hasN(b) THEN {OpUpsertEdge(w, e, a, b, pr.ty)} ELSE {}
       [] pr.kind = "DelEdgeFrom" ->
            IF EKey(w, e) \in OutEdges(s, w, a) /\ ~IsDesc(Get(s.eatt, EKey(w, e)))
            THEN {OpDeleteEdge(w, a, e)} ELSE {}
       [] pr.kind = "SetEdgeAtom" ->
            IF EKey(w, e) \in DOMAIN s.edge /\ ~IsDesc(Get(s.eatt, EKey(w, e)))
            THEN {OpSetAtt(EAtt(w, e), Atom(pr.p))} ELSE {}
       [] pr.kind = "UpsertNode" -> {OpUpsertNode(w, a, pr.ty)}
       [] pr.kind = "RetypeByAtt" ->
            {OpUpsertNode(w, b, IF Get(s.natt, NKey(w, a)) = Atom(pr.p) THEN pr.ty ELSE pr.ty2)}
       [] pr.kind = "DelNodeIso" ->
            IF hasN(a) /\ OutEdges(s, w, a) = {} /\ ~IsDesc(Get(s.natt, NKey(w, a)))
            THEN {OpDeleteNode(w, a)} ELSE {}

\* a candidate is <<rule, warp, scope>>; it matches when its scope node exists
Matches(c, s) == HasWarp(s, c[2]) /\ NKey(c[2], c[3]) \in DOMAIN s.node

\* Stage B1 law (Engine::apply_in_warp, descent_stack): a rewrite inside a descended instance READS
\* every portal attachment on the chain from the root instance down to its own instance.
RECURSIVE DescentOf(_, _)
DescentOf(s, w) == IF ~HasWarp(s, w) \/ s.inst[w].parent = None THEN {}
                   ELSE {s.inst[w].parent} \cup DescentOf(s, s.inst[w].parent[2])
WithDescent(f, s, w) == [f EXCEPT !.ar = @ \cup DescentOf(s, w)]
CandFP(c, s)  == WithDescent(DeclaredFP(Prog[c[1]], c[2], c[3]), s, c[2])
CandOps(c, s) == Effects(Prog[c[1]], s, c[2], c[3])

(***************************************************************************)
(* The tick as a function of the candidate SET (the C01 oracle)            *)
(***************************************************************************)
CandLess(c, d) == KeyRank[c] < KeyRank[d]
DrainOrder(S)  == SetToSortSeq(S, CandLess)

\* merge_parallel_deltas: flatten, sort by sort_key, identical duplicates collapse,
\* two different ops under one sort key are a merge conflict
MergeOk(ops) == \A o1, o2 \in ops : SortKey(o1) = SortKey(o2) => o1 = o2

InSlots(F)  == UNION {f.nr \cup f.nw : f \in F} \cup UNION {f.er \cup f.ew : f \in F}
               \cup UNION {f.ar \cup f.aw : f \in F}
OutSlots(F) == UNION {f.nw : f \in F} \cup UNION {f.ew : f \in F} \cup UNION {f.aw : f \in F}

TickOracle(pre, S) ==
  LET order == DrainOrder(S)
      fps   == [k \in 1..Len(order) |-> CandFP(order[k], pre)]
      acc   == GreedyAdmit(fps)
      accepted == {order[k] : k \in {x \in 1..Len(order) : acc[x]}}
      ops   == UNION {CandOps(c, pre) : c \in accepted}
      r     == IF MergeOk(ops) THEN ApplyOps(pre, CanonSeq(ops)) ELSE [ok |-> FALSE, s |-> EmptyState, errs |-> {"MergeConflict"}]
  IN [order |-> order, acc |-> acc,
      blockers |-> [k \in 1..Len(order) |-> IF acc[k] THEN {} ELSE Blockers(fps, acc, k)],
      accepted |-> accepted, ok |-> r.ok,
      post |-> IF r.ok THEN r.s ELSE pre,
      inSlots |-> InSlots({CandFP(c, pre) : c \in accepted}), outSlots |-> OutSlots({CandFP(c, pre) : c \in accepted})]

(***************************************************************************)
(* Serial semantics: accepted rewrites executed one after another, each     *)
(* against the state left by the previous one, in a given order.           *)
(* Independence (the footprint discipline) promises the same result for    *)
(* EVERY order, equal to the tick's.                                       *)
(***************************************************************************)
RECURSIVE SerialRec(_, _, _)
SerialRec(s, seq, i) ==
  IF i > Len(seq) THEN [ok |-> TRUE, s |-> s]
  ELSE LET ops == CandOps(seq[i], s)
           r == ApplyOps(s, CanonSeq(ops))
       IN IF r.ok THEN SerialRec(r.s, seq, i + 1) ELSE [ok |-> FALSE, s |-> s]
Serial(pre, seq) == SerialRec(pre, seq, 1)
=============================================================================
