SPECIFICATION Spec
CONSTANTS
  Channels = {0, 1}
  Mode = "set"
  NTok <- MC_SetA_N
  TokAt <- MC_SetA_At
  PolSeq <- MC_Pol11x2
  RegisterFirst = FALSE
  MinN = 2
  MaxN = 5
  Export = TRUE
  CheckRekeyDirect = FALSE
  None = None
INVARIANTS Inv_TypeOK Inv_Pending Inv_Dup Inv_Oracle Inv_OracleNow Inv_Partition Inv_Rekey Inv_NoRepeatAllOk Inv_Export
PROPERTIES Prop_Rejected Prop_Accepted
CHECK_DEADLOCK FALSE
