SPECIFICATION MC_Spec
CONSTANTS
  Intents = {}
  IdRank <- MC_IdRank
  Handlers <- MC_Handlers
  HandlerRank <- MC_HandlerRank
  HMatches <- MC_HMatches
  DispatchPolicy = "min_id"
  None = None
  IntentSet = {"A1", "B1", "AB1", "N1"}
  EventSet = {}
  SeqNos = {7}
  Mode = "beh"
  MidTx = FALSE
  UseDrainAll = FALSE
  MaxRetry = 0
  MaxTx = 5
  MaxAbort = 0
  MaxDrainAll = 0
  Export = TRUE
INVARIANTS GraphWellFormed PendingIsSet LedgerPartition AtMostOnce ConsumedInCanonicalOrder HandledExactlyOnce LogSound LegacyIngressBlocksFresh TicksSound DrainIsFunctionOfSet Inv_Export
PROPERTIES RetryChangesNothing IngestLaw DispatchPicksMin OnlyCommitConsumes
CHECK_DEADLOCK FALSE
