//! Abstraction map between the model's graph state / ops (JSON as printed by the TLA+
//! `StateJson` / `OpJson` operators) and the real `WarpState` / `WarpOp`.

use serde::{Deserialize, Serialize};
use warp_core::{
    AttachmentKey, AttachmentOwner, AttachmentValue, EdgeKey, EdgeRecord, GraphStore, NodeKey,
    NodeRecord, PortalInit, TickPatchError, WarpInstance, WarpOp, WarpState,
};

use crate::ids::{self, Inverse};

#[derive(Serialize, Deserialize, Clone, PartialEq, Eq, Debug, PartialOrd, Ord, Default)]
pub struct KeyJ {
    pub o: String,
    #[serde(default, skip_serializing_if = "String::is_empty")]
    pub w: String,
    #[serde(default, skip_serializing_if = "String::is_empty")]
    pub id: String,
}

#[derive(Serialize, Deserialize, Clone, PartialEq, Eq, Debug, PartialOrd, Ord, Default)]
pub struct AttJ {
    pub k: String,
    #[serde(default, skip_serializing_if = "String::is_empty")]
    pub p: String,
    #[serde(default, skip_serializing_if = "String::is_empty")]
    pub w: String,
}

#[derive(Serialize, Deserialize, Clone, PartialEq, Eq, Debug, PartialOrd, Ord)]
pub struct InstJ {
    pub w: String,
    pub root: String,
    pub parent: KeyJ,
}
#[derive(Serialize, Deserialize, Clone, PartialEq, Eq, Debug, PartialOrd, Ord)]
pub struct NodeJ {
    pub w: String,
    pub n: String,
    pub ty: String,
    pub att: AttJ,
}
#[derive(Serialize, Deserialize, Clone, PartialEq, Eq, Debug, PartialOrd, Ord)]
pub struct EdgeJ {
    pub w: String,
    pub e: String,
    pub from: String,
    pub to: String,
    pub ty: String,
    pub att: AttJ,
}
#[derive(Serialize, Deserialize, Clone, PartialEq, Eq, Debug, Default)]
pub struct StateJ {
    pub inst: Vec<InstJ>,
    pub node: Vec<NodeJ>,
    pub edge: Vec<EdgeJ>,
}

impl StateJ {
    pub fn normalized(mut self) -> Self {
        self.inst.sort();
        self.node.sort();
        self.edge.sort();
        self
    }
}

#[derive(Serialize, Deserialize, Clone, PartialEq, Eq, Debug, Default)]
pub struct OpJ {
    pub op: String,
    #[serde(default, skip_serializing_if = "Option::is_none")]
    pub key: Option<KeyJ>,
    #[serde(default, skip_serializing_if = "Option::is_none")]
    pub child: Option<String>,
    #[serde(default, skip_serializing_if = "Option::is_none")]
    pub croot: Option<String>,
    #[serde(default, skip_serializing_if = "Option::is_none")]
    pub init: Option<String>,
    #[serde(default, skip_serializing_if = "Option::is_none")]
    pub ty: Option<String>,
    #[serde(default, skip_serializing_if = "Option::is_none")]
    pub w: Option<String>,
    #[serde(default, skip_serializing_if = "Option::is_none")]
    pub root: Option<String>,
    #[serde(default, skip_serializing_if = "Option::is_none")]
    pub parent: Option<KeyJ>,
    #[serde(default, skip_serializing_if = "Option::is_none")]
    pub n: Option<String>,
    #[serde(default, skip_serializing_if = "Option::is_none")]
    pub e: Option<String>,
    #[serde(default, skip_serializing_if = "Option::is_none")]
    pub from: Option<String>,
    #[serde(default, skip_serializing_if = "Option::is_none")]
    pub to: Option<String>,
    #[serde(default, skip_serializing_if = "Option::is_none")]
    pub value: Option<AttJ>,
}

pub fn nkey(w: &str, n: &str) -> NodeKey {
    NodeKey { warp_id: ids::warp(w), local_id: ids::node(n) }
}
pub fn ekey(w: &str, e: &str) -> EdgeKey {
    EdgeKey { warp_id: ids::warp(w), local_id: ids::edge(e) }
}

pub fn key_to_real(k: &KeyJ) -> Option<AttachmentKey> {
    match k.o.as_str() {
        "n" => Some(AttachmentKey::node_alpha(nkey(&k.w, &k.id))),
        "e" => Some(AttachmentKey::edge_beta(ekey(&k.w, &k.id))),
        _ => None,
    }
}

pub fn key_to_abs(inv: &Inverse, k: Option<&AttachmentKey>) -> Result<KeyJ, String> {
    match k {
        None => Ok(KeyJ { o: "none".into(), ..Default::default() }),
        Some(k) => {
            if !k.is_plane_valid() {
                return Err(format!("invalid attachment plane {k:?}"));
            }
            match k.owner {
                AttachmentOwner::Node(nk) => Ok(KeyJ {
                    o: "n".into(),
                    w: inv.warp(&nk.warp_id)?.into(),
                    id: inv.node(&nk.local_id)?.into(),
                }),
                AttachmentOwner::Edge(ek) => Ok(KeyJ {
                    o: "e".into(),
                    w: inv.warp(&ek.warp_id)?.into(),
                    id: inv.edge(&ek.local_id)?.into(),
                }),
            }
        }
    }
}

pub fn att_to_real(a: &AttJ) -> Option<AttachmentValue> {
    match a.k.as_str() {
        "atom" => Some(AttachmentValue::Atom(ids::atom(&a.p))),
        "desc" => Some(AttachmentValue::Descend(ids::warp(&a.w))),
        _ => None,
    }
}

pub fn att_to_abs(inv: &Inverse, a: Option<&AttachmentValue>) -> Result<AttJ, String> {
    match a {
        None => Ok(AttJ { k: "none".into(), ..Default::default() }),
        Some(AttachmentValue::Atom(p)) => Ok(AttJ { k: "atom".into(), p: inv.atom(p)?.into(), ..Default::default() }),
        Some(AttachmentValue::Descend(w)) => Ok(AttJ { k: "desc".into(), w: inv.warp(w)?.into(), ..Default::default() }),
    }
}

/// Builds the real state. Nodes/edges are inserted in the order given, so callers can
/// choose the construction order (C06).
pub fn build_state(s: &StateJ) -> WarpState {
    let mut state = WarpState::new();
    for inst in &s.inst {
        let wid = ids::warp(&inst.w);
        let mut store = GraphStore::new(wid);
        for n in s.node.iter().filter(|n| n.w == inst.w) {
            store.insert_node(ids::node(&n.n), NodeRecord { ty: ids::ty(&n.ty) });
            if let Some(v) = att_to_real(&n.att) {
                store.set_node_attachment(ids::node(&n.n), Some(v));
            }
        }
        for e in s.edge.iter().filter(|e| e.w == inst.w) {
            store.insert_edge(
                ids::node(&e.from),
                EdgeRecord { id: ids::edge(&e.e), from: ids::node(&e.from), to: ids::node(&e.to), ty: ids::ty(&e.ty) },
            );
            if let Some(v) = att_to_real(&e.att) {
                store.set_edge_attachment(ids::edge(&e.e), Some(v));
            }
        }
        warp_core::verif::upsert_instance(
            &mut state,
            WarpInstance { warp_id: wid, root_node: ids::node(&inst.root), parent: key_to_real(&inst.parent) },
            store,
        );
    }
    state
}

/// Projects a real state back to the model's vocabulary; fails loudly on anything the
/// table does not know, and on internal inconsistencies the public accessors expose.
pub fn project_state(inv: &Inverse, state: &WarpState) -> Result<StateJ, String> {
    let mut out = StateJ::default();
    let wids = warp_core::verif::warp_ids(state);
    let sids = warp_core::verif::store_ids(state);
    if wids != sids {
        return Err(format!("instances/stores desynced: {wids:?} vs {sids:?}"));
    }
    for wid in wids {
        let w = inv.warp(&wid)?;
        let inst = state.instance(&wid).ok_or("instance vanished")?;
        if inst.warp_id != wid {
            return Err("instance.warp_id mismatch".into());
        }
        out.inst.push(InstJ {
            w: w.into(),
            root: inv.node(&inst.root_node)?.into(),
            parent: key_to_abs(inv, inst.parent.as_ref())?,
        });
        let store = state.store(&wid).ok_or("store vanished")?;
        if store.warp_id() != wid {
            return Err("store.warp_id mismatch".into());
        }
        let mut n_att = 0usize;
        for (nid, rec) in store.iter_nodes() {
            let att = store.node_attachment(nid);
            if att.is_some() {
                n_att += 1;
            }
            out.node.push(NodeJ {
                w: w.into(),
                n: inv.node(nid)?.into(),
                ty: inv.ty(&rec.ty)?.into(),
                att: att_to_abs(inv, att)?,
            });
        }
        if store.iter_node_attachments().count() != n_att {
            return Err(format!("dangling node attachment in {w}"));
        }
        let mut e_att = 0usize;
        for (from, edges) in store.iter_edges() {
            // an empty bucket is storage layout, not content: tolerated here, judged by the hashes
            for e in edges {
                if e.from != *from {
                    return Err("edge.from differs from its bucket".into());
                }
                if !store.has_edge(&e.id) {
                    return Err("edge missing from index".into());
                }
                let att = store.edge_attachment(&e.id);
                if att.is_some() {
                    e_att += 1;
                }
                out.edge.push(EdgeJ {
                    w: w.into(),
                    e: inv.edge(&e.id)?.into(),
                    from: inv.node(&e.from)?.into(),
                    to: inv.node(&e.to)?.into(),
                    ty: inv.ty(&e.ty)?.into(),
                    att: att_to_abs(inv, att)?,
                });
            }
        }
        if store.iter_edge_attachments().count() != e_att {
            return Err(format!("dangling edge attachment in {w}"));
        }
    }
    Ok(out.normalized())
}

fn req<'a>(o: &'a Option<String>, what: &str) -> Result<&'a str, String> {
    o.as_deref().ok_or_else(|| format!("op field {what} missing"))
}

pub fn op_to_real(o: &OpJ) -> Result<WarpOp, String> {
    Ok(match o.op.as_str() {
        "OpenPortal" => WarpOp::OpenPortal {
            key: key_to_real(o.key.as_ref().ok_or("key")?).ok_or("portal key none")?,
            child_warp: ids::warp(req(&o.child, "child")?),
            child_root: ids::node(req(&o.croot, "croot")?),
            init: match req(&o.init, "init")? {
                "empty" => PortalInit::Empty { root_record: NodeRecord { ty: ids::ty(req(&o.ty, "ty")?) } },
                _ => PortalInit::RequireExisting,
            },
        },
        "UpsertWarpInstance" => WarpOp::UpsertWarpInstance {
            instance: WarpInstance {
                warp_id: ids::warp(req(&o.w, "w")?),
                root_node: ids::node(req(&o.root, "root")?),
                parent: o.parent.as_ref().and_then(key_to_real),
            },
        },
        "DeleteWarpInstance" => WarpOp::DeleteWarpInstance { warp_id: ids::warp(req(&o.w, "w")?) },
        "UpsertNode" => WarpOp::UpsertNode {
            node: nkey(req(&o.w, "w")?, req(&o.n, "n")?),
            record: NodeRecord { ty: ids::ty(req(&o.ty, "ty")?) },
        },
        "DeleteNode" => WarpOp::DeleteNode { node: nkey(req(&o.w, "w")?, req(&o.n, "n")?) },
        "UpsertEdge" => WarpOp::UpsertEdge {
            warp_id: ids::warp(req(&o.w, "w")?),
            record: EdgeRecord {
                id: ids::edge(req(&o.e, "e")?),
                from: ids::node(req(&o.from, "from")?),
                to: ids::node(req(&o.to, "to")?),
                ty: ids::ty(req(&o.ty, "ty")?),
            },
        },
        "DeleteEdge" => WarpOp::DeleteEdge {
            warp_id: ids::warp(req(&o.w, "w")?),
            from: ids::node(req(&o.from, "from")?),
            edge_id: ids::edge(req(&o.e, "e")?),
        },
        "SetAttachment" => WarpOp::SetAttachment {
            key: key_to_real(o.key.as_ref().ok_or("key")?).ok_or("att key none")?,
            value: o.value.as_ref().and_then(att_to_real),
        },
        other => return Err(format!("unknown op {other}")),
    })
}

pub fn op_to_abs(inv: &Inverse, op: &WarpOp) -> Result<OpJ, String> {
    let mut o = OpJ::default();
    match op {
        WarpOp::OpenPortal { key, child_warp, child_root, init } => {
            o.op = "OpenPortal".into();
            o.key = Some(key_to_abs(inv, Some(key))?);
            o.child = Some(inv.warp(child_warp)?.into());
            o.croot = Some(inv.node(child_root)?.into());
            match init {
                PortalInit::Empty { root_record } => {
                    o.init = Some("empty".into());
                    o.ty = Some(inv.ty(&root_record.ty)?.into());
                }
                PortalInit::RequireExisting => {
                    o.init = Some("require".into());
                    o.ty = Some("none".into());
                }
            }
        }
        WarpOp::UpsertWarpInstance { instance } => {
            o.op = "UpsertWarpInstance".into();
            o.w = Some(inv.warp(&instance.warp_id)?.into());
            o.root = Some(inv.node(&instance.root_node)?.into());
            o.parent = Some(key_to_abs(inv, instance.parent.as_ref())?);
        }
        WarpOp::DeleteWarpInstance { warp_id } => {
            o.op = "DeleteWarpInstance".into();
            o.w = Some(inv.warp(warp_id)?.into());
        }
        WarpOp::UpsertNode { node, record } => {
            o.op = "UpsertNode".into();
            o.w = Some(inv.warp(&node.warp_id)?.into());
            o.n = Some(inv.node(&node.local_id)?.into());
            o.ty = Some(inv.ty(&record.ty)?.into());
        }
        WarpOp::DeleteNode { node } => {
            o.op = "DeleteNode".into();
            o.w = Some(inv.warp(&node.warp_id)?.into());
            o.n = Some(inv.node(&node.local_id)?.into());
        }
        WarpOp::UpsertEdge { warp_id, record } => {
            o.op = "UpsertEdge".into();
            o.w = Some(inv.warp(warp_id)?.into());
            o.e = Some(inv.edge(&record.id)?.into());
            o.from = Some(inv.node(&record.from)?.into());
            o.to = Some(inv.node(&record.to)?.into());
            o.ty = Some(inv.ty(&record.ty)?.into());
        }
        WarpOp::DeleteEdge { warp_id, from, edge_id } => {
            o.op = "DeleteEdge".into();
            o.w = Some(inv.warp(warp_id)?.into());
            o.from = Some(inv.node(from)?.into());
            o.e = Some(inv.edge(edge_id)?.into());
        }
        WarpOp::SetAttachment { key, value } => {
            o.op = "SetAttachment".into();
            o.key = Some(key_to_abs(inv, Some(key))?);
            o.value = Some(att_to_abs(inv, value.as_ref())?);
        }
    }
    Ok(o)
}

pub fn err_class(e: &TickPatchError) -> &'static str {
    match e {
        TickPatchError::MissingWarp(_) => "MissingWarp",
        TickPatchError::MissingNode(_) => "MissingNode",
        TickPatchError::MissingEdge(_) => "MissingEdge",
        TickPatchError::NodeNotIsolated(_) => "NodeNotIsolated",
        TickPatchError::InvalidAttachmentKey(_) => "InvalidAttachmentKey",
        TickPatchError::PortalInitRequired => "PortalInitRequired",
        TickPatchError::PortalInvariantViolation => "PortalInvariantViolation",
        TickPatchError::DigestMismatch => "DigestMismatch",
    }
}
