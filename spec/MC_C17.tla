------------------------------ MODULE MC_C17 ------------------------------
(***************************************************************************)
(* C17 model-checking / behaviour-export instance of ExtAction.tla.        *)
(* Bounds: at most MaxOps op-level steps (API calls, observes, recovers),  *)
(* of which at most MaxNoops leave the log untouched (rejected calls,      *)
(* retries, observes), at most MaxFaults are interrupted by a store fault  *)
(* or a crash, and at most MaxRecovers are recoveries.  Every behaviour of *)
(* exactly MaxOps steps is exported as one CASE line carrying, per step,   *)
(* the operation, its arguments, where it was interrupted, the predicted   *)
(* result class, live postures, durable postures, outstanding grants.      *)
(***************************************************************************)
EXTENDS ExtAction, Json, SequencesExt

CONSTANTS MaxOps, MaxNoops, MaxFaults, MaxRecovers, Export

Noop(h)   == h.f = "-" /\ h.o # "recover"
Faulty(h) == h.f \notin {"-", "ok"}
IsRec(h)  == h.o = "recover"
Count(P(_)) == Cardinality({i \in DOMAIN hist : P(hist[i])})

Budget == /\ Len(hist) + (IF pend # None THEN 1 ELSE 0) <= MaxOps
          /\ Count(Noop) <= MaxNoops
          /\ Count(Faulty) <= MaxFaults
          /\ Count(IsRec) <= MaxRecovers
Terminal == pend = None /\ Len(hist) = MaxOps

\* The same actions as ExtAction!Next with the budgets as enabling conditions (so TLC does
\* not generate and then discard the out-of-budget successors).
MCNext ==
  \/ /\ Len(hist) < MaxOps /\ pend = None
     /\ \/ \E op \in Ops : /\ (Decide(op[1], op[2], op[3]) # "DURABLE") => (Count(Noop) < MaxNoops)
                           /\ Call(op[1], op[2], op[3])
        \/ Count(Noop) < MaxNoops /\ Observe
        \/ Count(IsRec) < MaxRecovers /\ Recover
  \/ AppendFrame \/ FlushCommit \/ Return
  \/ /\ Count(Faulty) < MaxFaults
     /\ \/ \E m \in {"pre", "post"} : StoreFault(m)
        \/ \E k \in BOOLEAN : Crash(k)
MCSpec == Init /\ [][MCNext]_vars

\* compact hand-off: one JSON array per step
\*   [op, request, variant, fate, result class, ready, dirty tail, commits, live postures, durable postures(, accessors)]
\* postures are listed in the order of ReqSeq (exported once per case); outstanding grants are
\* the fixed function Grants of the durable postures and are re-derived by the harness.
ReqSeq == SetToSeq(Reqs)
B(x) == IF x THEN 1 ELSE 0
StepJson(h) ==
  LET base == <<h.o, h.r, h.v, h.f, h.res, B(h.rdy), B(h.tail), h.ncommit,
                [i \in 1..Len(ReqSeq) |-> h.lp[ReqSeq[i]]], [i \in 1..Len(ReqSeq) |-> h.dp[ReqSeq[i]]]>>
  IN IF h.o = "observe" THEN Append(base, [i \in 1..Len(ReqSeq) |-> h.acc[ReqSeq[i]]]) ELSE base
CaseJson == [reqs |-> ReqSeq, steps |-> [i \in 1..Len(hist) |-> StepJson(hist[i])]]
Inv_Export == (Export /\ Terminal /\ Budget) => PrintT(<<"CASE", ToJson(CaseJson)>>)

\* for the deep run: the history is reduced to the counters the bounds need
View == <<seg, synced, co, pend, nextTx, issued, Len(hist), Count(Noop), Count(Faulty), Count(IsRec)>>
=============================================================================
