----------------------------- MODULE ObserveTrace -----------------------------
(***************************************************************************)
(* Trace validation (impl -> spec) for property C16, reusing Observe.tla.  *)
(*                                                                         *)
(* A trace (harness c16.rs) is a concatenation of runs:                    *)
(*   reset                                                                 *)
(*   register  w, root0, commit0            empty worldline                *)
(*   commit    w, tick, root, commit, cgt, outs, reads, writes, live       *)
(*   tick      g                            end of a scheduler pass        *)
(*   fork      parent, t, child             WorldlineRuntime::fork_strand  *)
(*   checkpoint w, c                                                       *)
(*   observe   req, res, fp0, fp1           ObservationService::observe    *)
(*   optic     req, res, fp0, fp1           ::observe_optic                *)
(* Hashes are 16 hex digits of the real BLAKE3 values; they are only ever  *)
(* compared for equality.                                                  *)
(*                                                                         *)
(* An observe / optic event is accepted iff                                *)
(*  1. fp0 = fp1 (runtime, provenance and engine fingerprints unchanged);  *)
(*  2. the result class and every field of the reading equal what the      *)
(*     model derives from the LOGGED history at the requested coordinate   *)
(*     (typed error <=> the model's typed error, never a reading);         *)
(*  3. a settled request at an explicit tick returns the coordinate-bound  *)
(*     reading it returned when first asked (cbOf), however many commits,  *)
(*     passes, forks and checkpoints happened since;                       *)
(*  4. the artifact hash is a function of the abstract artifact (hashOf:   *)
(*     identical request against an identical runtime => identical hash;   *)
(*     a later read time is a different artifact) and injective (artOf);   *)
(*     likewise the optic read identity (ridOf / idOf), which does NOT     *)
(*     depend on the read time;                                            *)
(*  4b. the whole optic reading at an explicit tick / provenance ref -     *)
(*     payload, envelope, witness basis and read identity - returns what   *)
(*     it returned when first asked with the same checkpoints strictly     *)
(*     BELOW the coordinate (obOf): later commits and checkpoints taken at *)
(*     or above the coordinate do not affect a historical read;            *)
(*  5. wire length is a function of the payload (plenOf), query bytes a    *)
(*     function of (query, vars, resolved tick, state root) (qOf).         *)
(***************************************************************************)
EXTENDS Observe, Json, IOUtils

Rec == ndJsonDeserialize(IOEnv.TRACE)

VARIABLES l, hashOf, artOf, cbOf, plenOf, qOf, ridOf, idOf, obOf
memos == <<hashOf, artOf, cbOf, plenOf, qOf, ridOf, idOf, obOf>>
vars  == <<l, known, hist, init, gt, strand, ckpt, hashOf, artOf, cbOf, plenOf, qOf, ridOf, idOf, obOf>>

IsEvent(e) == l <= Len(Rec) /\ Rec[l].event = e /\ l' = l + 1

\* f is a partial function; binding k to v is accepted iff k is unbound or already bound to v
\* (IF, not \/: inside an action TLC explores BOTH disjuncts of a disjunction)
Agrees(f, k, v) == IF k \in DOMAIN f THEN f[k] = v ELSE TRUE
Bind(f, k, v)   == IF k \in DOMAIN f THEN f ELSE Ext(f, k, v)

MemoInit == /\ hashOf = EmptyFn /\ artOf = EmptyFn /\ cbOf = EmptyFn /\ plenOf = EmptyFn
            /\ qOf = EmptyFn /\ ridOf = EmptyFn /\ idOf = EmptyFn /\ obOf = EmptyFn

Init == l = 1 /\ RtInit /\ MemoInit

TReset ==
  /\ IsEvent("reset")
  /\ known' = {} /\ hist' = EmptyFn /\ init' = EmptyFn /\ gt' = 0 /\ strand' = EmptyFn /\ ckpt' = EmptyFn
  /\ hashOf' = EmptyFn /\ artOf' = EmptyFn /\ cbOf' = EmptyFn /\ plenOf' = EmptyFn
  /\ qOf' = EmptyFn /\ ridOf' = EmptyFn /\ idOf' = EmptyFn /\ obOf' = EmptyFn

TRegister == IsEvent("register") /\ Register(Rec[l].w, Rec[l].root0, Rec[l].commit0) /\ UNCHANGED memos

TCommit ==
  /\ IsEvent("commit")
  /\ LET e == Rec[l]
         entry == [root |-> e.root, commit |-> e.commit, cgt |-> e.cgt, outs |-> e.outs,
                   reads |-> ToSet(e.reads), writes |-> ToSet(e.writes)]
     IN /\ e.w \in known
        /\ e.tick = Len(hist[e.w])                  \* entries are appended, never rewritten
        /\ IF e.live THEN LiveCommit(e.w, entry) ELSE Commit(e.w, entry)
  /\ UNCHANGED memos

TTick == IsEvent("tick") /\ Tick /\ Rec[l].g = gt + 1 /\ UNCHANGED memos

TFork == IsEvent("fork") /\ Fork(Rec[l].parent, Rec[l].t, Rec[l].child) /\ UNCHANGED memos

TCheckpoint == IsEvent("checkpoint") /\ Checkpoint(Rec[l].w, Rec[l].c) /\ UNCHANGED memos

\* the part of a request the artifact hash covers (plan / instance / rights of an ACCEPTED request
\* are fixed or reappear as planout)
Hashed(q) == [w |-> q.w, at |-> q.at, t |-> q.t, frame |-> q.frame, proj |-> q.proj, chs |-> q.chs, fall |-> q.fall,
              qid |-> q.qid, vars |-> q.vars, bounded |-> q.bounded, maxb |-> q.maxb, maxw |-> q.maxw]

PayloadMatches(q, rd, res) ==
  CASE q.proj \in {"head", "snapshot"} ->
         /\ res.ptype = q.proj /\ res.ptick = rd.rtick /\ res.pcgt = rd.cgt
         /\ res.proot = rd.root /\ res.pcommit = rd.commit
    [] q.proj = "truth" -> res.ptype = "truth" /\ res.truth = rd.truth
    [] OTHER -> res.ptype = "query"

BudgetMatches(bounded, maxb, maxw, res) ==
  IF bounded THEN res.bmaxb = maxb /\ res.bmaxw = maxw /\ res.bwit = 1
  ELSE res.bmaxb = -1 /\ res.bmaxw = -1 /\ res.bwit = -1 /\ res.plen = -1

ReadingMatches(rd, res) ==
  /\ res.rtick = rd.rtick /\ res.cgt = rd.cgt /\ res.oag = rd.oag
  /\ res.root = rd.root /\ res.commit = rd.commit
  /\ res.wit = rd.wit /\ res.post = rd.post
  /\ res.residual = rd.residual /\ res.planout = rd.planout /\ res.plen = rd.plen

TObserve ==
  /\ IsEvent("observe")
  /\ LET e    == Rec[l]
         q    == e.req
         res  == e.res
         rd   == Reading(q, res.plen)
         art  == [q |-> Hashed(q), rd |-> rd, pd |-> res.pd]
         qk   == <<q.qid, q.vars, rd.rtick, rd.root>>
         cb   == [cb |-> CoordBound(rd), pd |-> res.pd]
         hist_req == q.at = "tick" /\ q.w \in known
         settled  == rd.ok \/ rd.err \notin {"InvalidTick", "InvalidWorldline"}
     IN /\ e.fp0 = e.fp1
        /\ Observe(q, res.plen)
        /\ res.ok = rd.ok /\ res.err = rd.err
        /\ rd.ok => /\ ReadingMatches(rd, res)
                    /\ PayloadMatches(q, rd, res)
                    /\ BudgetMatches(q.bounded, q.maxb, q.maxw, res)
                    /\ Agrees(hashOf, art, res.hash) /\ Agrees(artOf, res.hash, art)
                    /\ (q.bounded => Agrees(plenOf, res.pd, res.plen))
                    /\ (q.proj = "query" => Agrees(qOf, qk, res.qd))
        /\ (hist_req /\ settled) => Agrees(cbOf, q, cb)
        /\ hashOf' = IF rd.ok THEN Bind(hashOf, art, res.hash) ELSE hashOf
        /\ artOf'  = IF rd.ok THEN Bind(artOf, res.hash, art) ELSE artOf
        /\ plenOf' = IF rd.ok /\ q.bounded THEN Bind(plenOf, res.pd, res.plen) ELSE plenOf
        /\ qOf'    = IF rd.ok /\ q.proj = "query" THEN Bind(qOf, qk, res.qd) ELSE qOf
        /\ cbOf'   = IF hist_req /\ settled THEN Bind(cbOf, q, cb) ELSE cbOf
        /\ UNCHANGED <<ridOf, idOf, obOf>>

TOptic ==
  /\ IsEvent("optic")
  /\ LET e   == Rec[l]
         o   == e.req
         res == e.res
         x   == OpticReading(o, res.plen)
         rd  == x.rd
         idk == [o |-> o, basis |-> x.basis, root |-> rd.root, commit |-> rd.commit, wit |-> rd.wit,
                 plen |-> rd.plen, residual |-> rd.residual]
         \* the WHOLE logged optic reading at an explicit coordinate is bound to (request, checkpoints strictly
         \* below the coordinate): commits, passes, forks and checkpoints at or above it must not change it
         hist_opt == o.at # "frontier" /\ o.focus = "wl" /\ o.ck = "wl" /\ o.w \in known
         settled  == res.ok \/ res.kind = "LiveTailRequiresReduction"
         obk == [o |-> o, low |-> IF o.w \in known THEN {c \in ckpt[o.w] : c < o.t} ELSE {}]
         obv == [ok |-> res.ok, kind |-> res.kind, reason |-> res.reason, basis |-> res.basis, rid |-> res.rid,
                 ptick |-> res.ptick, pcgt |-> res.pcgt, proot |-> res.proot, pcommit |-> res.pcommit,
                 wit |-> res.wit, post |-> res.post, plen |-> res.plen, pd |-> res.pd, residual |-> res.residual]
     IN /\ e.fp0 = e.fp1
        /\ ObserveOptic(o, res.plen)
        /\ IF x.kind = "ProvRefMismatch"
           THEN ~res.ok                                  \* any typed obstruction, never a reading
           ELSE res.ok = x.ok /\ res.kind = x.kind /\ res.reason = x.reason
        /\ x.ok => /\ res.ptype = (IF o.shape = "head" THEN "head" ELSE "snapshot")
                   /\ res.ptick = rd.rtick /\ res.pcgt = rd.cgt /\ res.proot = rd.root /\ res.pcommit = rd.commit
                   /\ res.wit = rd.wit /\ res.post = rd.post
                   /\ res.residual = rd.residual /\ res.planout = rd.planout /\ res.plen = rd.plen
                   /\ BudgetMatches(TRUE, o.maxb, o.maxt, res)
                   /\ res.basis = x.basis
                   /\ Agrees(ridOf, idk, res.rid) /\ Agrees(idOf, res.rid, idk)
                   /\ Agrees(plenOf, res.pd, res.plen)
        /\ (hist_opt /\ settled) => Agrees(obOf, obk, obv)
        /\ obOf'   = IF hist_opt /\ settled THEN Bind(obOf, obk, obv) ELSE obOf
        /\ ridOf'  = IF x.ok THEN Bind(ridOf, idk, res.rid) ELSE ridOf
        /\ idOf'   = IF x.ok THEN Bind(idOf, res.rid, idk) ELSE idOf
        /\ plenOf' = IF x.ok THEN Bind(plenOf, res.pd, res.plen) ELSE plenOf
        /\ UNCHANGED <<hashOf, artOf, cbOf, qOf>>

Next == TReset \/ TRegister \/ TCommit \/ TTick \/ TFork \/ TCheckpoint \/ TObserve \/ TOptic
Spec == Init /\ [][Next]_vars

Accepted ==
  LET d == TLCGet("stats").diameter
  IN IF d - 1 = Len(Rec) THEN TRUE
     ELSE Print(<<"REJECTED_AT", d, IF d <= Len(Rec) THEN Rec[d].event ELSE "eof">>, FALSE)
=============================================================================
