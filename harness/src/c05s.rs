//! C05, transport leg — witnessed suffix bundles and boundary transition records
//! (spec/SuffixTransport.tla, spec/MC_C05s.tla).
//!
//! The exporter is the real provenance store the real runtime appended to (c05.rs `build_store`
//! over c07.rs `World`): worldline a, its fork sibling f, the independent worldline b.  For every
//! case of the model the harness
//!   * exports the suffix with the real `export_suffix` (provenance-backed export context) and cuts
//!     a real BTR over the same ticks (`build_btr`),
//!   * applies the tamper to the REAL values (`CausalSuffixBundle`, `WitnessedSuffixShell`,
//!     `ProvenanceRef`, `ProvenanceEntry`, `BoundaryTransitionRecord`: every field is `pub`; the
//!     private `derive_causal_suffix_bundle_digest` is obtained as `import_suffix(..).bundle_digest`),
//!   * evaluates admission with the real `import_suffix` / `evaluate_witnessed_suffix_admission`
//!     against an importer that is a real `ProvenanceService` in the case's basis state (the
//!     admission context answers from that store only: `posture` below = SuffixTransport!Posture),
//!   * executes an admission: the transported entries go through the real `append_local_commit`
//!     and `replay_worldline_state_at` on a scratch copy which replaces the importer's store only
//!     if every step succeeds; then imports the same package again,
//!   * validates the (possibly tampered) BTR with the real `validate_btr` where the history is held,
//!     on the importer before and after the import.
//! The property is decided on the REAL outcome: an untampered package is admitted at the basis and
//! leaves exactly the exporter's suffix (entries, commit ids, roots, re-verified state) on the
//! importer; a tampered one leaves the importer untouched (typed outcome) or yields exactly the
//! original result; evaluation is pure, re-import changes nothing, an admission names a basis the
//! importer holds, the importer never retains history that does not re-verify.  Differences from
//! the model's prediction that keep the property are drift.

use std::collections::BTreeMap;

use echo_wasm_abi::kernel_port as abi;
use serde::Deserialize;
use serde_json::{json, Value};
use warp_core::{
    derive_witnessed_suffix_shell_digest, evaluate_witnessed_suffix_admission, export_suffix, import_suffix, make_intent_kind, make_strand_id,
    AttachmentValue, BoundaryTransitionRecord, BtrError, CausalSuffixBundle, ConflictReason, ExportSuffixRequest, ForkBasisRef, Hash,
    ImportSuffixRequest, ImportSuffixResult, InboxAddress, IngressDisposition, IngressEnvelope, IngressTarget, NodeId, ParentMovementFootprint,
    ProvenanceEntry, ProvenanceRef, ProvenanceService, ProvenanceStore, ReadingResidualPosture, StrandBasisReport, StrandDivergenceFootprint,
    StrandRevalidationState, WitnessedSuffixAdmissionContext, WitnessedSuffixAdmissionOutcome, WitnessedSuffixAdmissionRequest,
    WitnessedSuffixExportContext, WitnessedSuffixLocalAdmissionPosture, WitnessedSuffixShell, WorldlineId, WorldlineState,
};

use crate::c05::{self, CaseJ, Ctx, Lane, Store};
use crate::c07::{wt, World};
use crate::ids;
use crate::util;

// --------------------------------------------------------------------------- case lines

#[derive(Deserialize, Clone, Debug, Default)]
struct EvalJ {
    class: String,
    srck: String,
    srci: i64,
    nrefs: i64,
}

#[derive(Deserialize, Clone, Debug, Default)]
struct CidJ {
    w: String,
    t: i64,
    flip: bool,
}

#[derive(Deserialize, Clone, Debug, Default)]
struct RefJ {
    w: String,
    t: i64,
    c: CidJ,
}

#[derive(Deserialize, Clone, Debug, Default)]
struct TCase {
    from: i64,
    to: i64,
    bw: String,
    a: String,
    f: String,
    tw: String,
    part: String,
    field: String,
    variant: String,
    idx: i64,
    rd: String,
    #[serde(default)]
    eval: EvalJ,
    #[serde(default)]
    eval_same: bool,
    #[serde(default)]
    exec: String,
    #[serde(default)]
    reimport: String,
    #[serde(default)]
    len_after: i64,
    #[serde(default)]
    ticks: Vec<String>,
    #[serde(default)]
    cids: Vec<CidJ>,
    #[serde(default)]
    btr_holder: String,
    #[serde(default)]
    btr_before: String,
    #[serde(default)]
    btr_after: String,
    #[serde(default)]
    btr_same_segment: bool,
    #[serde(default)]
    staged_refs: i64,
    /// absent on hand-written replay cases: no prediction to compare with
    #[serde(default)]
    nopred: bool,
}

#[derive(Deserialize, Clone, Debug, Default)]
struct XCase {
    req: String,
    ctx: String,
    bw: String,
    #[serde(default)]
    ok: bool,
    #[serde(default)]
    nrefs: i64,
    #[serde(default)]
    start: i64,
    #[serde(default)]
    end: i64,
    #[serde(default)]
    to: RefJ,
    #[serde(default)]
    nopred: bool,
}

// --------------------------------------------------------------------------- environment

#[derive(Clone)]
struct Pkg {
    bundle: CausalSuffixBundle,
    ents: Vec<ProvenanceEntry>,
    btr: Option<BoundaryTransitionRecord>,
    reqedit: String,
}

struct Env<'a> {
    store: &'a Store,
    a: &'a Lane,
    f: &'a Lane,
    b: &'a Lane,
    /// the exporter: every lane intact
    exp: ProvenanceService,
    /// original re-verified states per lane and tick
    orig: BTreeMap<String, Vec<WorldlineState>>,
    importers: BTreeMap<(String, String), (ProvenanceService, String)>,
    /// fingerprint of the exporter's store when the run started
    exp_fp: String,
    honest: BTreeMap<(i64, i64, String), Pkg>,
    probe: IntentProbe,
    /// drive cmd/import_suffix_intent for every case (thorough) or only on the importer standing at the basis
    probe_all: bool,
}

fn fingerprint(svc: &ProvenanceService) -> String {
    hex::encode(&blake3::hash(format!("{svc:?}").as_bytes()).as_bytes()[..16])
}

fn held(svc: &ProvenanceService, r: &ProvenanceRef) -> bool {
    svc.entry(r.worldline_id, r.worldline_tick).map(|e| e.expected.commit_hash == r.commit_hash).unwrap_or(false)
}

fn tip_ref(svc: &ProvenanceService, w: WorldlineId) -> Option<ProvenanceRef> {
    let n = svc.len(w).ok()?;
    if n == 0 {
        return None;
    }
    svc.entry(w, wt(n - 1)).ok().map(|e| e.as_ref())
}

fn rehome(mut r: ProvenanceRef, w: WorldlineId) -> ProvenanceRef {
    r.worldline_id = w;
    r
}

impl<'a> Env<'a> {
    fn new(store: &'a Store) -> Result<Self, String> {
        let lane = |n: &str| store.lane(n).ok_or_else(|| format!("store has no lane {n}"));
        let (a, f, b) = (lane("a")?, lane("f")?, lane("b")?);
        let exp = store.service_without("")?;
        let mut orig = BTreeMap::new();
        for l in [a, f, b] {
            let v: Result<Vec<WorldlineState>, String> = (0..=l.entries.len() as u64)
                .map(|t| exp.replay_worldline_state_at(l.id, &store.u0, wt(t)).map_err(|e| format!("original {} does not verify at {t}: {e:?}", l.name)))
                .collect();
            orig.insert(l.name.clone(), v?);
        }
        // f's entries under a's id: a diverged replica of a
        let fa: Vec<ProvenanceEntry> = f.entries.iter().map(|e| c05::rewrite_for(e.clone(), f.id, a.id, false)).collect();
        let mut importers = BTreeMap::new();
        for astate in ["p0", "p1", "p2", "p3", "d2", "d3"] {
            for fstate in ["point", "full"] {
                let mut svc = ProvenanceService::new();
                for l in [a, f, b] {
                    svc.register_worldline(l.id, &store.u0).map_err(|e| format!("importer register {}: {e:?}", l.name))?;
                }
                let n: usize = astate[1..].parse().map_err(|_| "importer state")?;
                let src: &[ProvenanceEntry] = if astate.starts_with('p') { &a.entries } else { &fa };
                let fl = if fstate == "point" { 1 } else { f.entries.len() };
                for e in src[..n].iter().chain(f.entries[..fl].iter()).chain(b.entries.iter()) {
                    svc.append_local_commit(e.clone()).map_err(|e| format!("importer state {astate}/{fstate}: {e:?}"))?;
                }
                let fp = fingerprint(&svc);
                importers.insert((astate.to_string(), fstate.to_string()), (svc, fp));
            }
        }
        let exp_fp = fingerprint(&exp);
        Ok(Self { store, a, f, b, exp, orig, importers, exp_fp, honest: BTreeMap::new(), probe: IntentProbe::new(&store.u0)?,
            probe_all: std::env::var("VERIF_C05S_PROBE_ALL").is_ok() })
    }

    fn wl(&self, name: &str) -> Result<WorldlineId, String> {
        self.store.lane(name).map(|l| l.id).ok_or_else(|| format!("unknown worldline {name}"))
    }

    fn lane_of(&self, w: WorldlineId) -> Option<&Lane> {
        [self.a, self.f, self.b].into_iter().find(|l| l.id == w)
    }

    fn alter_ctx(&self) -> Ctx<'_> {
        Ctx { target: self.a, sibling: Some(self.f), independent: Some(self.b), orig: &self.orig["a"] }
    }

    /// the exporter entry that carries this commit id (smallest worldline, tick), flipped or not
    fn cid_name(&self, h: &Hash) -> Value {
        let mut flipped = *h;
        c05::flip(&mut flipped);
        for (want, is_flip) in [(*h, false), (flipped, true)] {
            for l in [self.a, self.f, self.b] {
                for (t, e) in l.entries.iter().enumerate() {
                    if e.expected.commit_hash == want {
                        return json!({"w": l.name, "t": t, "flip": is_flip});
                    }
                }
            }
        }
        json!({"w": "?", "t": -1, "flip": false})
    }
}

// --------------------------------------------------------------------------- export context

/// SuffixTransport!HonestSourceEntries: the coordinates of the store's entries after the base frontier up to the
/// requested frontier (the tip when none is given); no answer unless base and requested frontier are commits the
/// store holds on the source worldline.
fn honest_source_entries(svc: &ProvenanceService, req: &ExportSuffixRequest) -> Option<Vec<ProvenanceRef>> {
    let len = svc.len(req.source_worldline_id).ok()?;
    if !held(svc, &req.base_frontier) || req.base_frontier.worldline_id != req.source_worldline_id {
        return None;
    }
    if let Some(to) = req.target_frontier {
        if !held(svc, &to) || to.worldline_id != req.source_worldline_id {
            return None;
        }
    }
    let hi = match req.target_frontier {
        Some(t) => t.worldline_tick.as_u64() as i64,
        None => len as i64 - 1,
    };
    let lo = req.base_frontier.worldline_tick.as_u64() as i64 + 1;
    (lo..=hi).map(|t| svc.entry(req.source_worldline_id, wt(t as u64)).ok().map(|e| e.as_ref())).collect()
}

struct ExportCtx<'a> {
    svc: &'a ProvenanceService,
    /// Some(x) = the context answers x whatever the store says
    answer: Option<Option<Vec<ProvenanceRef>>>,
    bw: Option<ProvenanceRef>,
}

impl WitnessedSuffixExportContext for ExportCtx<'_> {
    fn source_entries(&self, request: &ExportSuffixRequest) -> Option<Vec<ProvenanceRef>> {
        match &self.answer {
            Some(x) => x.clone(),
            None => honest_source_entries(self.svc, request),
        }
    }
    fn boundary_witness(&self, _request: &ExportSuffixRequest) -> Option<ProvenanceRef> {
        self.bw
    }
}

// --------------------------------------------------------------------------- admission context

struct ImpCtx<'a> {
    svc: &'a ProvenanceService,
    base: ProvenanceRef,
}

fn evidence(label: &str) -> Hash {
    *blake3::hash(format!("verif:c05s:{label}").as_bytes()).as_bytes()
}

/// SuffixTransport!Posture.  The request is well formed by contract (the evaluator resolved its basis): the
/// posture takes the basis tick as the importer's frontier and only looks coordinates up.
fn posture(svc: &ProvenanceService, bf: ProvenanceRef, req: &WitnessedSuffixAdmissionRequest) -> WitnessedSuffixLocalAdmissionPosture {
    use WitnessedSuffixLocalAdmissionPosture as P;
    let t = req.target_worldline_id;
    let s = req.source_suffix.source_worldline_id;
    let refs = &req.source_suffix.source_entries;
    let tip = req.target_basis.worldline_tick.as_u64();
    let loc = |tick: u64| svc.entry(t, wt(tick)).ok().map(|e| e.as_ref());
    let staged = |v: Vec<ProvenanceRef>| P::staged(v.clone()).unwrap_or(P::Staged { staged_refs: v });
    if req.target_basis.worldline_id != t {
        return P::conflict(ConflictReason::UnsupportedImport, req.target_basis, evidence("basis_worldline"), None);
    }
    if bf.worldline_id != s {
        return P::conflict(ConflictReason::UnsupportedImport, bf, evidence("base_worldline"), None);
    }
    if bf.worldline_tick.as_u64() > tip {
        return staged(refs.clone());
    }
    if loc(bf.worldline_tick.as_u64()).map(|r| r.commit_hash) != Some(bf.commit_hash) {
        let reason = if s == t { ConflictReason::BaseDivergence } else { ConflictReason::UnsupportedImport };
        return P::conflict(reason, bf, evidence("base"), None);
    }
    if refs.is_empty() {
        return staged(req.source_suffix.boundary_witness.into_iter().collect());
    }
    if refs.iter().enumerate().any(|(i, r)| r.worldline_tick.as_u64() != bf.worldline_tick.as_u64() + 1 + i as u64) {
        return staged(refs.clone());
    }
    for r in refs {
        let tick = r.worldline_tick.as_u64();
        if tick <= tip {
            let local = loc(tick);
            if local.map(|x| x.commit_hash) != Some(r.commit_hash) {
                if s == t {
                    return P::conflict(ConflictReason::BaseDivergence, *r, evidence("entry"), None);
                }
                let mut v = vec![rehome(*r, t)];
                v.extend(local);
                return P::plural(v.clone()).unwrap_or(P::Plural { candidate_refs: v });
            }
        }
    }
    let v: Vec<ProvenanceRef> = refs.iter().map(|r| rehome(*r, t)).collect();
    P::admissible(v.clone()).unwrap_or(P::Admissible { admitted_refs: v })
}

impl WitnessedSuffixAdmissionContext for ImpCtx<'_> {
    fn source_shell_digest(&self, shell: &WitnessedSuffixShell) -> Option<Hash> {
        Some(derive_witnessed_suffix_shell_digest(shell))
    }
    fn resolve_target_basis(&self, target_basis: ProvenanceRef) -> Option<ProvenanceRef> {
        held(self.svc, &target_basis).then_some(target_basis)
    }
    fn local_admission_posture(&self, request: &WitnessedSuffixAdmissionRequest) -> WitnessedSuffixLocalAdmissionPosture {
        posture(self.svc, self.base, request)
    }
}

/// A context that knows nothing: used only to read the bundle digest `import_suffix` derives
/// (`derive_causal_suffix_bundle_digest` is private).
struct Blind;
impl WitnessedSuffixAdmissionContext for Blind {
    fn source_shell_digest(&self, _shell: &WitnessedSuffixShell) -> Option<Hash> {
        None
    }
    fn resolve_target_basis(&self, _target_basis: ProvenanceRef) -> Option<ProvenanceRef> {
        None
    }
    fn local_admission_posture(&self, request: &WitnessedSuffixAdmissionRequest) -> WitnessedSuffixLocalAdmissionPosture {
        WitnessedSuffixLocalAdmissionPosture::Staged { staged_refs: request.source_suffix.source_entries.clone() }
    }
}

fn derived_bundle_digest(b: &CausalSuffixBundle) -> Hash {
    import_suffix(&ImportSuffixRequest { bundle: b.clone(), target_worldline_id: b.base_frontier.worldline_id, target_basis: b.base_frontier, basis_report: None }, &Blind).bundle_digest
}

fn mk_report(realized: ProvenanceRef, label: &str) -> StrandBasisReport {
    StrandBasisReport {
        strand_id: make_strand_id(&format!("verif-c05s-{label}")),
        parent_anchor: ForkBasisRef {
            source_lane_id: realized.worldline_id,
            fork_tick: wt(0),
            commit_hash: [7; 32],
            boundary_hash: evidence(label),
            provenance_ref: ProvenanceRef { worldline_id: realized.worldline_id, worldline_tick: wt(0), commit_hash: [7; 32] },
        },
        child_worldline_id: WorldlineId::from_bytes([0x5C; 32]),
        source_suffix_start_tick: wt(1),
        source_suffix_end_tick: None,
        realized_parent_ref: realized,
        owned_divergence: StrandDivergenceFootprint::default(),
        parent_movement: ParentMovementFootprint::default(),
        parent_revalidation: StrandRevalidationState::AtAnchor,
    }
}

// --------------------------------------------------------------------------- importer

/// SuffixTransport!ReqOf
fn req_of(env: &Env<'_>, imp: &ProvenanceService, pkg: &Pkg, tw: WorldlineId) -> ImportSuffixRequest {
    let mut basis = tip_ref(imp, tw).unwrap_or(rehome(pkg.bundle.base_frontier, tw));
    let mut report = None;
    match pkg.reqedit.as_str() {
        "basis_unknown" => c05::flip(&mut basis.commit_hash),
        "basis_stale" => {
            let t = basis.worldline_tick.as_u64();
            if t >= 1 && imp.len(tw).unwrap_or(0) >= t {
                if let Ok(e) = imp.entry(tw, wt(t - 1)) {
                    basis = e.as_ref();
                }
            }
        }
        "basis_foreign" => {
            let other = if tw == env.b.id { env.a.id } else { env.b.id };
            if let Some(r) = tip_ref(imp, other) {
                basis = r;
            }
        }
        "report_stale" => {
            let mut r = basis;
            c05::flip(&mut r.commit_hash);
            report = Some(mk_report(r, "q"));
        }
        "report_match" => report = Some(mk_report(basis, "q")),
        _ => {}
    }
    ImportSuffixRequest { bundle: pkg.bundle.clone(), target_worldline_id: tw, target_basis: basis, basis_report: report }
}

fn out_class(o: &WitnessedSuffixAdmissionOutcome) -> String {
    match o {
        WitnessedSuffixAdmissionOutcome::Admitted { .. } => "admitted".into(),
        WitnessedSuffixAdmissionOutcome::Staged { .. } => "staged".into(),
        WitnessedSuffixAdmissionOutcome::Plural { .. } => "plural".into(),
        WitnessedSuffixAdmissionOutcome::Conflict { reason, .. } => format!("conflict:{reason:?}"),
        WitnessedSuffixAdmissionOutcome::Obstructed { .. } => "obstructed".into(),
    }
}

/// SuffixTransport!ImportWith on real values: the class, and the importer's store is replaced only on success.
fn import_exec(env: &Env<'_>, imp: &mut ProvenanceService, seen: &mut Vec<Hash>, pkg: &Pkg, tw: WorldlineId) -> (String, ImportSuffixResult) {
    let req = req_of(env, imp, pkg, tw);
    let res = import_suffix(&req, &ImpCtx { svc: imp, base: pkg.bundle.base_frontier });
    if !matches!(res.admission.outcome, WitnessedSuffixAdmissionOutcome::Admitted { .. }) {
        return (out_class(&res.admission.outcome), res);
    }
    let sh = &pkg.bundle.source_suffix;
    if pkg.ents.len() != sh.source_entries.len() || pkg.ents.iter().zip(&sh.source_entries).any(|(e, r)| e.as_ref() != *r) {
        return ("refused:PackageEntryMismatch".into(), res);
    }
    let n0 = imp.len(tw).unwrap_or(0);
    // coordinates the importer already holds must be the same commits (the posture only looked below the basis it was given)
    if pkg.ents.iter().any(|e| e.worldline_tick.as_u64() < n0 && imp.entry(tw, e.worldline_tick).map(|l| l.expected.commit_hash != e.expected.commit_hash).unwrap_or(true)) {
        return ("refused:LocalHistoryDiverges".into(), res);
    }
    let fresh: Vec<ProvenanceEntry> = pkg
        .ents
        .iter()
        .filter(|e| e.worldline_tick.as_u64() >= n0)
        .map(|e| if tw == sh.source_worldline_id { e.clone() } else { c05::rewrite_for(e.clone(), sh.source_worldline_id, tw, false) })
        .collect();
    let mut scratch = imp.clone();
    for e in &fresh {
        if e.worldline_id != tw {
            return ("refused:EntryWorldlineMismatch".into(), res);
        }
        if let Err(he) = scratch.append_local_commit(e.clone()) {
            return (format!("refused:{}", c05::dbg_name(&he)), res);
        }
    }
    for t in (n0 + 1)..=scratch.len(tw).unwrap_or(0) {
        if let Err(re) = scratch.replay_worldline_state_at(tw, &env.store.u0, wt(t)) {
            return (format!("refused:{}", c05::replay_err_name(&re)), res);
        }
    }
    *imp = scratch;
    if !seen.contains(&res.bundle_digest) {
        seen.push(res.bundle_digest);
    }
    (if fresh.is_empty() { "duplicate".into() } else { "admitted".into() }, res)
}

fn btr_verdict(svc: &ProvenanceService, rec: &BoundaryTransitionRecord) -> String {
    match util::catch(|| svc.validate_btr(rec)) {
        Err(p) => format!("panic:{p}"),
        Ok(Ok(())) => "ok".into(),
        Ok(Err(BtrError::History(h))) => c05::dbg_name(&h),
        Ok(Err(e)) => c05::dbg_name(&e),
    }
}

/// everything a record attests except the reserved header fields (SuffixTransport!BtrSegment)
fn btr_segment(r: &BoundaryTransitionRecord) -> BoundaryTransitionRecord {
    let mut r = r.clone();
    r.logical_counter = 0;
    r.auth_tag.clear();
    r
}

// --------------------------------------------------------------------------- honest export

fn range_request(env: &Env<'_>, from: i64, to: i64) -> Result<ExportSuffixRequest, String> {
    let ea = &env.a.entries;
    let at = |t: i64| ea.get(t as usize).map(|e| e.as_ref()).ok_or_else(|| format!("no entry at tick {t}"));
    Ok(ExportSuffixRequest { source_worldline_id: env.a.id, base_frontier: at(from)?, target_frontier: if to < 0 { None } else { Some(at(to)?) }, basis_report: None })
}

fn honest_pkg(env: &mut Env<'_>, from: i64, to: i64, bw: &str, findings: &mut Vec<Value>) -> Result<Pkg, String> {
    let key = (from, to, bw.to_string());
    if let Some(p) = env.honest.get(&key) {
        return Ok(p.clone());
    }
    let mut req = range_request(env, from, to)?;
    if bw == "report" {
        req.basis_report = Some(mk_report(req.base_frontier, "r"));
    }
    let bwr = if bw == "base" { Some(req.base_frontier) } else { None };
    let fp0 = fingerprint(&env.exp);
    let ctx = ExportCtx { svc: &env.exp, answer: None, bw: bwr };
    let bundle = match util::catch(|| export_suffix(&req, &ctx)) {
        Err(p) => return Err(format!("export_suffix panicked on an honest range: {p}")),
        Ok(Err(o)) => {
            findings.push(json!({"key":"transport:export.untampered_range_obstructed","detail":format!("range ({from},{to}] bw {bw}: {o:?}")}));
            return Err("not exportable".into());
        }
        Ok(Ok(b)) => b,
    };
    if util::catch(|| export_suffix(&req, &ctx)).ok().and_then(|r| r.ok()).as_ref() != Some(&bundle) {
        findings.push(json!({"key":"transport:export.not_deterministic","detail":format!("range ({from},{to}]")}));
    }
    if fingerprint(&env.exp) != fp0 {
        findings.push(json!({"key":"transport:export.not_pure","detail":format!("range ({from},{to}]: the exporter's store changed")}));
    }
    let hi = if to < 0 { env.a.entries.len() as i64 - 1 } else { to };
    let ents: Vec<ProvenanceEntry> = ((from + 1)..=hi).map(|t| env.a.entries[t as usize].clone()).collect();
    let btr = if hi > from {
        match env.exp.build_btr(env.a.id, wt(from as u64 + 1), wt(hi as u64 + 1), 7, b"tag".to_vec()) {
            Ok(r) => Some(r),
            Err(e) => {
                findings.push(json!({"key":"transport:btr.untampered:build_btr","detail":format!("[{},{}): {e:?}", from + 1, hi + 1)}));
                None
            }
        }
    } else {
        None
    };
    let p = Pkg { bundle, ents, btr, reqedit: String::new() };
    env.honest.insert(key, p.clone());
    Ok(p)
}

// --------------------------------------------------------------------------- tampering (MC_C05s!ApplyTamper on real values)

fn redigest(b: &mut CausalSuffixBundle, mode: &str) {
    match mode {
        "shell" => b.source_suffix.witness_digest = derive_witnessed_suffix_shell_digest(&b.source_suffix),
        "all" => *b = CausalSuffixBundle::new(b.base_frontier, b.target_frontier, b.source_suffix.clone()),
        "bundle" => b.bundle_digest = derived_bundle_digest(b),
        _ => {}
    }
}

fn struct_edit<T: Clone>(s: &mut Vec<T>, variant: &str, i: usize) -> Result<(), String> {
    if i >= s.len() {
        return Err(format!("index {i} out of range"));
    }
    match variant {
        "drop" => {
            s.remove(i);
        }
        "duplicate" => {
            let x = s[i].clone();
            s.insert(i + 1, x);
        }
        "dup_end" => {
            let x = s[i].clone();
            s.push(x);
        }
        "swap" => {
            if i + 1 >= s.len() {
                return Err("swap needs a successor".into());
            }
            s.swap(i, i + 1);
        }
        "truncate" => s.truncate(i),
        other => return Err(format!("unknown list edit {other}")),
    }
    Ok(())
}

fn donor_entry(env: &Env<'_>, kind_mode: &str, tick: u64) -> Result<ProvenanceEntry, String> {
    let (kind, mode) = kind_mode.split_once('_').ok_or("splice variant")?;
    let lane = if kind == "sibling" { env.f } else { env.b };
    let d = lane.entries.get(tick as usize).ok_or("donor has no entry at that tick")?.clone();
    Ok(match mode {
        "verbatim" => d,
        "claimed" => c05::rewrite_for(d, lane.id, env.a.id, true),
        _ => c05::rewrite_for(d, lane.id, env.a.id, false),
    })
}

fn edit_ents(env: &Env<'_>, es: &mut Vec<ProvenanceEntry>, c: &TCase) -> Result<(), String> {
    let i = c.idx.max(0) as usize;
    if c.field == "list" {
        return struct_edit(es, &c.variant, i);
    }
    let cur = es.get(i).ok_or("entry index")?.clone();
    es[i] = if c.field == "splice" {
        donor_entry(env, &c.variant, cur.worldline_tick.as_u64())?
    } else {
        c05::alter(&env.alter_ctx(), &cur, &c.field, &c.variant)?
    };
    Ok(())
}

fn apply_tamper(env: &Env<'_>, pkg: &Pkg, c: &TCase) -> Result<Pkg, String> {
    let mut p = pkg.clone();
    let i = c.idx.max(0) as usize;
    let other = env.b.id;
    let sib = |tick: u64| env.f.entries.get(tick as usize).map(|e| e.as_ref()).ok_or_else(|| "sibling has no entry at that tick".to_string());
    let ind = |tick: u64| env.b.entries.get(tick as usize).map(|e| e.as_ref()).ok_or_else(|| "independent has no entry at that tick".to_string());
    let plus = |t: &mut warp_core::WorldlineTick| *t = wt(t.as_u64() + 1);
    match c.part.as_str() {
        "none" => {}
        "bundle" => {
            let b = &mut p.bundle;
            match c.field.as_str() {
                "base.w" => b.base_frontier.worldline_id = other,
                "base.tick" => plus(&mut b.base_frontier.worldline_tick),
                "base.cid" => c05::flip(&mut b.base_frontier.commit_hash),
                "base" => b.base_frontier = sib(b.base_frontier.worldline_tick.as_u64())?,
                "to.w" => b.target_frontier.worldline_id = other,
                "to.tick" => plus(&mut b.target_frontier.worldline_tick),
                "to.cid" => c05::flip(&mut b.target_frontier.commit_hash),
                "bd" => c05::flip(&mut b.bundle_digest),
                f => return Err(format!("unknown bundle field {f}")),
            }
            redigest(b, &c.rd);
        }
        "shell" => {
            let (base, to) = (p.bundle.base_frontier, p.bundle.target_frontier);
            let sh = &mut p.bundle.source_suffix;
            match (c.field.as_str(), c.variant.as_str()) {
                ("w", _) => sh.source_worldline_id = other,
                ("start", "plus1") => plus(&mut sh.source_suffix_start_tick),
                ("start", _) => sh.source_suffix_start_tick = wt(sh.source_suffix_start_tick.as_u64().checked_sub(1).ok_or("start 0")?),
                ("end", "none") => sh.source_suffix_end_tick = None,
                ("end", "plus1") => sh.source_suffix_end_tick = Some(wt(sh.source_suffix_end_tick.ok_or("no end")?.as_u64() + 1)),
                ("end", _) => sh.source_suffix_end_tick = Some(wt(sh.source_suffix_start_tick.as_u64().checked_sub(1).ok_or("start 0")?)),
                ("bw", "base") => sh.boundary_witness = Some(base),
                ("bw", "to") => sh.boundary_witness = Some(to),
                ("bw", "foreign") => sh.boundary_witness = Some(ind(0)?),
                ("bw", "flip") => c05::flip(&mut sh.boundary_witness.as_mut().ok_or("no witness")?.commit_hash),
                ("bw", "drop") => sh.boundary_witness = None,
                ("wd", _) => c05::flip(&mut sh.witness_digest),
                ("report", "stale") => {
                    let mut r = base;
                    c05::flip(&mut r.commit_hash);
                    sh.basis_report = Some(mk_report(r, "r"));
                }
                ("report", "anchor") => sh.basis_report = Some(mk_report(base, "r2")),
                ("report", _) => sh.basis_report = Some(mk_report(base, "r")),
                (f, v) => return Err(format!("unknown shell tamper {f}/{v}")),
            }
            redigest(&mut p.bundle, &c.rd);
        }
        "refs" => {
            let refs = &mut p.bundle.source_suffix.source_entries;
            if c.field == "list" {
                struct_edit(refs, &c.variant, i)?;
            } else {
                let r = refs.get_mut(i).ok_or("ref index")?;
                match (c.field.as_str(), c.variant.as_str()) {
                    ("w", _) => r.worldline_id = other,
                    ("tick", "plus1") => plus(&mut r.worldline_tick),
                    ("tick", _) => r.worldline_tick = wt(r.worldline_tick.as_u64().checked_sub(1).ok_or("tick 0")?),
                    ("cid", _) => c05::flip(&mut r.commit_hash),
                    ("ref", "sibling") => *r = sib(r.worldline_tick.as_u64())?,
                    ("ref", "sibling_claimed") => *r = rehome(sib(r.worldline_tick.as_u64())?, env.a.id),
                    ("ref", "independent") => *r = ind(r.worldline_tick.as_u64())?,
                    (f, v) => return Err(format!("unknown ref tamper {f}/{v}")),
                }
            }
            redigest(&mut p.bundle, &c.rd);
        }
        "ents" => edit_ents(env, &mut p.ents, c)?,
        "btr" => {
            let r = p.btr.as_mut().ok_or("no BTR")?;
            match c.field.as_str() {
                "w" => r.worldline_id = other,
                "u0" => r.u0_ref = ids::warp("w1"),
                "inH" => c05::flip(&mut r.input_boundary_hash),
                "outH" => c05::flip(&mut r.output_boundary_hash),
                "pw" => r.payload.worldline_id = other,
                "start" => plus(&mut r.payload.start_worldline_tick),
                "counter" => r.logical_counter += 1,
                "tag" => r.auth_tag.push(b'x'),
                f => return Err(format!("unknown BTR field {f}")),
            }
        }
        "btr.ents" => edit_ents(env, &mut p.btr.as_mut().ok_or("no BTR")?.payload.entries, c)?,
        "req" => p.reqedit = format!("{}_{}", c.field, c.variant),
        "compound" if c.field == "donor" => {
            let mode = format!("{}_rewritten", c.variant);
            let des: Result<Vec<ProvenanceEntry>, String> =
                p.bundle.source_suffix.source_entries.iter().map(|r| donor_entry(env, &mode, r.worldline_tick.as_u64())).collect();
            let des = des?;
            let drefs: Vec<ProvenanceRef> = des.iter().map(|e| e.as_ref()).collect();
            let mut sh = p.bundle.source_suffix.clone();
            sh.source_entries = drefs.clone();
            p.bundle = CausalSuffixBundle::new(p.bundle.base_frontier, *drefs.last().ok_or("empty suffix")?, sh);
            p.ents = des;
        }
        "compound" if c.field == "entry+btr" => {
            let e2 = c05::alter(&env.alter_ctx(), p.ents.get(i).ok_or("entry index")?, "outputs", "add")?;
            p.ents[i] = e2.clone();
            if let Some(r) = p.btr.as_mut() {
                r.payload.entries[i] = e2;
            }
        }
        other => return Err(format!("unknown tamper part {other}/{}", c.field)),
    }
    Ok(p)
}

/// the key naming the tampered field; entry fields use c05.rs's names (so the SAME defect seen through transport
/// carries the same key prefix), everything else is `transport:`
fn tamper_key(c: &TCase) -> String {
    let entry = |field: &str, variant: &str| c05::field_key(&CaseJ { kind: "alter".into(), field: field.into(), variant: variant.into(), ..Default::default() });
    match c.part.as_str() {
        "ents" if c.field != "list" && c.field != "splice" => entry(&c.field, &c.variant),
        "compound" if c.field == "entry+btr" => entry("outputs", "add"),
        "btr.ents" if c.field != "list" && c.field != "splice" => format!("transport:btr.payload.{}", entry(&c.field, &c.variant)),
        _ => format!("transport:{}.{}({})", c.part, c.field, c.variant),
    }
}

// --------------------------------------------------------------------------- cmd/import_suffix_intent

/// Drives the real `cmd/import_suffix_intent` rule through a real runtime tick and decodes what it records.
struct IntentProbe {
    world: World,
    u0: WorldlineState,
    used: u32,
    cache: BTreeMap<Vec<u8>, Result<(abi::ImportSuffixResult, bool), String>>,
}

impl IntentProbe {
    fn new(u0: &WorldlineState) -> Result<Self, String> {
        let world = Self::fresh_world(u0)?;
        Ok(Self { world, u0: u0.clone(), used: 0, cache: BTreeMap::new() })
    }

    fn fresh_world(u0: &WorldlineState) -> Result<World, String> {
        let mut world = World::new(u0, 0x0500_0000)?;
        world.engine.register_rule(warp_core::import_suffix_intent_rule()).map_err(|e| format!("register import rule: {e:?}"))?;
        Ok(world)
    }

    /// (recorded result, result edge present)
    fn run(&mut self, req: &ImportSuffixRequest) -> Result<(abi::ImportSuffixResult, bool), String> {
        let bytes = echo_wasm_abi::pack_import_suffix_intent_v1(&req.to_abi()).map_err(|e| format!("pack: {e:?}"))?;
        if let Some(r) = self.cache.get(&bytes) {
            return r.clone();
        }
        let r = self.run_uncached(&bytes);
        self.cache.insert(bytes, r.clone());
        r
    }

    fn run_uncached(&mut self, bytes: &[u8]) -> Result<(abi::ImportSuffixResult, bool), String> {
        let main = crate::c07::wl_id(crate::c07::MAIN);
        // the graph and the tick history grow with every recorded result: start over now and then
        self.used += 1;
        if self.used % 48 == 0 {
            self.world = Self::fresh_world(&self.u0)?;
        }
        let env = IngressEnvelope::local_intent(
            IngressTarget::InboxAddress { worldline_id: main, inbox: InboxAddress("inbox-h0".into()) },
            make_intent_kind("echo.intent/eint-v1"),
            bytes.to_vec(),
        );
        let event = NodeId(env.ingress_id());
        match self.world.runtime.ingest(env).map_err(|e| format!("ingest: {e:?}"))? {
            IngressDisposition::Accepted { .. } => {}
            other => return Err(format!("import intent not accepted: {other:?}")),
        }
        let recs = self.world.super_tick()?;
        if recs.len() != 1 {
            return Err(format!("import intent tick committed {} heads", recs.len()));
        }
        let live = self.world.runtime.worldlines().get(&main).ok_or("main worldline missing")?.state();
        let warp = live.root().warp_id;
        let st = live.store(&warp).ok_or("no root store")?;
        let result_id = warp_core::import_suffix_result_node_id(&event);
        if st.node(&result_id).is_none() {
            return Err("the import rule recorded no result node".into());
        }
        let edge_id = warp_core::import_suffix_result_edge_id(&event, &result_id);
        let has_edge = st.edges_from(&event).any(|e| e.id == edge_id && e.to == result_id);
        let Some(AttachmentValue::Atom(atom)) = st.node_attachment(&result_id) else {
            return Err("the import result node carries no atom".into());
        };
        if atom.type_id != warp_core::make_type_id(warp_core::IMPORT_SUFFIX_RESULT_ATTACHMENT_TYPE) {
            return Err("import result atom has another type".into());
        }
        let res: abi::ImportSuffixResult = echo_wasm_abi::decode_cbor(atom.bytes.as_ref()).map_err(|e| format!("decode result: {e:?}"))?;
        Ok((res, has_edge))
    }
}

// --------------------------------------------------------------------------- one transport case

fn cmp(drift: &mut Vec<String>, what: &str, got: &str, want: &str) {
    if got != want {
        drift.push(format!("{what}: real {got}, model {want}"));
    }
}

fn names_match(got: &Value, want: &CidJ) -> bool {
    got["w"].as_str() == Some(want.w.as_str()) && got["t"].as_i64() == Some(want.t) && got["flip"].as_bool() == Some(want.flip)
}

fn run_case(env: &mut Env<'_>, c: &TCase) -> Value {
    let mut findings: Vec<Value> = Vec::new();
    let mut drift: Vec<String> = Vec::new();
    let have_pred = !c.nopred;
    let tkey = tamper_key(c);
    let tampered = c.part != "none";
    let tw = match env.wl(&c.tw) {
        Ok(w) => w,
        Err(e) => return json!({"verdict":"tool_error","detail":e}),
    };
    // ---- Export + BuildBtr (honest), Transport (a value), Tamper
    let honest = match honest_pkg(env, c.from, c.to, &c.bw, &mut findings) {
        Ok(p) => p,
        Err(e) if !findings.is_empty() => return json!({"verdict":"violation","findings":findings,"drift":drift,"detail":e}),
        Err(e) => return json!({"verdict":"tool_error","detail":e}),
    };
    if let Some(r) = &honest.btr {
        let v = btr_verdict(&env.exp, r);
        if v != "ok" {
            findings.push(json!({"key":"transport:btr.untampered:validate_btr","detail":format!("range ({},{}]: {v}", c.from, c.to)}));
        }
    }
    let pkg = match apply_tamper(env, &honest, c) {
        Ok(p) => p,
        Err(e) => return json!({"verdict":"tool_error","detail":format!("tamper {}/{}/{}[{}] not applicable to the real package: {e}", c.part, c.field, c.variant, c.idx)}),
    };
    let Some((imp0, fp0)) = env.importers.get(&(c.a.clone(), c.f.clone())).cloned() else {
        return json!({"verdict":"tool_error","detail":format!("unknown importer state {}/{}", c.a, c.f)});
    };
    // ---- EvaluateAdmission: pure, deterministic
    let req = req_of(env, &imp0, &pkg, tw);
    let ictx = ImpCtx { svc: &imp0, base: pkg.bundle.base_frontier };
    let ev = match util::catch(|| import_suffix(&req, &ictx)) {
        Ok(r) => r,
        Err(p) => {
            findings.push(json!({"key": format!("{tkey}:import_suffix(panic)"), "detail": p}));
            return json!({"verdict":"violation","findings":findings,"drift":drift});
        }
    };
    let ev2 = util::catch(|| import_suffix(&req, &ictx)).ok();
    if ev2.as_ref().map(|r| format!("{r:?}")) != Some(format!("{ev:?}")) {
        findings.push(json!({"key":"transport:evaluation_not_deterministic","detail":format!("{} {} {}: two evaluations of one request differ", c.part, c.field, c.variant)}));
    }
    // import_suffix with matching bundle digest is evaluate_witnessed_suffix_admission
    if pkg.bundle.bundle_digest == ev.bundle_digest {
        let areq = WitnessedSuffixAdmissionRequest { source_suffix: pkg.bundle.source_suffix.clone(), target_worldline_id: tw, target_basis: req.target_basis, basis_report: req.basis_report.clone() };
        if util::catch(|| evaluate_witnessed_suffix_admission(&areq, &ictx)).ok().as_ref() != Some(&ev.admission) {
            findings.push(json!({"key":"transport:import_suffix_differs_from_evaluation","detail":format!("{} {} {}", c.part, c.field, c.variant)}));
        }
    }
    if fingerprint(&imp0) != fp0 {
        findings.push(json!({"key":"transport:evaluation_not_pure","detail":format!("{} {} {}: the importer's store changed during evaluation", c.part, c.field, c.variant)}));
    }
    let ev_class = out_class(&ev.admission.outcome);
    // the honest package judged by the same importer
    let honest_ev = {
        let hreq = req_of(env, &imp0, &honest, tw);
        import_suffix(&hreq, &ImpCtx { svc: &imp0, base: honest.bundle.base_frontier })
    };
    let eval_same = format!("{ev:?}") == format!("{honest_ev:?}");
    let admitted = matches!(ev.admission.outcome, WitnessedSuffixAdmissionOutcome::Admitted { .. });
    // shell level: raw alterations of bundle / shell / refs and altered requests are never admitted with another answer
    let shell_level = (matches!(c.part.as_str(), "bundle" | "shell" | "refs") && c.rd != "all")
        || (c.part == "req" && matches!((c.field.as_str(), c.variant.as_str()), ("basis", "unknown") | ("basis", "foreign") | ("report", "stale")));
    if tampered && shell_level && admitted && !eval_same {
        findings.push(json!({"key": format!("{tkey}:import_suffix"),
            "detail": format!("{} {} {} [{}] rd={} on importer {}/{} target {}: admitted with an answer different from the untampered one: {:?}", c.part, c.field, c.variant, c.idx, c.rd, c.a, c.f, c.tw, ev.admission)}));
    }
    if admitted && !held(&imp0, &ev.admission.target_basis) {
        findings.push(json!({"key":"transport:admitted_on_unheld_basis",
            "detail": format!("{} {} {} on importer {}/{}: Admitted names target basis tick {} which the importer does not hold", c.part, c.field, c.variant, c.a, c.f, ev.admission.target_basis.worldline_tick.as_u64())}));
    }
    // obstruction source ref as the model derives it (compared by value: duplicated refs make indices ambiguous)
    let mut src_obs = String::new();
    if let WitnessedSuffixAdmissionOutcome::Obstructed { source_ref, residual_posture, evidence_digest } = &ev.admission.outcome {
        let sh = &pkg.bundle.source_suffix;
        let want = match c.eval.srck.as_str() {
            "entry" => sh.source_entries.get(c.eval.srci.max(0) as usize).copied(),
            "bw" => sh.boundary_witness,
            "basis" => Some(req.target_basis),
            _ => None,
        };
        src_obs = if want == Some(*source_ref) { format!("{}:{}", c.eval.srck, c.eval.srci) } else { format!("other:{source_ref:?}") };
        if *residual_posture != ReadingResidualPosture::Obstructed || *evidence_digest != ev.admission.source_shell_digest {
            drift.push("obstruction evidence fields".into());
        }
    }
    // ---- Import, then the same package again
    let mut imp = imp0.clone();
    let mut seen: Vec<Hash> = Vec::new();
    let (exec, _r1) = match util::catch(|| import_exec(env, &mut imp, &mut seen, &pkg, tw)) {
        Ok(x) => x,
        Err(p) => {
            findings.push(json!({"key": format!("{tkey}:import(panic)"), "detail": p}));
            return json!({"verdict":"violation","findings":findings,"drift":drift});
        }
    };
    let fp1 = fingerprint(&imp);
    let changed = fp1 != fp0;
    let len_after = imp.len(tw).unwrap_or(0);
    if changed != matches!(exec.as_str(), "admitted") {
        if changed {
            findings.push(json!({"key":"transport:importer_changed_without_admission","detail":format!("{} {} {}: class {exec} but the importer's store changed", c.part, c.field, c.variant)}));
        } else {
            drift.push(format!("class {exec} with an unchanged store"));
        }
    }
    // other worldlines untouched, the target only extended
    for l in [env.a, env.f, env.b] {
        let (n0, n1) = (imp0.len(l.id).unwrap_or(0), imp.len(l.id).unwrap_or(0));
        let prefix_ok = n1 >= n0 && (0..n0).all(|t| imp0.entry(l.id, wt(t)).ok() == imp.entry(l.id, wt(t)).ok());
        if !prefix_ok || (l.id != tw && n1 != n0) {
            findings.push(json!({"key":"transport:import_not_append_only","detail":format!("{} {} {}: worldline {} went from {n0} to {n1} entries / lost its prefix", c.part, c.field, c.variant, l.name)}));
        }
    }
    // whatever happened, every tick the importer retains re-verifies
    let mut ticks: Vec<String> = Vec::new();
    let donor = c.part == "compound" && c.field == "donor";
    let orig_name = if donor { if c.variant == "sibling" { "f" } else { "b" } } else { "a" };
    let blank = WorldlineState::empty();
    for t in 0..=len_after {
        match util::catch(|| imp.replay_worldline_state_at(tw, &env.store.u0, wt(t))) {
            Err(p) => {
                findings.push(json!({"key":"transport:importer_retains_unverifiable_history","detail":format!("{} {} {}: replay of tick {t} panicked: {p}", c.part, c.field, c.variant)}));
                ticks.push("panic".into());
            }
            Ok(Err(e)) => {
                findings.push(json!({"key":"transport:importer_retains_unverifiable_history","detail":format!("{} {} {} on importer {}/{}: after class {exec} tick {t} of {} does not re-verify: {e:?}", c.part, c.field, c.variant, c.a, c.f, c.tw)}));
                ticks.push(format!("err:{}", c05::replay_err_name(&e)));
            }
            Ok(Ok(s)) => ticks.push(c05::classify(&s, env.orig[orig_name].get(t as usize).unwrap_or(&blank))),
        }
    }
    let cids: Vec<Value> = (0..len_after).map(|t| imp.entry(tw, wt(t)).map(|e| env.cid_name(&e.expected.commit_hash)).unwrap_or(json!(null))).collect();
    // ---- the property on the result
    let hi = if c.to < 0 { env.a.entries.len() as i64 - 1 } else { c.to };
    if changed || exec == "duplicate" {
        // exactly the exporter's history: commit ids, roots, entries, re-verified state at every tick
        let src = if donor { env.lane_of(env.wl(orig_name).unwrap_or(env.a.id)).unwrap_or(env.a) } else { env.a };
        for t in 0..len_after {
            let Ok(e) = imp.entry(tw, wt(t)) else { continue };
            let want = src.entries.get(t as usize);
            let same_commit = want.is_some_and(|w| w.expected.commit_hash == e.expected.commit_hash && w.expected.state_root == e.expected.state_root);
            if !same_commit && t >= imp0.len(tw).unwrap_or(0) {
                findings.push(json!({"key": format!("{tkey}:import"),
                    "detail": format!("{} {} {} [{}] on importer {}/{} target {}: class {exec}; the importer now holds at tick {t} a commit / state root that is not worldline {}'s", c.part, c.field, c.variant, c.idx, c.a, c.f, c.tw, src.name)}));
            }
        }
        for (t, o) in ticks.iter().enumerate() {
            if t as u64 <= imp0.len(tw).unwrap_or(0) && !changed {
                continue;
            }
            let cls = o.split(':').next().unwrap_or(o);
            if cls == "diff_core" || cls == "diff_diag" {
                let pre = if cls == "diff_diag" { "diag:" } else { "" };
                let ep = if c.part == "compound" { "import_suffix+btr" } else { "import_suffix" };
                findings.push(json!({"key": format!("{pre}{tkey}:{ep}"),
                    "detail": format!("{} {} {} [{}] range ({},{}] on importer {}/{} target {}: the package is admitted and imported; re-verifying tick {t} on the importer yields a result different from the exporter's ({o})", c.part, c.field, c.variant, c.idx, c.from, c.to, c.a, c.f, c.tw)}));
            }
        }
        if !tampered && tw == env.a.id {
            for t in 0..=(hi as u64) {
                if imp.entry(tw, wt(t)).ok().as_ref() != env.a.entries.get(t as usize) {
                    findings.push(json!({"key":"transport:untampered_import_differs","detail":format!("range ({},{}] importer {}/{}: entry {t} on the importer is not the exporter's", c.from, c.to, c.a, c.f)}));
                }
            }
        }
    }
    // an untampered package at its basis must be admitted
    if !tampered && tw == env.a.id && c.a == format!("p{}", c.from + 1) && hi > c.from && exec != "admitted" {
        findings.push(json!({"key":"transport:untampered_not_admitted","detail":format!("range ({},{}] on the importer standing at the base frontier: {exec} ({:?})", c.from, c.to, ev.admission.outcome)}));
    }
    // re-import: no change, never a second admission
    let (reimport, _r2) = match util::catch(|| import_exec(env, &mut imp, &mut seen, &pkg, tw)) {
        Ok(x) => x,
        Err(p) => {
            findings.push(json!({"key": format!("{tkey}:reimport(panic)"), "detail": p}));
            ("panic".to_string(), _r1.clone())
        }
    };
    if fingerprint(&imp) != fp1 || reimport == "admitted" {
        findings.push(json!({"key":"transport:reimport_changes_importer",
            "detail":format!("{} {} {} on importer {}/{} target {}: first import {exec}, second import {reimport}; the importer's store changed again", c.part, c.field, c.variant, c.a, c.f, c.tw)}));
    }
    // ---- BTR
    let (mut btr_holder, mut btr_before, mut btr_after, mut btr_same) = ("none".to_string(), "none".to_string(), "none".to_string(), true);
    if let Some(rec) = &pkg.btr {
        btr_holder = btr_verdict(&env.exp, rec);
        btr_before = btr_verdict(&imp0, rec);
        btr_after = btr_verdict(&imp, rec);
        if fingerprint(&imp) != fp1 {
            findings.push(json!({"key":"transport:validate_btr_not_pure","detail":"the importer's store changed during validate_btr"}));
        }
        btr_same = honest.btr.as_ref().map(btr_segment) == Some(btr_segment(rec));
        for (site, v) in [("holder", &btr_holder), ("importer_before", &btr_before), ("importer_after", &btr_after)] {
            if v.starts_with("panic") {
                findings.push(json!({"key": format!("{tkey}:validate_btr(panic)"), "detail": format!("{site}: {v}")}));
            }
        }
        // where the history is held, a record that validates attests exactly the original segment
        if btr_holder == "ok" && !btr_same {
            let bkey = if tkey.starts_with("transport:") { tkey.clone() } else { format!("transport:btr.payload.{tkey}") };
            findings.push(json!({"key": format!("{bkey}:validate_btr"),
                "detail": format!("BTR over ({},{}] with {} {} {} [{}] validates against the registered history although it does not attest the original segment", c.from, c.to, c.part, c.field, c.variant, c.idx)}));
        }
        // and on any store: Ok means every payload entry IS the stored entry
        for (site, svc, v) in [("importer_before", &imp0, &btr_before), ("importer_after", &imp, &btr_after)] {
            if v == "ok" && rec.payload.entries.iter().any(|e| svc.entry(rec.worldline_id, e.worldline_tick).ok().as_ref() != Some(e)) {
                findings.push(json!({"key": "transport:btr.validates_unheld_entry:validate_btr",
                    "detail": format!("{site} (importer {}/{}, range ({},{}], tamper {} {} {}): the record validates although a payload entry is not the entry this store holds at that tick", c.a, c.f, c.from, c.to, c.part, c.field, c.variant)}));
            }
        }
    }
    // ---- cmd/import_suffix_intent: records a Staged echo of the request, never an admission
    let mut staged_refs = -1i64;
    if c.part != "ents" && c.part != "btr" && c.part != "btr.ents" && (env.probe_all || (c.a == format!("p{}", c.from + 1) && c.f == "full" && tw == env.a.id)) {
        match env.probe.run(&req) {
            Err(e) => return json!({"verdict":"tool_error","detail":format!("import intent probe: {e}")}),
            Ok((res, has_edge)) => {
                let want = req.to_abi();
                match &res.admission.outcome {
                    abi::WitnessedSuffixAdmissionOutcome::Staged { staged_refs: refs, .. } => {
                        staged_refs = refs.len() as i64;
                        let exp_refs = if want.bundle.source_suffix.source_entries.is_empty() { vec![want.target_basis.clone()] } else { want.bundle.source_suffix.source_entries.clone() };
                        if *refs != exp_refs || res.bundle_digest != want.bundle.bundle_digest || res.admission.source_shell_digest != want.bundle.source_suffix.witness_digest
                            || res.admission.target_basis != want.target_basis
                        {
                            drift.push("the recorded import result is not the staged echo of the request".into());
                        }
                    }
                    other => findings.push(json!({"key":"transport:import_intent_rule_records_non_staged",
                        "detail": format!("{} {} {}: cmd/import_suffix_intent recorded {other:?} without verifying anything", c.part, c.field, c.variant)})),
                }
                if !has_edge {
                    drift.push("no result edge from the ingress event to the result node".into());
                }
            }
        }
    }
    // ---- prediction
    if have_pred {
        cmp(&mut drift, "evaluation", &ev_class, &c.eval.class);
        if ev_class == "obstructed" && c.eval.class == "obstructed" && c.eval.srck != "none" {
            cmp(&mut drift, "obstruction source ref", &src_obs, &format!("{}:{}", c.eval.srck, c.eval.srci));
        }
        let nrefs = match &ev.admission.outcome {
            WitnessedSuffixAdmissionOutcome::Admitted { admitted_refs: r, .. } | WitnessedSuffixAdmissionOutcome::Staged { staged_refs: r, .. } | WitnessedSuffixAdmissionOutcome::Plural { candidate_refs: r, .. } => r.len() as i64,
            _ => 0,
        };
        cmp(&mut drift, "refs in the outcome", &nrefs.to_string(), &c.eval.nrefs.to_string());
        cmp(&mut drift, "evaluation equals the untampered one", &eval_same.to_string(), &c.eval_same.to_string());
        cmp(&mut drift, "import", &exec, &c.exec);
        cmp(&mut drift, "re-import", &reimport, &c.reimport);
        cmp(&mut drift, "length after", &len_after.to_string(), &c.len_after.to_string());
        if matches!(exec.as_str(), "admitted" | "duplicate") {
            let norm = |v: &[String]| v.iter().map(|s| s.split(':').next().unwrap_or(s).to_string()).collect::<Vec<_>>();
            if norm(&ticks) != norm(&c.ticks) {
                drift.push(format!("ticks {ticks:?}, model {:?}", c.ticks));
            }
        }
        if cids.len() != c.cids.len() || cids.iter().zip(&c.cids).any(|(g, w)| !names_match(g, w)) {
            drift.push(format!("commit ids after import {cids:?}, model {:?}", c.cids));
        }
        cmp(&mut drift, "validate_btr where held", &btr_holder, &c.btr_holder);
        cmp(&mut drift, "validate_btr on the importer before", &btr_before, &c.btr_before);
        cmp(&mut drift, "validate_btr on the importer after", &btr_after, &c.btr_after);
        cmp(&mut drift, "BTR attests the original segment", &btr_same.to_string(), &c.btr_same_segment.to_string());
        if staged_refs >= 0 {
            cmp(&mut drift, "staged refs recorded by the intent rule", &staged_refs.to_string(), &c.staged_refs.to_string());
        }
    }
    let wd = derive_witnessed_suffix_shell_digest(&pkg.bundle.source_suffix);
    json!({"verdict": if findings.is_empty() {"ok"} else {"violation"}, "findings": findings, "drift": drift,
           "wd": hex::encode(wd), "bd": hex::encode(ev.bundle_digest),
           "observed": {"eval": ev_class, "src": src_obs, "exec": exec, "reimport": reimport, "len_after": len_after, "ticks": ticks, "cids": cids,
                        "btr_holder": btr_holder, "btr_before": btr_before, "btr_after": btr_after, "changed": changed}})
}

// --------------------------------------------------------------------------- basis report fields

/// Every field of the `StrandBasisReport` a shell carries, altered on the real value without touching the digests.
/// Fields of the ABI projection (what the shell digest covers and what is transported) must be refused or change
/// nothing; `strand_id` and the identities of the footprint slots are not in the projection: recorded, not judged.
fn run_report_probe(env: &mut Env<'_>) -> Value {
    let mut findings: Vec<Value> = Vec::new();
    let honest = match honest_pkg(env, 0, 2, "report", &mut findings) {
        Ok(p) => p,
        Err(e) => return json!({"verdict":"tool_error","detail":e}),
    };
    let Some((imp0, _)) = env.importers.get(&("p1".to_string(), "full".to_string())).cloned() else {
        return json!({"verdict":"tool_error","detail":"no importer p1/full"});
    };
    let tw = env.a.id;
    let eval = |pkg: &Pkg| import_suffix(&req_of(env, &imp0, pkg, tw), &ImpCtx { svc: &imp0, base: pkg.bundle.base_frontier });
    let base = eval(&honest);
    if !matches!(base.admission.outcome, WitnessedSuffixAdmissionOutcome::Admitted { .. }) {
        findings.push(json!({"key":"transport:untampered_not_admitted","detail":format!("a shell carrying a basis report realized at the importer's basis: {:?}", base.admission.outcome)}));
    }
    let abi_bytes = |r: &ImportSuffixResult| echo_wasm_abi::encode_cbor(&r.to_abi()).unwrap_or_default();
    let patch = |t: usize| env.a.entries[t].patch.clone();
    type Edit<'e> = Box<dyn Fn(&mut StrandBasisReport) + 'e>;
    let mut variants: Vec<(&str, bool, Edit<'_>)> = vec![
        ("strand_id", false, Box::new(|r| r.strand_id = make_strand_id("verif-c05s-another-strand"))),
        ("parent_anchor.source_lane_id", true, Box::new(|r| r.parent_anchor.source_lane_id = env.b.id)),
        ("parent_anchor.fork_tick", true, Box::new(|r| r.parent_anchor.fork_tick = wt(1))),
        ("parent_anchor.commit_hash", true, Box::new(|r| c05::flip(&mut r.parent_anchor.commit_hash))),
        ("parent_anchor.boundary_hash", true, Box::new(|r| c05::flip(&mut r.parent_anchor.boundary_hash))),
        ("parent_anchor.provenance_ref", true, Box::new(|r| c05::flip(&mut r.parent_anchor.provenance_ref.commit_hash))),
        ("child_worldline_id", true, Box::new(|r| r.child_worldline_id = env.b.id)),
        ("source_suffix_start_tick", true, Box::new(|r| r.source_suffix_start_tick = wt(2))),
        ("source_suffix_end_tick", true, Box::new(|r| r.source_suffix_end_tick = Some(wt(9)))),
        ("realized_parent_ref", true, Box::new(|r| c05::flip(&mut r.realized_parent_ref.commit_hash))),
        ("owned_divergence(count)", true, Box::new(|r| { if let Some(p) = patch(1) { r.owned_divergence.extend_patch(&p); } })),
        ("parent_movement(count)", true, Box::new(|r| { if let Some(p) = patch(1) { r.parent_movement.extend_patch(&p); } })),
        ("parent_revalidation", true, Box::new(|r| r.parent_revalidation = StrandRevalidationState::ParentAdvancedDisjoint { parent_from: r.realized_parent_ref, parent_to: r.realized_parent_ref })),
    ];
    // two footprints with the same number of slots and different slots, when the history offers them
    let (mut fa, mut fb) = (ParentMovementFootprint::default(), ParentMovementFootprint::default());
    if let (Some(p1), Some(p2)) = (patch(1), patch(2)) {
        fa.extend_patch(&p1);
        fb.extend_patch(&p2);
    }
    let same_count = fa.write_len() == fb.write_len() && fa != fb && fa.write_len() > 0;
    let mut out: Vec<Value> = Vec::new();
    let mut invisible_accepted: Vec<String> = Vec::new();
    let mut run = |name: &str, visible: bool, start: &Pkg, edit: &dyn Fn(&mut StrandBasisReport), findings: &mut Vec<Value>| {
        let mut p = start.clone();
        if let Some(r) = p.bundle.source_suffix.basis_report.as_mut() {
            edit(r);
        }
        let reference = eval(start);
        let digest_same = derive_witnessed_suffix_shell_digest(&p.bundle.source_suffix) == derive_witnessed_suffix_shell_digest(&start.bundle.source_suffix);
        let r = eval(&p);
        let admitted = matches!(r.admission.outcome, WitnessedSuffixAdmissionOutcome::Admitted { .. });
        let core_equal = format!("{r:?}") == format!("{reference:?}");
        let abi_equal = abi_bytes(&r) == abi_bytes(&reference);
        out.push(json!({"field": name, "abi_visible": visible, "digest_same": digest_same, "class": out_class(&r.admission.outcome), "core_equal": core_equal, "abi_equal": abi_equal}));
        if p.bundle.source_suffix.basis_report == start.bundle.source_suffix.basis_report {
            return;
        }
        if visible && (digest_same || (admitted && !core_equal)) {
            findings.push(json!({"key": format!("transport:shell.basis_report.{name}:import_suffix"),
                "detail": format!("basis_report.{name} altered on a transported shell: digest unchanged = {digest_same}, outcome {} (equal to the original: {core_equal})", out_class(&r.admission.outcome))}));
        }
        if !visible {
            if !abi_equal {
                findings.push(json!({"key": format!("transport:shell.basis_report.{name}:import_suffix"), "detail": "a field outside the ABI projection changes the ABI-visible result".to_string()}));
            } else if admitted && !core_equal {
                invisible_accepted.push(name.to_string());
            }
        }
    };
    for (name, visible, edit) in variants.drain(..) {
        run(name, visible, &honest, &*edit, &mut findings);
    }
    if same_count {
        // start from a shell whose report already has a non-empty parent movement footprint (digests consistent)
        let mut start = honest.clone();
        if let Some(r) = start.bundle.source_suffix.basis_report.as_mut() {
            r.parent_movement = fa.clone();
        }
        start.bundle = CausalSuffixBundle::new(start.bundle.base_frontier, start.bundle.target_frontier, start.bundle.source_suffix.clone());
        let fb2 = fb.clone();
        run("parent_movement(other slots, same count)", false, &start, &move |r: &mut StrandBasisReport| r.parent_movement = fb2.clone(), &mut findings);
    }
    json!({"verdict": if findings.is_empty() {"ok"} else {"violation"}, "kind":"report_probe", "findings": findings, "fields": out,
           "abi_invisible_accepted": invisible_accepted, "same_count_footprints": same_count})
}

// --------------------------------------------------------------------------- export cases (MC_C05s!XCases)

fn run_xcase(env: &Env<'_>, x: &XCase) -> Value {
    let mut findings: Vec<Value> = Vec::new();
    let mut drift: Vec<String> = Vec::new();
    let ea = &env.a.entries;
    let eb = &env.b.entries;
    let ra = |t: usize| ea[t].as_ref();
    let flipc = |mut r: ProvenanceRef| {
        c05::flip(&mut r.commit_hash);
        r
    };
    let at = |mut r: ProvenanceRef, t: u64| {
        r.worldline_tick = wt(t);
        r
    };
    let mk = |base: ProvenanceRef, to: Option<ProvenanceRef>| ExportSuffixRequest { source_worldline_id: env.a.id, base_frontier: base, target_frontier: to, basis_report: None };
    let req = match x.req.as_str() {
        "r01" => mk(ra(0), Some(ra(1))),
        "r02" => mk(ra(0), Some(ra(2))),
        "r12" => mk(ra(1), Some(ra(2))),
        "r0open" => mk(ra(0), None),
        "r11" => mk(ra(1), Some(ra(1))),
        "r22" => mk(ra(2), Some(ra(2))),
        "base_other_w" => mk(eb[0].as_ref(), Some(ra(2))),
        "base_cid_flip" => mk(flipc(ra(0)), Some(ra(2))),
        "base_beyond" => mk(at(ra(2), 5), None),
        "to_other_w" => mk(ra(0), Some(eb[1].as_ref())),
        "to_below" => mk(ra(1), Some(ra(0))),
        "to_cid_flip" => mk(ra(0), Some(flipc(ra(2)))),
        "to_beyond" => mk(ra(0), Some(at(ra(2), 5))),
        "src_other" => ExportSuffixRequest { source_worldline_id: env.b.id, base_frontier: ra(0), target_frontier: Some(ra(2)), basis_report: None },
        other => return json!({"verdict":"tool_error","detail":format!("unknown export request {other}")}),
    };
    // the tick-window answer (no commit check)
    let hi = req.target_frontier.map(|t| t.worldline_tick.as_u64()).unwrap_or(ea.len() as u64 - 1);
    let window: Vec<ProvenanceRef> = (0..ea.len() as u64).filter(|t| *t > req.base_frontier.worldline_tick.as_u64() && *t <= hi).map(|t| ra(t as usize)).collect();
    let answer = match x.ctx.as_str() {
        "honest" => None,
        "none" => Some(None),
        "all" => Some(Some((0..ea.len()).map(ra).collect())),
        "dup" => Some(Some(if window.is_empty() { vec![] } else { let mut v = window.clone(); v.push(window[0]); v })),
        "reversed" => Some(Some(window.iter().rev().copied().collect())),
        "foreign" => Some(Some({ let mut v = window.clone(); v.push(eb[1].as_ref()); v })),
        "short" => Some(Some(window[..window.len().saturating_sub(1)].to_vec())),
        other => return json!({"verdict":"tool_error","detail":format!("unknown export context {other}")}),
    };
    let bw = match x.bw.as_str() {
        "none" => None,
        "base" => Some(req.base_frontier),
        "to" => Some(req.target_frontier.unwrap_or(ra(2))),
        "mid" => Some(ra(1)),
        "foreign" => Some(eb[0].as_ref()),
        "base_wrongcid" => Some(flipc(req.base_frontier)),
        "below" => Some(ra(0)),
        other => return json!({"verdict":"tool_error","detail":format!("unknown boundary witness {other}")}),
    };
    let honest_ctx = x.ctx == "honest";
    let ctx = ExportCtx { svc: &env.exp, answer, bw };
    let fp0 = fingerprint(&env.exp);
    let r = match util::catch(|| export_suffix(&req, &ctx)) {
        Ok(r) => r,
        Err(p) => {
            findings.push(json!({"key":"transport:export(panic)","detail":format!("{} {} {}: {p}", x.req, x.ctx, x.bw)}));
            return json!({"verdict":"violation","findings":findings,"drift":drift});
        }
    };
    if util::catch(|| export_suffix(&req, &ctx)).ok() != Some(r.clone()) {
        findings.push(json!({"key":"transport:export.not_deterministic","detail":format!("{} {} {}", x.req, x.ctx, x.bw)}));
    }
    if fingerprint(&env.exp) != fp0 {
        findings.push(json!({"key":"transport:export.not_pure","detail":format!("{} {} {}", x.req, x.ctx, x.bw)}));
    }
    let mut out = json!({"ok": r.is_ok()});
    match &r {
        Err(o) => {
            if o.source_ref != req.base_frontier || o.residual_posture != ReadingResidualPosture::Obstructed {
                drift.push("obstruction does not name the base frontier / Obstructed".into());
            }
        }
        Ok(b) => {
            let sh = &b.source_suffix;
            // a bundle is internally consistent: digests are the derived ones, frontiers frame the refs
            if *b != CausalSuffixBundle::new(b.base_frontier, b.target_frontier, sh.clone()) || b.base_frontier != req.base_frontier {
                findings.push(json!({"key":"transport:export.bundle_inconsistent","detail":format!("{} {} {}: digests / base frontier are not the derived ones", x.req, x.ctx, x.bw)}));
            }
            let framed = sh.source_entries.iter().all(|e| e.worldline_id == req.source_worldline_id && e.worldline_tick > b.base_frontier.worldline_tick && e.worldline_tick <= b.target_frontier.worldline_tick)
                && sh.source_entries.windows(2).all(|p| p[0] < p[1])
                && sh.source_entries.last().map_or(b.target_frontier == b.base_frontier, |l| *l == b.target_frontier)
                && req.target_frontier.map_or(true, |t| t == b.target_frontier);
            if !framed {
                findings.push(json!({"key":"transport:export.bundle_not_framed","detail":format!("{} {} {}: refs are not strictly ordered inside (base, target] ending at the target frontier", x.req, x.ctx, x.bw)}));
            }
            // from the provenance-backed context every named coordinate is a commit the exporter holds
            if honest_ctx && (!held(&env.exp, &b.base_frontier) || !sh.source_entries.iter().all(|e| held(&env.exp, e))) {
                findings.push(json!({"key":"transport:export.bundle_names_unheld_commit","detail":format!("{} {} {}", x.req, x.ctx, x.bw)}));
            }
            out["wd"] = json!(hex::encode(sh.witness_digest));
            out["bd"] = json!(hex::encode(b.bundle_digest));
            out["nrefs"] = json!(sh.source_entries.len());
            if !x.nopred {
                let end = sh.source_suffix_end_tick.map(|t| t.as_u64() as i64).unwrap_or(-1);
                if sh.source_entries.len() as i64 != x.nrefs || sh.source_suffix_start_tick.as_u64() as i64 != x.start || end != x.end {
                    drift.push(format!("shell ({}, {end}, {} refs), model ({}, {}, {} refs)", sh.source_suffix_start_tick.as_u64(), sh.source_entries.len(), x.start, x.end, x.nrefs));
                }
                let to_name = json!({"w": env.lane_of(b.target_frontier.worldline_id).map(|l| l.name.clone()).unwrap_or_default(), "t": b.target_frontier.worldline_tick.as_u64(),
                    "c": env.cid_name(&b.target_frontier.commit_hash)});
                if to_name["w"].as_str() != Some(x.to.w.as_str()) || to_name["t"].as_i64() != Some(x.to.t) || !names_match(&to_name["c"], &x.to.c) {
                    drift.push(format!("target frontier {to_name}, model {:?}", x.to));
                }
            }
        }
    }
    // every honest exportable range exports
    if honest_ctx && matches!(x.req.as_str(), "r01" | "r02" | "r12" | "r0open") && matches!(x.bw.as_str(), "none" | "base") && r.is_err() {
        findings.push(json!({"key":"transport:export.untampered_range_obstructed","detail":format!("{} bw {}: {:?}", x.req, x.bw, r.as_ref().err())}));
    }
    if !x.nopred && r.is_ok() != x.ok {
        drift.push(format!("export: real {}, model {}", if r.is_ok() { "bundle" } else { "obstructed" }, if x.ok { "bundle" } else { "obstructed" }));
    }
    out["verdict"] = json!(if findings.is_empty() { "ok" } else { "violation" });
    out["findings"] = json!(findings);
    out["drift"] = json!(drift);
    out
}

// --------------------------------------------------------------------------- driver

pub fn run(args: &[String]) -> i32 {
    if args.len() < 2 {
        eprintln!("usage: echo-verif c05s <in.ndjson> <out.ndjson>");
        return 2;
    }
    let mut out = util::Out::create(&args[1]);
    let mut store: Option<Store> = None;
    let mut lines: Vec<(usize, Value)> = Vec::new();
    let (mut n, mut viol, mut tool) = (0u64, 0u64, 0u64);
    let mut head: Option<Value> = None;
    for (i, v) in util::read_lines(&args[0]) {
        if v["kind"].as_str() == Some("store") {
            let mut trace = Vec::new();
            head = Some(match serde_json::from_value::<c05::StoreJ>(v.clone()).map_err(|e| e.to_string()).and_then(|s| c05::build_store(&s, &mut trace)) {
                Ok(b) => {
                    let r = json!({"i": i, "verdict": if b.findings.is_empty() {"ok"} else {"violation"}, "kind":"store", "findings": b.findings});
                    store = b.store;
                    r
                }
                Err(e) => json!({"i": i, "verdict":"tool_error","kind":"store","detail":e}),
            });
        } else {
            lines.push((i, v));
        }
    }
    if let Some(h) = &head {
        n += 1;
        if h["verdict"] == "tool_error" {
            tool += 1;
        }
        out.line(h);
    }
    let mut env = match store.as_ref().map(Env::new) {
        Some(Ok(e)) => Some(e),
        Some(Err(e)) => {
            out.line(&json!({"verdict":"tool_error","detail":format!("transport environment: {e}")}));
            out.finish();
            println!("{}", json!({"cases":1,"violations":0,"tool_errors":1}));
            return 2;
        }
        None => None,
    };
    for (i, v) in lines {
        let mut r = match env.as_mut() {
            None => json!({"verdict":"skip","detail":"no verified store"}),
            Some(env) => match v["kind"].as_str() {
                Some("case") => match serde_json::from_value::<TCase>(v.clone()) {
                    Ok(c) => run_case(env, &c),
                    Err(e) => json!({"verdict":"tool_error","detail":format!("case parse: {e}")}),
                },
                Some("report_probe") => run_report_probe(env),
                Some("final") => {
                    let same = fingerprint(&env.exp) == env.exp_fp;
                    json!({"verdict": if same {"ok"} else {"violation"}, "kind":"final", "probes": env.probe.cache.len(),
                        "findings": if same { json!([]) } else { json!([{"key":"transport:exporter_store_changed","detail":"the exporter's provenance store changed during export / BTR validation"}]) }})
                }
                Some("xcase") => match serde_json::from_value::<XCase>(v.clone()) {
                    Ok(x) => run_xcase(env, &x),
                    Err(e) => json!({"verdict":"tool_error","detail":format!("xcase parse: {e}")}),
                },
                other => json!({"verdict":"tool_error","detail":format!("unknown line kind {other:?}")}),
            },
        };
        r["i"] = json!(i);
        n += 1;
        match r["verdict"].as_str() {
            Some("violation") => viol += 1,
            Some("tool_error") => tool += 1,
            _ => {}
        }
        out.line(&r);
    }
    out.finish();
    println!("{}", json!({"cases":n,"violations":viol,"tool_errors":tool}));
    if tool > 0 { 2 } else { 0 }
}
