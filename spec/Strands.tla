------------------------------ MODULE Strands ------------------------------
(***************************************************************************)
(* C15 - speculative lanes (strands): fork, lane isolation, settlement.    *)
(*                                                                         *)
(* Transcribed from /repo/crates/warp-core/src:                            *)
(*   coordinator.rs      WorldlineRuntime::fork_strand, pin_support,       *)
(*                       SchedulerCoordinator::super_tick (one head commit)*)
(*   provenance_store.rs fork / rewrite_entry_for_fork, checkpoint_for,    *)
(*                       restore, replay_worldline_state                   *)
(*   strand.rs           Strand::new, StrandRegistry::{insert,pin_support},*)
(*                       live_basis_report (closed footprint vs parent     *)
(*                       movement)                                         *)
(*   settlement.rs       compare_internal, plan_with_policy_internal,      *)
(*                       settle_with_policy_internal, append_*             *)
(*                                                                         *)
(* Abstraction.  A worldline is a slot -> value map plus its entry         *)
(* sequence.  A slot is a node attachment (ASlots) or the existence/type   *)
(* of a node (NSlots).  An entry records the in/out slot sets of its tick  *)
(* patch (engine_impl.rs extend_slots_from_footprint: in = declared reads  *)
(* and writes, out = declared writes), the patch ops as a *diff*           *)
(* (commit_with_state: ops = diff_state(before, after), so a write of the  *)
(* value already present leaves no op) and the state after it (the         *)
(* abstract state root).  Hashes are the values they commit to.            *)
(* Rules are honest: DOMAIN delta \subseteq out (assumption; C14 covers    *)
(* footprint honesty).                                                     *)
(***************************************************************************)
EXTENDS Naturals, Sequences, FiniteSets, TLC

CONSTANTS ASlots,     \* attachment slots ("n1".."n3"): values "none","p0","p1"
          NSlots,     \* node slots ("n4"): values "absent","tA","tB"
          Prog,       \* sequence of programs [k, a, b, v]
          AsBuiltClean, \* TRUE: the clean-overlap test as it was before /repo de1c2a1 (documentation only)
          None        \* model value

VARIABLES wls,        \* worldline id -> [val : slot -> value, hist : Seq(entry)]   (runtime frontier + provenance)
          heads,      \* registered writer heads: set of <<worldline id, head name>>
          reg,        \* StrandRegistry: strand id -> [src, ft, child, heads, pins, basis]
          shells,     \* retained braid shells (ProvenanceService.braid_shells), in append order
          gtick,      \* WorldlineRuntime.global_tick
          plan,       \* result of the last plan call (None before)
          stl,        \* settlement in progress (None outside settle_with_policy_internal)
          last        \* what the last completed public call did (for the action-shaped invariants)
svars == <<wls, heads, reg, shells, gtick, plan, stl, last>>

Slots == ASlots \cup NSlots
InitVal == [s \in Slots |-> IF s \in ASlots THEN "none" ELSE "tA"]
EmptyFn == [s \in {} |-> "none"]

\* ---- programs (the harness' cmd/ rule interprets exactly these) ------------
\*  set  a v : a := v               reads {a}    writes {a}
\*  copy a b : b := value of a      reads {a,b}  writes {b}
\*  read a   : nothing              reads {a}    writes {}
\*  del  a   : delete node a        reads {a}    writes {a}   (a in NSlots)
\*  mk   a v : upsert node a : v    reads {}     writes {a}   (a in NSlots)
In(p)  == IF p.k = "copy" THEN {p.a, p.b} ELSE {p.a}
Out(p) == CASE p.k = "copy" -> {p.b} [] p.k = "read" -> {} [] OTHER -> {p.a}
Eff(p, val) ==
  CASE p.k = "set"  -> (p.a :> p.v)
    [] p.k = "copy" -> (p.b :> val[p.a])
    [] p.k = "read" -> EmptyFn
    [] p.k = "del"  -> (p.a :> "absent")
    [] p.k = "mk"   -> (p.a :> p.v)
\* diff_state: only real changes become ops
Delta(p, val) == LET e == Eff(p, val) IN [s \in {x \in DOMAIN e : e[x] # val[x]} |-> e[s]]

\* WorldlineTickPatchV1::apply_to_worldline_state: DeleteNode of a missing node fails
\* (TickPatchError::MissingNode); upserts and attachment writes on existing nodes never fail.
ApplyOk(val, d)  == \A s \in DOMAIN d : ~(s \in NSlots /\ d[s] = "absent" /\ val[s] = "absent")
ApplyVal(val, d) == [s \in Slots |-> IF s \in DOMAIN d THEN d[s] ELSE val[s]]

LocalEntry(pi, val) ==
  LET p == Prog[pi] d == Delta(p, val)
  IN [kind |-> "local", pi |-> pi, in |-> In(p), out |-> Out(p), delta |-> d,
      after |-> ApplyVal(val, d), src |-> None, reval |-> "none"]

\* replay_worldline_state: re-apply every recorded patch from U0 and compare each state root
RECURSIVE ReplayFrom(_, _, _)
ReplayFrom(val, hist, i) ==
  IF i > Len(hist) THEN [ok |-> TRUE, val |-> val]
  ELSE IF ~ApplyOk(val, hist[i].delta) THEN [ok |-> FALSE, val |-> val]
  ELSE LET v == ApplyVal(val, hist[i].delta)
       IN IF v # hist[i].after THEN [ok |-> FALSE, val |-> v] ELSE ReplayFrom(v, hist, i + 1)
Replay(hist) == ReplayFrom(InitVal, hist, 1)

\* ---- strand.rs live_basis_report / settlement.rs compare_internal ----------
SuffixStart(st) == st.ft + 1                       \* first suffix tick = number of copied entries
SuffixOf(w, st) == SubSeq(w[st.child].hist, SuffixStart(st) + 1, Len(w[st.child].hist))
RECURSIVE UnionSeq(_, _)
UnionSeq(f, n) == IF n = 0 THEN {} ELSE f[n] \cup UnionSeq(f, n - 1)
ReadSlots(sfx)  == UnionSeq([i \in 1..Len(sfx) |-> sfx[i].in], Len(sfx))
WriteSlots(sfx) == UnionSeq([i \in 1..Len(sfx) |-> sfx[i].out], Len(sfx))
\* collect_parent_movement: out_slots of EVERY parent entry after the anchor (imports included)
ParentMoved(w, st) ==
  LET h == w[st.src].hist n == Len(h) - SuffixStart(st)
  IN UnionSeq([i \in 1..n |-> h[SuffixStart(st) + i].out], n)
BasisOf(w, st) ==
  LET sfx == SuffixOf(w, st)
      closed == ReadSlots(sfx) \cup WriteSlots(sfx)
      moved == ParentMoved(w, st)
      atAnchor == Len(w[st.src].hist) = SuffixStart(st)
      ov == moved \cap closed
  IN [kind |-> IF atAnchor THEN "at_anchor" ELSE IF ov = {} THEN "disjoint" ELSE "reval",
      overlap |-> IF atAnchor THEN {} ELSE ov, reads |-> ReadSlots(sfx), writes |-> WriteSlots(sfx),
      moved |-> moved, suffixStart |-> SuffixStart(st), suffixLen |-> Len(sfx), atAnchor |-> atAnchor]

\* ---- settlement.rs plan_with_policy_internal --------------------------------
\* "lawful": re-running the source tick's program on the simulated parent gives what applying
\* the recorded patch gives (not computed by the code; the oracle for "replays cleanly").
Lawful(e, sim) == ApplyVal(sim, e.delta) = ApplyVal(sim, Delta(Prog[e.pi], sim))
Decision(kind, reason, reval, eo, t, lawful, sim) ==
  [kind |-> kind, reason |-> reason, reval |-> reval, eo |-> eo, t |-> t, lawful |-> lawful, sim |-> sim]
RECURSIVE PlanLoop(_, _, _, _, _, _, _, _)
PlanLoop(sfx, i, sim, blocked, acc, b, st, pol) ==
  IF i > Len(sfx) THEN acc
  ELSE
    LET e == sfx[i]
        t == SuffixStart(st) + i - 1                    \* source worldline tick of this entry
        \* BaseDivergence: parent at anchor but frontier/tip differ from the pinned basis.  With
        \* parent_at_anchor == (parent_len = suffix_start) the frontier test is never true and the
        \* tip is the anchor entry; kept for fidelity.
        reason0 == IF blocked # None THEN blocked
                   ELSE IF b.atAnchor /\ b.tipAfter # st.basis THEN "BaseDivergence"
                   ELSE IF e.kind # "local" THEN "UnsupportedImport"
                   ELSE None
        eo == IF b.kind = "reval" THEN b.overlap \cap (e.in \cup e.out) ELSE {}
        ok == ApplyOk(sim, e.delta)
        cand == ApplyVal(sim, e.delta)
    IN IF reason0 # None
       THEN PlanLoop(sfx, i + 1, sim, reason0, Append(acc, Decision("conflict", reason0, "none", {}, t, TRUE, sim)), b, st, pol)
       ELSE IF ~ok
       THEN LET r == IF eo = {} THEN "UnsupportedImport" ELSE "ParentFootprintOverlap"
            IN PlanLoop(sfx, i + 1, sim, r,
                        Append(acc, Decision("conflict", r, IF eo = {} THEN "none" ELSE "obstructed", eo, t, TRUE, sim)), b, st, pol)
       ELSE IF b.atAnchor /\ cand # e.after
       THEN PlanLoop(sfx, i + 1, sim, "UnsupportedImport",
                     Append(acc, Decision("conflict", "UnsupportedImport", "none", {}, t, TRUE, sim)), b, st, pol)
       ELSE IF eo = {}
       THEN PlanLoop(sfx, i + 1, cand, blocked, Append(acc, Decision("import", "", "none", {}, t, Lawful(e, sim), cand)), b, st, pol)
       \* Clean (since /repo de1c2a1): applying the patch leaves the overlapped parent slots unchanged
       \* (overlap_slots_are_clean(simulated, candidate)) AND on every overlapped slot the parent then
       \* holds the value the SOURCE lane held after this entry (source_simulated, followed from the fork
       \* basis: overlap_slots_are_clean(source, candidate)).  A patch is a diff and carries no read
       \* values, so without the second conjunct a stale read or a write of the basis value passed.
       \* Consequence: a pure read of a slot whose value the parent changed is now a conflict (plural).
       ELSE IF (\A s \in eo : sim[s] = cand[s]) /\ (AsBuiltClean \/ \A s \in eo : cand[s] = e.after[s])
       THEN PlanLoop(sfx, i + 1, cand, blocked, Append(acc, Decision("import", "", "clean", eo, t, Lawful(e, sim), cand)), b, st, pol)
       ELSE IF pol = "plural"
       THEN PlanLoop(sfx, i + 1, sim, "PluralUpstream", Append(acc, Decision("plural", "", "none", eo, t, TRUE, sim)), b, st, pol)
       ELSE PlanLoop(sfx, i + 1, sim, "ParentFootprintOverlap",
                     Append(acc, Decision("conflict", "ParentFootprintOverlap", "conflict", eo, t, TRUE, sim)), b, st, pol)

PlanOf(w, r, sid, pol) ==
  LET st == r[sid]
      h == w[st.src].hist
      b == BasisOf(w, st) @@ [tipAfter |-> IF Len(h) = 0 THEN InitVal ELSE h[Len(h)].after]
  IN [sid |-> sid, pol |-> pol, target |-> st.src, basis |-> b,
      dec |-> PlanLoop(SuffixOf(w, st), 1, w[st.src].val, None, <<>>, b, st, pol)]

\* ---- actions ----------------------------------------------------------------
Idle == stl = None

\* one head commit of super_tick on worldline w with one admitted intent (program pi)
Tick(w, pi) ==
  /\ Idle /\ w \in DOMAIN wls
  /\ LET e == LocalEntry(pi, wls[w].val)
     IN wls' = [wls EXCEPT ![w] = [val |-> e.after, hist |-> Append(@.hist, e)]]
  /\ gtick' = gtick + 1
  /\ last' = [op |-> "tick", w |-> w, before |-> wls, sh |-> shells, g |-> gtick]
  /\ UNCHANGED <<heads, reg, shells, plan, stl>>

\* fork_strand: exact prefix copy (entries 0..t), child frontier materialised at the basis,
\* fresh heads keyed by the child worldline, immutable basis pinned; no global tick.
Fork(sid, src, t, child) ==
  /\ Idle /\ sid \notin DOMAIN reg /\ child \notin DOMAIN wls /\ src \in DOMAIN wls
  /\ t < Len(wls[src].hist)
  /\ LET pre == SubSeq(wls[src].hist, 1, t + 1)
         hk == <<child, "h0">>
     IN /\ wls' = wls @@ (child :> [val |-> pre[t + 1].after, hist |-> pre])
        /\ heads' = heads \cup {hk}
        /\ reg' = reg @@ (sid :> [src |-> src, ft |-> t, child |-> child, heads |-> {hk}, pins |-> <<>>,
                                  basis |-> pre[t + 1].after])
  /\ last' = [op |-> "fork", w |-> child, before |-> wls, sh |-> shells, g |-> gtick]
  /\ UNCHANGED <<shells, gtick, plan, stl>>

\* a fork request the code must refuse and roll back: unknown tick, live child id, live strand id,
\* no head, a head keyed by another worldline (INV-S2 / INV-S8)
ForkRefused(why) ==
  /\ Idle
  /\ last' = [op |-> "fork_refused", w |-> why, before |-> wls, sh |-> shells, g |-> gtick]
  /\ UNCHANGED <<wls, heads, reg, shells, gtick, plan, stl>>

\* StrandRegistry::pin_support (read-only support pin on a live strand)
PinOk(owner, target, tick) ==
  /\ owner \in DOMAIN reg /\ target \in DOMAIN reg /\ owner # target
  /\ \A i \in 1..Len(reg[owner].pins) : reg[owner].pins[i].sid # target
  /\ tick < Len(wls[reg[target].child].hist)
Pin(owner, target, tick) ==
  /\ Idle
  /\ IF PinOk(owner, target, tick)
     THEN reg' = [reg EXCEPT ![owner].pins =
                    Append(@, [sid |-> target, wl |-> reg[target].child, tick |-> tick,
                               after |-> wls[reg[target].child].hist[tick + 1].after])]
     ELSE UNCHANGED reg
  /\ last' = [op |-> IF PinOk(owner, target, tick) THEN "pin" ELSE "pin_refused", w |-> owner, before |-> wls, sh |-> shells, g |-> gtick]
  /\ UNCHANGED <<wls, heads, shells, gtick, plan, stl>>

\* SettlementService::plan_with_policy: reads only
PlanStep(sid, pol) ==
  /\ Idle /\ sid \in DOMAIN reg
  /\ plan' = PlanOf(wls, reg, sid, pol)
  /\ last' = [op |-> "plan", w |-> sid, before |-> wls, sh |-> shells, g |-> gtick]
  /\ UNCHANGED <<wls, heads, reg, shells, gtick, stl>>

\* settle_with_policy_internal: plan; empty plan => nothing; else checkpoint (runtime clone +
\* provenance checkpoint of the target), one recorded entry per decision, shell last.  Every step
\* after the checkpoint is fallible (advance_global_tick, append, shell retention): SettleFail.
SettleBegin(sid, pol) ==
  /\ Idle /\ sid \in DOMAIN reg
  /\ LET pl == PlanOf(wls, reg, sid, pol)
     IN IF Len(pl.dec) = 0
        THEN /\ last' = [op |-> "settle_empty", w |-> sid, before |-> wls, sh |-> shells, g |-> gtick]
             /\ UNCHANGED stl
        ELSE /\ stl' = [sid |-> sid, pol |-> pol, target |-> pl.target, dec |-> pl.dec, k |-> 0,
                        ck |-> [w |-> wls, sh |-> shells, g |-> gtick]]
             /\ UNCHANGED last
  /\ UNCHANGED <<wls, heads, reg, shells, gtick, plan>>

SettledEntry(d, tgt, child) ==
  IF d.kind = "import"
  THEN LET e == wls[child].hist[d.t + 1]          \* append_import_candidate: the source patch, target-local root
       IN [kind |-> "import", pi |-> e.pi, in |-> e.in, out |-> e.out, delta |-> e.delta,
           after |-> ApplyVal(wls[tgt].val, e.delta), src |-> <<child, d.t>>, reval |-> d.reval]
  ELSE [kind |-> d.kind, pi |-> 0, in |-> {}, out |-> {}, delta |-> EmptyFn,      \* no-op patch, residue entry
        after |-> wls[tgt].val, src |-> <<child, d.t>>, reval |-> d.reval]

SettleStep ==
  /\ stl # None /\ stl.k < Len(stl.dec)
  /\ LET d == stl.dec[stl.k + 1]
         tgt == stl.target
         e == SettledEntry(d, tgt, reg[stl.sid].child)
     IN /\ wls' = [wls EXCEPT ![tgt] = [val |-> e.after, hist |-> Append(@.hist, e)]]
        /\ gtick' = gtick + 1
        /\ stl' = [stl EXCEPT !.k = @ + 1]
  /\ UNCHANGED <<heads, reg, shells, plan, last>>

\* append_braid_shell: a plural artifact id (target, source entry, contended slots, policy) may never
\* migrate to another shell, so re-settling a strand whose plural alternative is already retained is
\* refused at the shell step (PluralArtifactAlreadyBound) and rolled back like any other failure.
PidsOf(x) == {<<x.target, reg[x.sid].child, x.dec[i].t, x.dec[i].eo>> : i \in {j \in 1..Len(x.dec) : x.dec[j].kind = "plural"}}
BoundPids == UNION {shells[i].pids : i \in 1..Len(shells)}
ShellRefused == stl # None /\ stl.k = Len(stl.dec) /\ PidsOf(stl) \cap BoundPids # {}

\* FailDuring(k): the step after k appended entries fails (k = Len(dec): the shell step)
SettleFail ==
  /\ stl # None
  /\ wls' = stl.ck.w /\ shells' = stl.ck.sh /\ gtick' = stl.ck.g        \* *runtime = runtime_before; provenance.restore
  /\ last' = [op |-> "settle_failed", w |-> stl.sid, before |-> stl.ck.w, sh |-> stl.ck.sh, g |-> stl.ck.g,
              forced |-> ShellRefused]
  /\ stl' = None
  /\ UNCHANGED <<heads, reg, plan>>

SettleShell ==
  /\ stl # None /\ stl.k = Len(stl.dec) /\ ~ShellRefused
  /\ shells' = Append(shells, [sid |-> stl.sid, pol |-> stl.pol,
                               kinds |-> [i \in 1..Len(stl.dec) |-> stl.dec[i].kind],
                               pids |-> PidsOf(stl), pins |-> reg[stl.sid].pins])
  /\ last' = [op |-> "settled", w |-> stl.sid, before |-> stl.ck.w, sh |-> stl.ck.sh, g |-> stl.ck.g,
              dec |-> stl.dec, target |-> stl.target, moved |-> ParentMoved(stl.ck.w, reg[stl.sid])]
  /\ stl' = None
  /\ UNCHANGED <<wls, heads, reg, gtick, plan>>

SInit ==
  /\ wls = ("P" :> [val |-> InitVal, hist |-> <<>>])
  /\ heads = {<<"P", "h0">>}
  /\ reg = EmptyFn /\ shells = <<>> /\ gtick = 0 /\ plan = None /\ stl = None
  /\ last = [op |-> "init", w |-> "P", before |-> wls, sh |-> <<>>, g |-> 0]

\* ---- invariants --------------------------------------------------------------
\* the copied prefix is exactly the source's first ft+1 entries - at fork time and forever after
\* (histories are append-only); the pinned basis is the state after entry ft
ForkIsExactPrefix ==
  \A sid \in DOMAIN reg :
    LET st == reg[sid]
    IN /\ Len(wls[st.child].hist) >= st.ft + 1 /\ Len(wls[st.src].hist) >= st.ft + 1
       /\ SubSeq(wls[st.child].hist, 1, st.ft + 1) = SubSeq(wls[st.src].hist, 1, st.ft + 1)
       /\ st.basis = wls[st.src].hist[st.ft + 1].after
       /\ (last.op = "fork" /\ last.w = st.child) =>
             (Len(wls[st.child].hist) = st.ft + 1 /\ wls[st.child].val = st.basis)
\* INV-S2/S7/S8: every head of a strand is keyed by its child worldline; no key registered twice
NoSharedHeads ==
  /\ \A sid \in DOMAIN reg : /\ reg[sid].child # reg[sid].src
                             /\ Cardinality(reg[sid].heads) = 1
                             /\ \A h \in reg[sid].heads : h[1] = reg[sid].child /\ h \in heads
  /\ \A s1, s2 \in DOMAIN reg : s1 # s2 => reg[s1].heads \cap reg[s2].heads = {}
  /\ \A h \in heads : h[1] \in DOMAIN wls
\* a tick on one lane changes no other lane (both directions), no registry entry, no shell
LaneIsolation ==
  last.op = "tick" =>
     /\ \A w \in DOMAIN last.before : w # last.w => wls[w] = last.before[w]
     /\ Len(wls[last.w].hist) = Len(last.before[last.w].hist) + 1
     /\ shells = last.sh
StrandTicksDontTouchParent == (last.op = "tick" /\ last.w # "P") => wls["P"] = last.before["P"]
ParentTicksDontTouchStrand == (last.op = "tick" /\ last.w = "P") => \A w \in DOMAIN last.before : w # "P" => wls[w] = last.before[w]
\* planning, comparing, refused forks/pins change nothing
PlanIsPure ==
  (stl = None /\ last.op \in {"plan", "fork_refused", "pin_refused", "pin", "settle_empty"}) =>
     (wls = last.before /\ shells = last.sh /\ gtick = last.g)
\* settlement is all-or-nothing
SettleAllOrNothing ==
  /\ last.op = "settle_failed" => (wls = last.before /\ shells = last.sh /\ gtick = last.g)
  /\ last.op = "settled" =>
       /\ \A w \in DOMAIN last.before : w # last.target => wls[w] = last.before[w]
       /\ Len(wls[last.target].hist) = Len(last.before[last.target].hist) + Len(last.dec)
       /\ SubSeq(wls[last.target].hist, 1, Len(last.before[last.target].hist)) = last.before[last.target].hist
       /\ Len(shells) = Len(last.sh) + 1 /\ SubSeq(shells, 1, Len(last.sh)) = last.sh
       /\ \A i \in 1..Len(last.dec) :
            wls[last.target].hist[Len(last.before[last.target].hist) + i].kind = last.dec[i].kind
\* an entry imported past an unmoved or disjointly moved parent gives the parent the strand's
\* values on every slot the entry wrote; through a clean overlap too since /repo de1c2a1 (before it,
\* only on the slots outside the overlap: AsBuiltClean)
ImportedSlotsTakeStrandValues ==
  last.op = "settled" =>
    \A i \in 1..Len(last.dec) :
      LET d == last.dec[i]
          x == wls[last.target].hist[Len(last.before[last.target].hist) + i]
          e == wls[reg[last.w].child].hist[d.t + 1]
      IN d.kind = "import" => \A s \in e.out : (AsBuiltClean /\ s \in d.eo) \/ x.after[s] = e.after[s]
\* no slot the parent wrote after the anchor changes value during settlement; retained
\* (conflict / plural) entries change nothing at all
ParentChangedSlotsNeverOverwritten ==
  last.op = "settled" =>
    /\ \A s \in last.moved : wls[last.target].val[s] = last.before[last.target].val[s]
    /\ \A i \in 1..Len(last.dec) :
         LET n0 == Len(last.before[last.target].hist)
             prev == IF n0 + i = 1 THEN InitVal ELSE wls[last.target].hist[n0 + i - 1].after
         IN last.dec[i].kind # "import" => wls[last.target].hist[n0 + i].after = prev
\* blocking is sticky: nothing is imported after the first retained entry
BlockingIsSticky ==
  last.op = "settled" =>
    \A i, j \in 1..Len(last.dec) : (i < j /\ last.dec[i].kind # "import") => last.dec[j].kind # "import"
\* every lane is verifiable from its own history and equals its live state
ParentStaysReplayable ==
  stl = None => \A w \in DOMAIN wls : LET r == Replay(wls[w].hist) IN r.ok /\ r.val = wls[w].val
\* an imported entry has the effect its tick would have had on the parent basis.  Holds since the
\* source-lane revalidation of /repo de1c2a1; MC_C15_asbuilt.cfg (AsBuiltClean = TRUE) keeps the
\* counterexample of the earlier test (findings F8 stale read / F9 dropped write).
ImportsReplayCleanly ==
  last.op = "settled" => \A i \in 1..Len(last.dec) : last.dec[i].lawful
=============================================================================
