"""Shared runner machinery: build the harness, run TLC, parse its output, hand cases to
the harness, triage findings against known_findings.json, write evidence.

Exit protocol (every check): 0 = property held on everything explored;
1 + "VIOLATION property=<id> replay=<path>" = violation not listed as known;
2 = tool trouble (cargo/TLC/JVM failure, timeout) -- never reported as a violation.
"""
import json
import os
import re
import shutil
import subprocess
import sys
import time

VERIF = os.path.dirname(os.path.dirname(os.path.abspath(__file__)))
SPEC = os.path.join(VERIF, "spec")
HARNESS = os.environ.get("VERIF_HARNESS_DIR", os.path.join(VERIF, "harness"))
# VERIF_WORK / VERIF_EVID / VERIF_REPLAYS let a second run (e.g. against a seeded mutant) use its own scratch,
# evidence and replay directories so it cannot disturb the registered checks' files.
WORK = os.environ.get("VERIF_WORK", os.path.join(VERIF, "work"))
EVID = os.environ.get("VERIF_EVID", os.path.join(VERIF, "evidence"))
REPLAYS = os.environ.get("VERIF_REPLAYS", os.path.join(VERIF, "replays"))
REPO = os.environ.get("VERIF_REPO", "/repo")


class ToolError(Exception):
    pass


def log(*a):
    print(*a, file=sys.stderr, flush=True)


def seed():
    try:
        return int(os.environ.get("VERIF_SEED", "1"))
    except ValueError:
        return 1


def ensure_dirs():
    for d in (WORK, EVID, REPLAYS):
        os.makedirs(d, exist_ok=True)


# --------------------------------------------------------------------------- harness

_built = {}


def build_harness(features=(), target_dir="target"):
    """(Re)builds the harness against /repo's current working tree. Path dependency =>
    cargo notices edits under /repo. Returns the binary path."""
    key = (tuple(features), target_dir)
    if key in _built:
        return _built[key]
    ensure_dirs()
    lock = os.path.join(HARNESS, "Cargo.lock")
    if not os.path.exists(lock):
        shutil.copy(os.path.join(REPO, "Cargo.lock"), lock)
    cmd = ["cargo", "build", "--offline", "--target-dir", target_dir]
    if features:
        cmd += ["--features", ",".join(features)]
    t0 = time.time()
    env = dict(os.environ)
    env["CARGO_NET_OFFLINE"] = "true"
    p = subprocess.run(cmd, cwd=HARNESS, env=env, stdout=subprocess.PIPE, stderr=subprocess.STDOUT, text=True)
    if p.returncode != 0:
        log(p.stdout[-6000:])
        raise ToolError("harness build failed")
    log(f"[build] harness built in {time.time() - t0:.1f}s")
    binp = os.path.join(HARNESS, target_dir, "debug", "echo-verif")
    _built[key] = binp
    return binp


def harness(binp, args, timeout=3600, env=None, ok_codes=(0,)):
    e = dict(os.environ)
    if env:
        e.update(env)
    try:
        p = subprocess.run([binp] + list(args), cwd=VERIF, env=e, stdout=subprocess.PIPE,
                           stderr=subprocess.PIPE, text=True, timeout=timeout)
    except subprocess.TimeoutExpired:
        raise ToolError(f"harness timeout: {args[:1]}")
    if p.returncode not in ok_codes:
        log(p.stderr[-4000:])
        log(p.stdout[-2000:])
        raise ToolError(f"harness {args[:1]} exited {p.returncode}")
    return p.stdout


def id_ranks(binp, salt=""):
    """Writes the id rank table (byte order of the real ids) for TLC; returns its path."""
    out = harness(binp, ["ids"], env={"VERIF_ID_SALT": salt})
    path = os.path.join(WORK, f"ids{salt}.json")
    with open(path, "w") as f:
        f.write(out.strip() + "\n")
    return path


# --------------------------------------------------------------------------- TLC

TLC_CP = "/opt/veriftools/tla/tla2tools.jar:/opt/veriftools/tla/CommunityModules-deps.jar"


class TlcResult:
    def __init__(self):
        self.generated = 0
        self.distinct = 0
        self.depth = 0
        self.violation = None      # name of violated invariant/property, if any
        self.error_text = ""
        self.lines = []            # payloads of <<"TAG", "...">> prints, as (tag, obj)
        self.coverage = {}         # action name -> count (when -coverage given)
        self.stdout_path = ""
        self.wall = 0.0
        self.postcondition_failed = False


_PRINT_RE = re.compile(r'^<<"([A-Z_]+)", (".*")>>\s*$')


def tlc(module, cfg, workers=8, env=None, timeout=1800, simulate=None, depth=None, coverage=False,
        java_opts="", tags=("CASE", "REPLAY"), out_name=None, seed_arg=None, heap="8g", extra=()):
    """Runs TLC on spec/<module>.tla with spec/<cfg>. Printed tagged lines are collected
    (json-decoded) into result.lines; everything else is scanned for the summary."""
    ensure_dirs()
    name = out_name or cfg.replace(".cfg", "")
    meta = os.path.join(WORK, "tlc", name)
    shutil.rmtree(meta, ignore_errors=True)
    os.makedirs(meta, exist_ok=True)
    outp = os.path.join(WORK, f"tlc_{name}.out")
    cmd = ["java", "-XX:+UseParallelGC", f"-Xmx{heap}"]
    if java_opts:
        cmd += java_opts.split()
    cmd += ["-cp", TLC_CP, "tlc2.TLC", "-workers", str(workers), "-metadir", meta, "-cleanup",
            "-noGenerateSpecTE", "-config", cfg]
    if coverage:
        cmd += ["-coverage", "1"]
    if simulate:
        cmd += ["-simulate", simulate]
    if depth:
        cmd += ["-depth", str(depth)]
    if seed_arg is not None:
        cmd += ["-seed", str(seed_arg)]
    cmd += list(extra)
    cmd += [module + ".tla"]
    e = dict(os.environ)
    if env:
        e.update({k: str(v) for k, v in env.items()})
    t0 = time.time()
    res = TlcResult()
    res.stdout_path = outp
    with open(outp, "w") as f:
        try:
            p = subprocess.run(cmd, cwd=SPEC, env=e, stdout=f, stderr=subprocess.STDOUT, timeout=timeout)
        except subprocess.TimeoutExpired:
            raise ToolError(f"TLC timeout on {cfg}")
    res.wall = time.time() - t0
    err_lines = []
    in_err = False
    with open(outp) as f:
        for line in f:
            m = _PRINT_RE.match(line)
            if m and m.group(1) in tags:
                try:
                    res.lines.append((m.group(1), json.loads(json.loads(m.group(2)))))
                except Exception:
                    raise ToolError(f"cannot decode TLC print line: {line[:200]}")
                continue
            m2 = re.search(r"(\d+) states generated, (\d+) distinct states found", line)
            if m2:
                res.generated = int(m2.group(1))
                res.distinct = int(m2.group(2))
            m3 = re.search(r"depth of the complete state graph search is (\d+)", line)
            if m3:
                res.depth = int(m3.group(1))
            m4 = re.search(r"Error: Invariant (\S+) is violated", line)
            if m4:
                res.violation = m4.group(1)
            if "Error: Action property" in line or "Temporal properties were violated" in line:
                res.violation = res.violation or "temporal"
            if ("POSTCONDITION" in line.upper() and ("violated" in line.lower() or "false" in line.lower())) \
                    or '"REJECTED_AT"' in line or line.startswith('<<"REJECTED"'):
                res.postcondition_failed = True
            if line.startswith("Error:"):
                in_err = True
            if in_err and len(err_lines) < 400:
                err_lines.append(line)
            m5 = re.match(r"^<(\w+) line \d+, col \d+ to line \d+, col \d+ of module (\w+)>: (\d+):(\d+)", line)
            if m5:
                res.coverage[m5.group(1)] = res.coverage.get(m5.group(1), 0) + int(m5.group(4))
    res.error_text = "".join(err_lines)
    log(f"[tlc] {cfg}: {res.generated} generated, {res.distinct} distinct, {len(res.lines)} exported, "
        f"{res.wall:.1f}s, rc={p.returncode}" + (f", VIOLATION {res.violation}" if res.violation else ""))
    # rc 0 = ok; 12 = safety violation; 13 = liveness; 10/11 assumption/deadlock; others = tool trouble
    if p.returncode not in (0, 10, 12, 13) and not res.postcondition_failed:
        log(res.error_text[-3000:] or open(outp).read()[-3000:])
        raise ToolError(f"TLC failed on {cfg} (rc={p.returncode})")
    if p.returncode == 10 and not res.postcondition_failed and res.violation is None:
        log(res.error_text[-3000:])
        raise ToolError(f"TLC failed on {cfg} (rc=10, no postcondition marker)")
    if p.returncode == 12 and res.violation is None and not res.postcondition_failed:
        res.violation = "unknown"
    return res


def sany(module):
    p = subprocess.run(["java", "-cp", TLC_CP, "tla2sany.SANY", module + ".tla"], cwd=SPEC,
                       stdout=subprocess.PIPE, stderr=subprocess.STDOUT, text=True)
    ok = p.returncode == 0 and "Semantic errors" not in p.stdout and "Parse Error" not in p.stdout
    return ok, p.stdout


# --------------------------------------------------------------------------- findings / evidence

def load_known():
    path = os.path.join(VERIF, "known_findings.json")
    if not os.path.exists(path):
        return []
    with open(path) as f:
        return json.load(f).get("findings", [])


CURRENT = None   # the Check of this process (so the entry point can report violations found before tool trouble)


class Check:
    """Bookkeeping for one check run."""

    def __init__(self, prop, tier, level="model_checking"):
        global CURRENT
        CURRENT = self
        ensure_dirs()
        self.prop = prop
        self.tier = tier
        self.level = level
        self.t0 = time.time()
        self.seed = seed()
        self.cov = {"states": 0, "transitions": 0, "traces_validated_against_impl": 0, "samples": [],
                    "evaluations": 0, "distinct_nontrivial": 0, "rule": "", "exhaustive": False}
        self.assumptions = []
        self.violations = []       # (key, description, replay_obj)
        self.known_hits = []
        self.notes = []

    def add_tlc(self, res):
        self.cov["states"] += res.distinct
        self.cov["transitions"] += res.generated

    def sample(self, obj, limit=4):
        if len(self.cov["samples"]) < limit:
            self.cov["samples"].append(obj)

    def violation(self, key, desc, replay_obj):
        """key identifies the specific failing input/site; compared with known_findings."""
        for k in load_known():
            if k.get("property") == self.prop and k.get("status") == "known" and re.search(k["match"], key):
                if k["id"] not in [h[0] for h in self.known_hits]:
                    self.known_hits.append((k["id"], k.get("what", desc)))
                return False
        self.violations.append((key, desc, replay_obj))
        return True

    def finish(self):
        wall = time.time() - self.t0
        ev = {
            "property_id": self.prop,
            "tier": self.tier,
            "seed": self.seed,
            "level": self.level,
            "coverage": self.cov,
            "assumptions": self.assumptions,
            "wall_s": round(wall, 2),
            "violations": len(self.violations),
        }
        if self.notes:
            ev["coverage"]["notes"] = self.notes
        if self.known_hits:
            ev["coverage"]["known_findings_hit"] = [h[0] for h in self.known_hits]
        if not ev["coverage"]["samples"]:
            ev["coverage"]["samples"] = ["(no sample recorded)"]
        with open(os.path.join(EVID, f"{self.prop}.json"), "w") as f:
            json.dump(ev, f, indent=1, default=str)
            f.write("\n")
        for hid, what in self.known_hits:
            print(f"KNOWN-FINDING: property={self.prop} {hid}: {what}")
        if self.violations:
            for i, (key, desc, obj) in enumerate(self.violations[:5]):
                path = os.path.join(REPLAYS, f"{self.prop}-{self.seed}-{i}.json")
                with open(path, "w") as f:
                    json.dump({"property": self.prop, "key": key, "desc": desc, "case": obj}, f, indent=1, default=str)
                    f.write("\n")
                print(f"VIOLATION property={self.prop} replay={path}")
                log(f"  {key}: {str(desc)[:600]}")
            return 1
        print(f"OK property={self.prop} tier={self.tier} wall={wall:.1f}s states={self.cov['states']} "
              f"traces={self.cov['traces_validated_against_impl']}")
        return 0


def write_ndjson(path, objs):
    with open(path, "w") as f:
        for o in objs:
            f.write(json.dumps(o, separators=(",", ":")))
            f.write("\n")
    return path


def read_ndjson(path):
    out = []
    with open(path) as f:
        for line in f:
            line = line.strip()
            if line:
                out.append(json.loads(line))
    return out
