------------------------------ MODULE MC_C03 ------------------------------
(***************************************************************************)
(* C03 model: K candidates, each drawn from the full footprint class       *)
(* universe (per class none/read/write/read+write, ports none/in/out/both, *)
(* instance w0/w1), reserved one at a time by BOTH scheduler               *)
(* implementations in lock-step.  Every K-tuple is an initial state.       *)
(***************************************************************************)
EXTENDS Scheduler, Json, TLC

CONSTANTS K,                 \* number of candidates per tick
          Ticks,             \* number of consecutive ticks on the SAME scheduler (reservations must not outlive a tick)
          NodeModes, EdgeModes, AttModes, PortModes,   \* subsets of 0..3 (first resource of each class)
          NodeModes2, EdgeModes2, AttModes2, PortModes2, \* second resource of each class ({0} = unused)
          WarpChoices,       \* subset of {0, 1}
          MaskChoices,       \* subset of {0,1,2}: 0 = empty mask, 1 = {b0}, 2 = {b1}
          Export

VARIABLES tick,     \* current tick number (1..Ticks)
          past,     \* class sequences of the finished ticks (history, for export)
          cls,      \* sequence of K class records (the input; fixed once picked)
          i,        \* next candidate to reserve (1-based)
          marks, frontier,          \* Radix / Legacy scheduler state
          accR, accL,               \* decisions so far
          blk                       \* attributed blockers per candidate (Radix run)
vars == <<tick, past, cls, i, marks, frontier, accR, accL, blk>>

Classes == [n : NodeModes, e : EdgeModes, a : AttModes, p : PortModes, w : WarpChoices, m : MaskChoices,
            n2 : NodeModes2, e2 : EdgeModes2, a2 : AttModes2, p2 : PortModes2]

R(mode) == mode \in {1, 3}
W(mode) == mode \in {2, 3}
FpOf(c) ==
  LET w == c.w IN
  FP((IF R(c.n) THEN {<<w, "n">>} ELSE {}) \cup (IF R(c.n2) THEN {<<w, "n2">>} ELSE {}),
     (IF W(c.n) THEN {<<w, "n">>} ELSE {}) \cup (IF W(c.n2) THEN {<<w, "n2">>} ELSE {}),
     (IF R(c.e) THEN {<<w, "e">>} ELSE {}) \cup (IF R(c.e2) THEN {<<w, "e2">>} ELSE {}),
     (IF W(c.e) THEN {<<w, "e">>} ELSE {}) \cup (IF W(c.e2) THEN {<<w, "e2">>} ELSE {}),
     (IF R(c.a) THEN {<<w, "a">>} ELSE {}) \cup (IF R(c.a2) THEN {<<w, "a2">>} ELSE {}),
     (IF W(c.a) THEN {<<w, "a">>} ELSE {}) \cup (IF W(c.a2) THEN {<<w, "a2">>} ELSE {}),
     (IF R(c.p) THEN {<<w, "p">>} ELSE {}) \cup (IF R(c.p2) THEN {<<w, "p2">>} ELSE {}),   \* port: 1=in, 2=out, 3=both
     (IF W(c.p) THEN {<<w, "p">>} ELSE {}) \cup (IF W(c.p2) THEN {<<w, "p2">>} ELSE {}),
     CASE c.m = 0 -> {} [] c.m = 1 -> {0} [] c.m = 2 -> {1})

Cands == [k \in 1..Len(cls) |-> FpOf(cls[k])]

\* candidates are picked one at a time (so the enumeration is spread over TLC's workers)
Init == /\ tick = 1 /\ past = <<>>
        /\ cls = <<>>
        /\ i = 1 /\ marks = EmptyMarks /\ frontier = <<>>
        /\ accR = <<>> /\ accL = <<>> /\ blk = <<>>

Pick == /\ Len(cls) < K
        /\ \E c \in Classes : cls' = Append(cls, c)
        /\ UNCHANGED <<tick, past, i, marks, frontier, accR, accL, blk>>

Reserve ==
  /\ Len(cls) = K
  /\ i <= K
  /\ LET f == Cands[i]
         r == RadixStep(marks, f)
         l == LegacyStep(frontier, f)
     IN /\ marks' = r.marks /\ frontier' = l.frontier
        /\ accR' = Append(accR, r.ok) /\ accL' = Append(accL, l.ok)
        /\ blk' = Append(blk, IF r.ok THEN {} ELSE AttributedBlockers(Cands, accR, i))
  /\ i' = i + 1
  /\ UNCHANGED <<tick, past, cls>>
\* finalize_tx: the per-transaction reservation state is dropped; the next tick starts clean
Finalize == /\ Len(cls) = K /\ i = K + 1 /\ tick < Ticks
            /\ tick' = tick + 1 /\ past' = Append(past, cls)
            /\ cls' = <<>> /\ i' = 1 /\ marks' = EmptyMarks /\ frontier' = <<>>
            /\ accR' = <<>> /\ accL' = <<>> /\ blk' = <<>>
Next == Pick \/ Reserve \/ Finalize
Spec == Init /\ [][Next]_vars

Done == Len(cls) = K /\ i = K + 1
Oracle == GreedyAdmit(Cands)

\* ---- properties ---------------------------------------------------------
\* Radix decisions are the canonical greedy independent set (every prefix)
Inv_RadixIsGreedy == \A k \in 1..Len(accR) : accR[k] = Oracle[k]
\* a rejected candidate reserves nothing: marks are exactly those of the accepted ones
Inv_RejectedMarksNothing == marks = MarksOf({Cands[k] : k \in {x \in 1..Len(accR) : accR[x]}})
\* blockers named in the receipt are exactly the earlier accepted candidates in conflict, and non-empty
Inv_ExactBlockers == Done => \A k \in 1..Len(blk) :
                        IF accR[k] THEN blk[k] = {} ELSE blk[k] = Blockers(Cands, Oracle, k) /\ blk[k] # {}
\* both implementations decide identically whenever partition masks are sound
Inv_LegacyAgreesWhenSound == MasksSound(Cands) => accL = accR
\* the three transcribed conflict predicates are one relation
Inv_PredicatesAgree == (i = 1 /\ Len(cls) = K) => \A x, y \in 1..K : /\ Conflicts(Cands[x], Cands[y]) = FootprintsConflict(Cands[x], Cands[y])
                                          /\ Conflicts(Cands[x], Cands[y]) = Conflicts(Cands[y], Cands[x])
                                          /\ Conflicts(Cands[x], Cands[y]) = HasConflict(MarkAll(EmptyMarks, Cands[y]), Cands[x])

ClsJson(q) == [k \in 1..K |-> <<q[k].n, q[k].e, q[k].a, q[k].p, q[k].w, q[k].m, q[k].n2, q[k].e2, q[k].a2, q[k].p2>>]
CaseJson == [c |-> ClsJson(cls),
             prev |-> [t \in 1..Len(past) |-> ClsJson(past[t])],
             accR |-> accR, accL |-> accL,
             blk |-> [k \in 1..K |-> blk[k]],
             sound |-> MasksSound(Cands)]
Inv_Export == (Export /\ Done /\ tick = Ticks) => PrintT(<<"CASE", ToJson(CaseJson)>>)
=============================================================================
